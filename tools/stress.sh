#!/bin/bash
# tools/stress.sh <seed>...   run all 19 quick checks CONCURRENTLY (heavy oversubscription)
# for each seed; prints only runs that did not exit 0. Used to flush out timing-dependent
# false alarms before a check is trusted.
set -u
ROOT="$(cd "$(dirname "$0")/.." && pwd)"
OUT="${VERIF_STRESS_OUT:-$ROOT/harness/target/stress}"
mkdir -p "$OUT"; : > "$OUT/summary.txt"
export VERIF_ROOT="$ROOT"
for seed in "$@"; do
  pids=()
  for i in $(seq -w 1 19); do
    ( VERIF_SEED=$seed "$ROOT/harness/target/verif/verif" run C$i quick > "$OUT/C$i.$seed.out" 2>&1; echo "C$i seed=$seed rc=$?" >> "$OUT/summary.txt" ) &
    pids+=($!)
  done
  for p in "${pids[@]}"; do wait $p; done
done 2>/dev/null
grep -v "rc=0" "$OUT/summary.txt" | sort
echo "runs: $(wc -l < "$OUT/summary.txt"), non-zero: $(grep -vc 'rc=0' "$OUT/summary.txt")"
