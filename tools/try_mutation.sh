#!/bin/sh
# tools/try_mutation.sh <file-in-repo> <python-regex-old> <new> <ID> [more IDs]
# Apply a one-off textual mutation to /repo, run ./check <ID> quick, revert.
f="$1"; old="$2"; new="$3"; shift 3
python3 - "$f" "$old" "$new" <<'PY'
import sys,re
f,old,new=sys.argv[1:4]
p='/repo/'+f
s=open(p).read()
s2,n=re.subn(old,new,s,count=1,flags=re.S)
if n!=1:
    print("MUTATION DID NOT APPLY"); sys.exit(3)
open(p,'w').write(s2)
PY
[ $? -eq 0 ] || exit 3
for id in "$@"; do
  /verif/check "$id" quick 2>&1 | grep -E "VIOLATION|signature|^\[C|INCONCLUSIVE|error" | head -8
  echo "  -> $id rc=$?"
done
git -C /repo checkout -- .
