#!/bin/bash
# tools/run_seeds.sh [ID-n ...]   apply each kept seeded defect to /repo, run the quick check of its
# property (plus any IDs in meta.json "also_check"), revert, and record the outcome in seeded/RESULTS.md.
cd /verif
[ -z "$(git -C /repo status --porcelain)" ] || { echo "/repo is dirty"; exit 2; }
sel="$*"; [ -n "$sel" ] || sel=$(ls seeded | grep -E '^C[0-9]+-[0-9]+$')
for s in $sel; do
  id=${s%%-*}
  also=$(python3 -c "import json;print(' '.join(json.load(open('seeded/$s/meta.json')).get('also_check',[])))" 2>/dev/null)
  git -C /repo apply /verif/seeded/$s/patch.diff || { echo "$s: patch does not apply"; continue; }
  line="$s:"
  for c in $id $also; do
    out=$(./check $c quick 2>&1); rc=$?
    sig=$(echo "$out" | grep -m1 -oE 'signature=[^ ]+')
    sub=$(echo "$out" | grep -m1 -oE 'sub_check=[^ ]+')
    line="$line $c rc=$rc $sub $sig;"
  done
  git -C /repo checkout -- .
  echo "$line"
  python3 - "$s" "$line" <<'PY'
import json,sys
s,line=sys.argv[1:3]
p=f'/verif/seeded/{s}/meta.json'
m=json.load(open(p)); m['last_run']=line; json.dump(m,open(p,'w'),indent=1)
PY
done
