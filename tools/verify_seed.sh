#!/bin/bash
# tools/verify_seed.sh <ID> <n> [extra check IDs...]        (env SEED_WT=<worktree> SEED_OUT_N=<k> for later rounds:
#   the agent's worktree is $SEED_WT instead of /tmp/seed/<ID>, its mutant <n> is kept as seeded/<ID>-<k>)
# Confirms a seeded defect produced by a sub-agent in /tmp/seed/<ID>/SEED/<n>:
#   (1) demo passes on the clean worktree, (2) with the patch the crate builds with
#   websocket,value-stream and the existing suite passes, (3) the demo fails with the patch;
#   then (4) applies the patch to /repo, runs ./check <ID> quick (and extra IDs), reverts.
# Writes /verif/seeded/<ID>-<n>/{patch.diff,demo.rs,meta.json,verify.log}.
set -u
ID="$1"; N="$2"; shift 2
WT=${SEED_WT:-/tmp/seed/$ID}; S=$WT/SEED/$N
OUT=/verif/seeded/$ID-${SEED_OUT_N:-$N}
mkdir -p "$OUT"
LOG="$OUT/verify.log"; : > "$LOG"
export CARGO_NET_OFFLINE=true CARGO_BUILD_JOBS=8
feat=$(python3 -c "
import json,re,sys
m=json.load(open('$S/meta.json'))
c=m.get('demo_cmd','')
r=re.search(r'--features[= ]+([\w,\-]+)',c)
print(r.group(1) if r else '')")
FEAT=""; [ -n "$feat" ] && FEAT="--features $feat"
cd "$WT" || exit 2
git checkout -q -- . ; rm -f tests/seed_demo.rs
cp "$S/demo.rs" tests/seed_demo.rs
echo "== demo on clean tree ($FEAT)" >> "$LOG"
if cargo test --offline --test seed_demo $FEAT >> "$LOG" 2>&1; then clean_ok=true; else clean_ok=false; fi
if ! git apply "$S/patch.diff" 2>>"$LOG"; then echo "PATCH DOES NOT APPLY" | tee -a "$LOG"; exit 3; fi
echo "== build with features" >> "$LOG"
if cargo build --offline --features websocket,value-stream >> "$LOG" 2>&1; then build_ok=true; else build_ok=false; fi
echo "== demo with patch" >> "$LOG"
if cargo test --offline --test seed_demo $FEAT >> "$LOG" 2>&1; then demo_fails=false; else demo_fails=true; fi
rm -f tests/seed_demo.rs
echo "== suite with patch" >> "$LOG"
cargo test --workspace --no-fail-fast --offline > "$OUT/suite.log" 2>&1
passed=$(grep -E "^test result" "$OUT/suite.log" | sed -E 's/.* ([0-9]+) passed.*/\1/' | paste -sd+ | bc)
failed=$(grep -E "^test result" "$OUT/suite.log" | sed -E 's/.* ([0-9]+) failed.*/\1/' | paste -sd+ | bc)
rm -f "$OUT/suite.log"
git checkout -q -- .
cp "$S/patch.diff" "$S/demo.rs" "$OUT/"
echo "clean_ok=$clean_ok build_ok=$build_ok demo_fails_with_patch=$demo_fails suite_passed=$passed suite_failed=$failed" | tee -a "$LOG"
# (4) our checks
declare -A RES
if git -C /repo apply "$S/patch.diff"; then
  for c in "$ID" "$@"; do
    out=$(/verif/check "$c" quick 2>&1); rc=$?
    echo "== ./check $c quick rc=$rc" >> "$LOG"; echo "$out" | grep -E "VIOLATION|signature|sub_check|^\[C|INCONCLUSIVE|KNOWN" >> "$LOG"
    RES[$c]=$rc
    echo "check $c rc=$rc $(echo "$out" | grep -m1 -E 'signature' )"
  done
  git -C /repo checkout -- .
else
  echo "PATCH DOES NOT APPLY TO /repo" | tee -a "$LOG"
fi
python3 - "$S/meta.json" "$OUT/meta.json" "$clean_ok" "$build_ok" "$demo_fails" "$passed" "$failed" "$(for c in "${!RES[@]}"; do echo -n "$c=${RES[$c]} "; done)" <<'PY'
import json,sys
src,dst,clean_ok,build_ok,demo_fails,passed,failed,res=sys.argv[1:9]
m=json.load(open(src))
m['confirmed_by_main']={'demo_passes_without_patch':clean_ok=='true','builds_with_features':build_ok=='true','demo_fails_with_patch':demo_fails=='true','suite_passed':int(passed or 0),'suite_failed':int(failed or 0),
  'ran':'tools/verify_seed.sh (demo on clean worktree; patch applied: cargo build --features websocket,value-stream, demo, cargo test --workspace; then patch applied to /repo, ./check quick, reverted)'}
m['check_quick_exit_codes']={k:int(v) for k,v in (x.split('=') for x in res.split())}
json.dump(m,open(dst,'w'),indent=1)
PY
