#!/usr/bin/env python3
"""Regenerate /verif/MANIFEST.json from the table below (single source of truth)."""
import json, subprocess, os

ROOT = os.path.dirname(os.path.dirname(os.path.abspath(__file__)))

# id -> (level category, technique, level text, level note, design ref)
CHECKS = {
 "C01": ("exploration",
   "property-based testing (proptest, shrinking) with an independent layout-table codec as oracle; route-vs-route differential; decode-side round trip of verbatim wire bytes (proptest, and coverage-guided libFuzzer+ASan target c01_wire in thorough)",
   "Generated logical messages (all header fields from boundary/byte-distinct/uniform mixtures, payload lengths 0..64 KiB plus 4 MiB spot cases, every body-capacity relation) are emitted through every emission route and parsed back through every parser; every byte is compared with an oracle written from the REPE layout table and validated against the C++/Glaze fixtures. Exploration, not proof: sampled inputs, exhaustive only over routes.",
   "Trusts the harness's own 48-byte layout table (cross-checked against interop/fixtures) and proptest's generators.",
   "DESIGN.md §4 C01"),
 "C02": ("exploration",
   "property-based testing + bounded-exhaustive boundary cross product with a u128 reference parser as oracle; child-process isolation to observe aborts; coverage-guided libFuzzer+ASan target c02_bytes (verbatim bytes into every parser and reader, same oracle) in thorough",
   "Arbitrary byte strings, structured mutations of valid frames (every truncation point), and the exhaustive cross product of boundary values for the three 64-bit length fields (incl. wrapping sums and unallocatable sizes) are fed to all 5 slice parsers and all 4 stream readers; never panic/abort, Ok iff the reference parser says a whole consistent frame is present, payload identical to the input bytes, exactly one frame consumed.",
   "Stream-reader cases keep each declared payload <= 16 MiB or >= 2^62 (the property's own memory-independence restriction); aborts are observed as child signal exits.",
   "DESIGN.md §4 C02"),
 "C03": ("exploration",
   "property-based generation of pipelined request sequences against four dispatch paths built from one router factory; envelope reference model + in-process twin as oracle; completeness by half-close and read-to-EOF; cross-transport differential",
   "Generated sequences (1..64 requests over the product of versions, query formats, registered/unregistered/non-UTF-8/empty queries for every built-in handler kind, body formats, well-formed/truncated/random/empty bodies, notify 0/1, in generated TCP segmentations, with and without middleware) are sent to Server, AsyncServer and the WebSocket server (inline and off-reader routes): exact rejection codes, no response to notifies, exactly one response per other request (nothing extra after half-close), id and query echo, request order for inline responses, handler observation logs equal to an in-process twin (exactly once / never), and identical response fields on every path. Under backpressure on the WebSocket server (outbound capacities 1..1024, stalled peer, competing notifies and broadcasts) every pipelined request still gets exactly one response, inline ones in order.",
   "notify flag 0/1 only; handlers return; the handler's own answer is predicted by running the same handler in-process.",
   "DESIGN.md §4 C03"),
 "C04": ("exploration",
   "property-based + bounded-exhaustive schedule generation against a scripted peer: all K! reply orders (K<=5 quick / 6 thorough) for three clients, random valid interleavings of receive/answer events up to K=64 with injected unknown-id, duplicate and notify-reuse frames; self-identifying response bodies as oracle; a verif-hooks probe (client.written) holds the caller after its write until the response has been processed (overtake sub-check); a call whose body fails to serialize between other calls (failed-body); batches of up to 64 on the async clients; the WebSocket client with and without a notification subscriber",
   "Each of K concurrent calls must return the body that names its own path, batch results must be positional, injected notifies must reach only the subscriber (exactly once), and all ids on a connection must be distinct, for every generated reply order and injection pattern on Client, AsyncClient and WebSocketClient (async clients on a multi-thread runtime so reader and callers run in parallel).",
   "Thread/task interleavings are sampled by the OS scheduler, not enumerated; the model-checking clause of the quantifier is outside this technique.",
   "DESIGN.md §4 C04"),
 "C09": ("exploration",
   "property-based testing of the raw /_svs/open|next|cancel exchange against the producer's logical bytes (round trip, with zstd decode), boundary-residue payload lengths, injected producer failures",
   "For generated chunk sizes, payload lengths at every chunk-boundary residue, channel depths 0..8, both compression settings and all five producer kinds, the concatenated pulled chunks must equal the producer's bytes, exactly the final chunk carries the end marker, an empty uncompressed payload is one empty final chunk, next after end/cancel/unknown id errors, and an injected producer failure (an Err return or a panic) surfaces as an error with no end marker and only a prefix delivered.",
   "chunk_bytes >= 1; chunk sizing itself (local engine policy) not asserted. The puller-level sub-check (c09_net) runs the blocking, async and WebSocket pullers against the same producers over loopback.",
   "DESIGN.md §4 C09"),
 "C05": ("fault_enumeration",
   "generated fault/schedule scenarios (proptest) against scripted peers with tuned socket buffers; byte-exact stream-grammar oracle over the captured connection bytes",
   "For concurrent writers (2..32, payloads straddling 8191/8192/8193/65535/65536/1-3 MiB) on all three clients, for the blocking client's write timeout against a stalled peer, for async/WebSocket calls abandoned mid-send, and for Server/AsyncServer write timeouts against a stalled reader, the captured byte stream must be whole images of distinct issued frames followed by at most one proper prefix and nothing after it. On the WebSocket server (inline and off-reader responses, handler-pushed notifies and broadcasts from another thread, stalled peer, outbound capacities 1..1024) every message the peer receives must be exactly one frame and the byte image of one issued message. Also: small requests abandoned one after another on a full socket (AsyncClient), and other threads queued on the writer when the blocking client's write times out; the WebSocket-server scenario also with a lowered assumed peer limit (replacement replies must be whole frames) and the server-stall scenario also with handler-chosen response queries.",
   "Timing only selects which side of a race occurs; the oracle is timing-free. Payloads up to 12 MiB.",
   "DESIGN.md §4 C05"),
 "C06": ("fault_enumeration",
   "enumerated fault x step grid plus proptest-generated fault cases against scripted TCP/WebSocket peers; watchdog-bounded 'must return' obligations; timeout/cancel races with a verif-hooks residue probe",
   "For each client and each fault (close, RST, half-close, bad magic, length mismatch, truncated header, unallocatable length, partial response at 5 byte offsets then close/RST, WS text frame, WS protocol violation, WS Close frame with TCP kept open; optionally a peer that stays silent after the malformed frame) injected after j requests were read and a were answered with 0..16 calls in flight: every unanswered call and a later call must return Err within 10 s, the notify subscriber must see end-of-stream, and the pending map must be empty; timeout races (response at timeout +-5 ms, never answered, or task abort) must leave no residue and not disturb other calls, also through AsyncClient::forward_message_with_timeout, whose caller-chosen id must be reusable at once. A fault delivered while another send is parked on a peer that stopped reading (parked-send) must still fail the calls in flight and end the notification stream; after a blocking client's large write timed out part-way a later call without a timeout returns an error.",
   "Watchdog 10 s; either outcome accepted in a race; answered calls may fail after RST.",
   "DESIGN.md §4 C06"),
 "C07": ("exploration",
   "property-based differential testing: owned vs borrowed vs context dispatch, with vs without middleware, shuffled registration programs; independent RFC 6901 tokenizer and prefix predicate as oracle for mounts; coverage-guided libFuzzer twin of the mount check (c07_mounts) in thorough",
   "Every built-in handler kind x body-format code x body shape is dispatched through handle / handle_with_ctx / handle_view behind 0..3 forwarding middlewares registered at shuffled positions and must give the same normalised response and handler observations as the middleware-free router, with each middleware running exactly once; recording struct and registry mounts at generated roots must be reached iff the path equals the root or extends it at '/', an exactly registered path wins, and the struct sees exactly the independent tokenizer's reference tokens for depths 0..40 (incl. 15/16/17).",
   "Malformed escapes and trailing-slash roots are outside the quantifier; registry/struct mount overlap precedence is not asserted.",
   "DESIGN.md §4 C07"),
 "C08": ("exploration",
   "property-based testing generic over the element type: bulk-vs-serde byte identity, cross-decoding round trips on raw bit patterns, streaming-vs-buffered differential, exhaustive (type x query length x misalignment) grid through the borrowing route with pointer-provenance checks; coverage-guided libFuzzer+ASan twin of the same check (c08_slices) in thorough",
   "For 16 element types and slices built from raw generated bits, the bulk body must equal the serde body byte-for-byte (len>0), each decoder must read the other encoder's output bit-for-bit (every len incl. 0), the streaming writers must frame identically to the builders, the aligned form must yield the same bits through a with_typed_slice_ref route at every (query length 0..64, buffer misalignment 0..7) with aligned payloads borrowed and never a misaligned borrow, wrong element types/formats must be rejected (message-level decoders and both dispatch paths of both slice routes, including correct arrays under a wrong format label), and the streaming writers frame a BEVE body whatever body format the caller's header carried.",
   "u128/i128/half floats only on bulk-only clauses; borrowing observed via the address handed to the route closure.",
   "DESIGN.md §4 C08"),
 "C10": ("fault_enumeration",
   "generated failure matrix (proptest) against the library's producers and a harness-owned scripted SVS server, crash-point enumeration by killing a child process at every commit-path probe hit, and SIGKILL at generated times; filesystem state as oracle",
   "For ten pullers, six failure kinds (producer failure at chunk boundaries +-1, connection cut after every k-th response, rejecting verifier, over-long trailer, incompatible output), absent or pre-existing destinations and both compressions: a failure returns Err, leaves the destination byte-identical to its prior state and leaves no .svspart file; success publishes exactly the complete content (trailer stripped). A child process that runs the same pull and dies (_exit) at every probe hit before the rename leaves the destination unchanged, after it the complete content; SIGKILL at generated times leaves it unchanged or complete; after any interrupted pull a later successful pull of shorter content to the same destination publishes exactly that content. Producers also fail by panicking; digest writers may be slow.",
   "Crash points are the verif-hooks probes on the commit path plus unhooked SIGKILLs; power-loss durability of sync_all is not observable.",
   "DESIGN.md §4 C10"),
 "C11": ("exploration",
   "model-based testing: bounded-exhaustive operation sequences plus proptest random histories against a u128 reference model checked after every step; coverage-guided libFuzzer twin (c11_flow) in thorough",
   "All operation sequences up to the tier's length over a 15-operation small-scope alphabet (exhaustive) and random histories up to 200 ops over 64-bit values with hostile acks run against TransferControl; offsets(), cancel state and the credit predicate (probed in the promised direction) must match the model after every step; a documented-loop producer is simulated under hostile acks.",
   "Offsets <= 2^63 and chunk lengths <= 2^48 (property's bounds). Sequential probing only; blocking/wake-up behaviour is C12.",
   "DESIGN.md §4 C11"),
 "C12": ("exploration",
   "randomized real-thread schedule generation (proptest) with a schedule-independent final-state oracle and a watchdog",
   "At least 12 000 (quick) generated schedules of one waiter against 1-3 signaller threads, in parked-first (missing notify is deterministic) and racing start orders; if the final state satisfies the waiter's predicate it must have returned within a 10 s watchdog, else a harness cancel must release it; deadline cases must time out not earlier than the deadline, and not much later while another thread issues non-satisfying wake-ups (confirmed twice); a producer parked on a full window returns with credit when the receiver resumes at any boundary up to everything sent; a race hammer issues one satisfying signal at swept sub-microsecond skews around the waiter's entry (spin rendezvous, lock contention, 4 000 rounds per waiter/signal pair). Interleavings are sampled, not enumerated.",
   "Real OS scheduling; the lock-step model-checking clause of the quantifier is outside this technique (DESIGN.md §9).",
   "DESIGN.md §4 C12"),
 "C13": ("exploration",
   "model-based testing: bounded-exhaustive push/resume/advance/cancel sequences x capacities plus proptest random histories against a harness-kept chunk list; coverage-guided libFuzzer twin (c13_ring) in thorough",
   "After every step the retained ring must be a byte-identical contiguous suffix of everything pushed, bounded by capacity (or a single chunk); request_resume acceptance is predicted exactly; an accepted resume's tail starts at the offset and ends at the last byte pushed; peer installed; ResumeReady delivered exactly once; advance clears.",
   "Chunks pushed contiguously (documented producer contract). Eviction tightness not demanded.",
   "DESIGN.md §4 C13"),
 "C14": ("exploration",
   "model-based testing (serde_json tree + callable map with independent RFC 6901 resolution), small-scope exhaustive + proptest histories, direct-vs-mounted differential, Wing-Gong linearizability search for concurrent histories; coverage-guided libFuzzer twin of the sequential model check (c14_registry) in thorough",
   "Histories of registrations, merges, reads, writes and calls over escaped/empty/array/deep pointers run on two registries (direct dispatch and through Router::with_registry under generated prefixes, alternating owned and borrowed dispatch); outcome class, full tree and callable invocation log (exactly once, exact body) compared with the model after every op; concurrent 4x4 request histories must be linearizable including the final tree.",
   "Only documented registration shapes are generated; non-canonical array indices are treated as unspecified; acknowledgement contents not pinned.",
   "DESIGN.md §4 C14"),
 "C15": ("fault_enumeration",
   "enumerated exit-cause x phase x entry-point grid plus proptest-generated multi-connection cases (1..32 concurrent) against the WebSocket server, in-process over duplex streams and through the real accept loops; hook counters and registry lookups as oracle",
   "For every exit cause (clean close, abrupt loss, text frame, unmasked frame, bad magic, trailing bytes, inline handler panic, connect-callback panic first/second, embedder cancellation, graceful-drain shutdown, failed handshakes) crossed with the connection phase (idle, inline handler running, off-reader handler parked, unread outbound backlog) and the entry point: the disconnect callback runs exactly once (never for a failed handshake), the peer and its alias resolve from connect hooks, handlers and just before the trigger and no longer afterwards, the connect-queued notifies precede the first response in order, and parked off-reader handlers observe cancellation. An embedder cancellation must end the connection also while the reader is parked on a full outbound queue and the client keeps not reading; cancellation before or around the connect callbacks leaves connect and disconnect callbacks paired (each exactly once). A server without any disconnect callback or registry still cancels parked handlers; two servers feeding one registry keep distinct ids and each peer present until its own disconnect; a parked inline handler observes the embedder's cancellation; the peer stays resolvable while only the server's sending direction has failed (half-dead).",
   "10 s watchdog; cooperative parked handlers; embedder cancel via serve_connection_with_cancel.",
   "DESIGN.md §4 C15"),
 "C16": ("exploration",
   "generated saturation scenarios against the in-process WebSocket server with gate-controlled handlers; exhaustive release orders x exit kinds for caps 1..3, random caps up to 16 and unlimited; saturation observed through the handlers' own signals",
   "The in-handler gauge never exceeds the cap; a request at the cap is answered ResourceExhausted before any parked handler is released and its handler never runs; a notify at the cap never runs; inline requests are answered during saturation; every released handler's caller gets its own response (panic -> InternalError with its id); after all exits the full cap can be occupied again and one more request is refused again (the cap did not grow); the connection keeps answering; with and without a forwarding middleware; outbound queue capacities default, 1..3 and cap; middleware attached before or after the routes; a second connection to the same server keeps its own slots while the first is saturated.",
   "10 s watchdog for 'immediately'; a fresh request that overtakes the slot release may be told to retry (documented as retryable) and is retried.",
   "DESIGN.md §4 C16"),
 "C17": ("exploration",
   "size-targeted property-based generation (limit-2..limit+2, uniform, 2x) over seven outbound paths; byte-exact predicted frames as oracle; raw peer observes every message size",
   "For limits 1 KiB..1 MiB (16 MiB thorough) and none, on inline response, off-reader response, handler-pushed notify, registry broadcast, proxy-forwarded response, client request and client notify: no observed binary message exceeds the limit, deliverable messages arrive byte-identical, an oversized response becomes an InternalError response with the same id, an oversized notify is dropped and reported through on_error, an oversized client message fails locally with MessageTooLarge, and a follow-up request on the same connection succeeds; response paths also with queries that fill almost the whole frame budget, the proxy path also with oversized upstream error replies, and the server's own error reply to a long non-UTF-8 query.",
   "Limits >= 1 KiB (room for the error reply).",
   "DESIGN.md §4 C17"),
 "C18": ("exploration",
   "model-based testing: bounded-exhaustive sequences (3 peers x 3 keys) + proptest histories against a map model, Wing-Gong linearizability search for concurrent histories; coverage-guided libFuzzer twin of the sequential model check (c18_peers) in thorough",
   "After every step get/get_by/key_for/aliases_for/len/peers for every peer and key must equal the model; every broadcast must deliver exactly one notify (path, body, format) to each present peer and report one result per present peer, with refusing sinks; concurrent 4-thread histories plus a final full observation must be linearizable; the same broadcast clause through the WebSocket server's own peer sinks (every body-format tag as received by raw clients).",
   "insert only for absent ids (documented precondition). Interleavings sampled; each observed history decided exhaustively.",
   "DESIGN.md §4 C18"),
 "C19": ("fault_enumeration",
   "enumerated per-attempt outcome sequences (exhaustive in thorough, all sequences of length <=2 plus random in quick) against a scripted fake node switched from the verif-hooks attempt probe; attempt-history oracle",
   "For every generated sequence of per-attempt outcomes over the seven-outcome alphabet and max_attempts 1..3, on Fleet and AsyncFleet: attempts (counted by the probe, refused ones included) never exceed max_attempts, no attempt follows a reply, the call reports that reply (value or application error) or an error when none arrived, and once the node is healthy again a call succeeds by the second try at the latest; a retry within a call reaches the node whenever the node is up (it reconnects); broadcast addresses exactly the nodes carrying all requested tags (all 8 tag subsets x 4 assignments x listing orders, with repeats).",
   "Attempt counting and node switching rely on the verif-hooks probe at the start of each attempt; malformed-reply retry not asserted. A connection that went silent stays silent (hung) while new connections are answered. A failing case is re-run once with a 20x longer call timeout and reported only if it fails again (load-dependent late replies).",
   "DESIGN.md §4 C19"),
}

NOT_YET = "check not built yet in this revision (work in progress; see DESIGN.md §4 for the planned design)"

ALL = ["C%02d" % i for i in range(1, 20)]

def main():
    hooks_commits = []
    try:
        out = subprocess.run(["git", "-C", "/repo", "log", "--format=%h %s"], capture_output=True, text=True).stdout
        for line in out.splitlines():
            h, _, subj = line.partition(" ")
            if "verif-hooks" in subj or subj.startswith("verif-hooks:") or "verification instrumentation" in subj:
                hooks_commits.append(h)
    except Exception:
        pass
    checks = []
    for pid in ALL:
        if pid not in CHECKS:
            continue
        cat, tech, text, note, ref = CHECKS[pid]
        checks.append({
            "property_id": pid,
            "quick_cmd": f"./check {pid} quick",
            "thorough_cmd": f"./check {pid} thorough",
            "evidence_file": f"/verif/evidence/{pid}.json",
            "replay_cmd_template": f"./check {pid} replay {{path}}",
            "engine": "verif-harness",
            "level_claimed": {"category": cat, "text": text, "design_ref": ref},
            "level_note": note,
            "technique": tech,
        })
    manifest = {
        "version": 1,
        "setup_cmd": "cd /verif/harness && CARGO_NET_OFFLINE=true cargo build --offline --profile verif",
        "hooks": {
            "guard": "cargo feature `verif-hooks` of crate repe",
            "enable": "the harness crate depends on repe = { path = \"/repo\", features = [\"websocket\", \"value-stream\", \"verif-hooks\"] }; every ./check rebuilds it from /repo's working tree",
            "baseline_off_cmd": "cd /repo && cargo test --workspace --no-fail-fast --offline",
            "source_commits": hooks_commits,
            "add_only": True,
        },
        "engines": [
            {"name": "verif-harness", "path": "/verif/harness",
             "serves_properties": [c["property_id"] for c in checks],
             "kind_free_text": "Rust binary: proptest strategies with shrinking, bounded-exhaustive enumerations, scripted TCP/WebSocket peers, child-process isolation, evidence/replay writer"},
            {"name": "libfuzzer-targets", "path": "/verif/fuzz",
             "serves_properties": ["C01", "C02", "C07", "C08", "C11", "C13", "C14", "C18"],
             "kind_free_text": "cargo-fuzz (libFuzzer + ASan), one binary: byte-driven builders produce cases of the same types over the same domains as the proptest strategies and call the same check functions (semantic oracle inside the target); fuzz/run_campaign.sh is run by ./check <ID> thorough after the proptest tiers and folds its measured counts into the evidence file"},
        ],
        "checks": checks,
        "not_applicable": [{"property_id": p, "reason": NOT_YET} for p in ALL if p not in CHECKS],
        "notes": "All checks: exit 0 = held on everything explored, exit 1 + VIOLATION line = violation with replay file, exit 2 = inconclusive (build failure/harness timeout). VERIF_SEED selects the proptest seeds. known_findings.txt lists recorded/fixed genuine defects.",
    }
    with open(os.path.join(ROOT, "MANIFEST.json"), "w") as f:
        json.dump(manifest, f, indent=1)
        f.write("\n")

if __name__ == "__main__":
    main()
