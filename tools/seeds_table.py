#!/usr/bin/env python3
"""Regenerate the table at the end of DESIGN.md §14 from seeded/*/meta.json (+ verify.log)."""
import json, glob, re, os
ROOT = os.path.dirname(os.path.dirname(os.path.abspath(__file__)))
rows = []
def key(d):
    n = os.path.basename(d)
    return (n.split('-')[0], int(n.split('-')[1]))
for d in sorted(glob.glob(os.path.join(ROOT, 'seeded', 'C*-*')), key=key):
    name = os.path.basename(d)
    m = json.load(open(os.path.join(d, 'meta.json')))
    lr = m.get('last_run', '')
    if not lr and os.path.exists(os.path.join(d, 'verify.log')):
        log = open(os.path.join(d, 'verify.log')).read()
        subs = re.findall(r'== \./check (C\d+) quick rc=(\d+)\n(?:.*\n)*?.*sub_check=(\S+) signature=(\S+)', log)
        lr = '; '.join(f'{a} rc={b} sub_check={c} signature={e}' for a, b, c, e in subs) or str(m.get('check_quick_exit_codes'))
    caught = re.findall(r'(C\d+) rc=1 sub_check=(\S+) signature=([^;\s]+)', lr)
    summ = m['summary'].replace('\n', ' ').replace('|', '/')
    if len(summ) > 230:
        summ = summ[:227] + '…'
    c = '; '.join(f'{a} `{b}` → `{e}`' for a, b, e in caught) if caught else ('— ' + m['disposition'] if m.get('disposition') else 'NOT CAUGHT: ' + lr)
    rows.append(f'| {name} | {summ} | {c} |')
p = os.path.join(ROOT, 'DESIGN.md')
s = open(p).read()
head = '| Seed | Change (agent\'s summary) | Caught by (check `sub-check` → `signature`) |\n|------|--------------------------|---------------------------------------------|\n'
i = s.index(head)
s = s[:i] + head + '\n'.join(rows) + '\n'
open(p, 'w').write(s)
print(len(rows), 'rows;', sum('NOT CAUGHT' in r for r in rows), 'not caught')
