#![no_main]
// One libFuzzer binary for every coverage-guided target; VERIF_FUZZ_TARGET names the
// target (see harness/src/fuzz.rs and fuzz/run_campaign.sh). One binary keeps the
// ASan link step to a single executable.
use std::sync::OnceLock;
static TARGET: OnceLock<String> = OnceLock::new();
libfuzzer_sys::fuzz_target!(|data: &[u8]| {
    let t = TARGET.get_or_init(|| std::env::var("VERIF_FUZZ_TARGET").expect("VERIF_FUZZ_TARGET not set"));
    verif::fuzz::one(t, data)
});
