#![no_main]
// Coverage-guided twin of the proptest sub-check: see harness/src/fuzz.rs.
libfuzzer_sys::fuzz_target!(|data: &[u8]| verif::fuzz::one("c07_mounts", data));
