#!/bin/bash
# fuzz/run_campaign.sh <ID> [runs-per-worker]
# Coverage-guided campaign (cargo-fuzz / libFuzzer, ASan) over the fuzz targets that
# belong to property <ID>; called by `./check <ID> thorough` after the proptest tiers.
# Every target is the same generator + oracle as the proptest sub-check, driven by the
# fuzzer's bytes (harness/src/fuzz.rs). Exit 0 = nothing found, 1 = VIOLATION (line
# printed, replay file written), 2 = inconclusive (build failure, libFuzzer timeout/OOM).
# Fixed work: -runs=N per worker, VERIF_FUZZ_WORKERS workers per target, -seed=VERIF_SEED.
set -u
ROOT="$(cd "$(dirname "$0")/.." && pwd)"
ID="${1:?property id}"
SEED="${VERIF_SEED:-1}"; [ "$SEED" = 0 ] && SEED=1
WORKERS="${VERIF_FUZZ_WORKERS:-4}"
export CARGO_NET_OFFLINE=true VERIF_ROOT="$ROOT"
cd "$ROOT/fuzz" || exit 2

declare -A RUNS=(
  [c01_wire]=1000000
  [c02_bytes]=1000000
  [c07_mounts]=500000
  [c08_slices]=300000
  [c11_flow]=1000000 [c13_ring]=400000
  [c14_registry]=60000
  [c18_peers]=150000
)
low=$(echo "$ID" | tr 'A-Z' 'a-z')
targets=$(for t in "${!RUNS[@]}"; do echo "$t"; done | grep "^${low}_" | sort || true)
[ -n "$targets" ] || exit 0          # no coverage-guided twin for this property

LOGDIR="$ROOT/fuzz/target/campaign/$ID"
rm -rf "$LOGDIR"; mkdir -p "$LOGDIR"
if ! cargo +nightly fuzz build --fuzz-dir "$ROOT/fuzz" > "$LOGDIR/build.log" 2>&1; then
    tail -30 "$LOGDIR/build.log" >&2
    echo "INCONCLUSIVE property=$ID fuzz build failed" >&2
    exit 2
fi
BIN_DIR="$ROOT/fuzz/target/x86_64-unknown-linux-gnu/release"

# ASan must hand back NULL for a never-allocatable request (the readers are expected to
# turn that into an error), and libFuzzer's own single-allocation limit is lifted for
# the same reason; the resident-set limit stays.
export ASAN_OPTIONS="allocator_may_return_null=1:detect_leaks=0:abort_on_error=1:symbolize=1"
rc=0
for t in $targets; do
    n="${2:-${VERIF_FUZZ_RUNS:-${RUNS[$t]:-200000}}}"
    work="$ROOT/fuzz/corpus/$t"; art="$ROOT/fuzz/artifacts/$t/"
    rm -rf "$work"; mkdir -p "$work" "$art"
    # starting corpus: committed seeds + deterministic pseudo-random streams of several lengths
    [ -d "$ROOT/corpus/fuzz/$t" ] && cp "$ROOT/corpus/fuzz/$t"/* "$work/" 2>/dev/null
    python3 - "$work" "$SEED" "$t" <<'EOF'
import sys, random, os
d, seed, t = sys.argv[1], int(sys.argv[2]), sys.argv[3]
r = random.Random(f"{t}:{seed}")
for i, n in enumerate([16, 64, 64, 256, 256, 1024, 1024, 4096, 4096, 16384]):
    open(os.path.join(d, f"rand-{i:02d}"), "wb").write(bytes(r.getrandbits(8) for _ in range(n)))
EOF
    if [ "$t" = c01_wire ]; then
        i=0
        for f in /repo/interop/fixtures/*.repe /repo/tests/fixtures/*.repe; do
            [ -f "$f" ] || continue
            cp "$f" "$work/fx-$i"; i=$((i+1))
        done
    fi
    if [ "$t" = c02_bytes ]; then
        # real frames (Glaze interop fixtures and the regression corpus) behind each reader-mode byte
        i=0
        for f in /repo/interop/fixtures/*.repe /repo/tests/fixtures/*.repe; do
            [ -f "$f" ] || continue
            for m in 0 1 2 3; do printf "\\x0$m" > "$work/fx-$i-$m"; cat "$f" >> "$work/fx-$i-$m"; done
            i=$((i+1))
        done
    fi
    stats="$LOGDIR/$t.stats"
    pids=""
    for w in $(seq 0 $((WORKERS-1))); do
        ( cd "$LOGDIR" && VERIF_FUZZ_TARGET="$t" VERIF_FUZZ_STATS="$stats.%p.json" exec "$BIN_DIR/harness" "$work" \
            -artifact_prefix="$art" -runs="$n" -seed="$((SEED*1000+w))" -max_len=16384 -len_control=0 \
            -timeout=60 -rss_limit_mb=6144 -malloc_limit_mb=9000000000000 -print_final_stats=1 \
            > "$LOGDIR/$t.worker$w.log" 2>&1 ) &
        pids="$pids $!"
    done
    st=0
    for p in $pids; do wait "$p" || st=$?; done
    cat "$LOGDIR/$t".worker*.log > "$LOGDIR/$t.log" 2>/dev/null; rm -f "$LOGDIR/$t".worker*.log; : > "$LOGDIR/$t.out"
    grep -h "^VIOLATION property=" "$LOGDIR/$t.log" 2>/dev/null | sort -u > "$LOGDIR/$t.violations"
    if [ -s "$LOGDIR/$t.violations" ]; then
        cat "$LOGDIR/$t.violations"
        grep -h -m1 -A2 "^VIOLATION property=" "$LOGDIR/$t.log" | tail -n +2
        rc=1
    elif [ $st -ne 0 ]; then
        # a crash without an oracle failure: sanitizer report, abort inside repe, timeout or OOM
        crash=$(ls -t "$art"crash-* 2>/dev/null | head -1)
        if [ -n "$crash" ] && ! grep -q "ERROR: libFuzzer: \(timeout\|out-of-memory\)" "$LOGDIR/$t.log"; then
            mkdir -p "$ROOT/replays/$ID"
            rp="$ROOT/replays/$ID/fuzz-$t-$(basename "$crash" | cut -c7-22).json"
            python3 - "$crash" "$rp" "$ID" "$t" <<'EOF'
import sys, json
raw = open(sys.argv[1], "rb").read()
json.dump({"property": sys.argv[3], "sub_check": "fuzz:" + sys.argv[4], "signature": "fuzz-crash",
           "observed": "the fuzz target crashed without an oracle failure (sanitizer report or abort); see fuzz/target/campaign log",
           "seed": 0, "case": {"hex": raw.hex()}}, open(sys.argv[2], "w"), indent=1)
EOF
            echo "VIOLATION property=$ID replay=$rp"
            grep -m3 -h "ERROR: AddressSanitizer\|SUMMARY:\|panicked" "$LOGDIR/$t.log" | sed 's/^/  /'
            rc=1
        else
            echo "INCONCLUSIVE property=$ID fuzz target $t stopped abnormally (exit $st; timeout/OOM or no artifact); log: $LOGDIR/$t.log" >&2
            [ $rc -eq 0 ] && rc=2
        fi
    fi
done
# fold the campaign's counts into the evidence file written by the proptest tiers
python3 "$ROOT/fuzz/merge_stats.py" "$ROOT/evidence/$ID.json" "$LOGDIR" $targets
exit $rc
