#!/usr/bin/env python3
"""merge_stats.py <evidence.json> <logdir> <target>...  — fold the libFuzzer campaign's
measured counts (executions, generated cases, non-trivial cases, final coverage, corpus
size, sample cases) into the evidence file the proptest tiers wrote for this run."""
import glob, json, os, re, sys

ev_path, logdir, targets = sys.argv[1], sys.argv[2], sys.argv[3:]
try:
    ev = json.load(open(ev_path))
except Exception:
    sys.exit(0)
cov = ev.setdefault("coverage", {})
fz = {}
for t in targets:
    execs = cases = nontrivial = 0
    samples = []
    for p in glob.glob(os.path.join(logdir, f"{t}.stats.*.json")):
        try:
            s = json.load(open(p))
        except Exception:
            continue
        execs += s.get("execs", 0)
        cases += s.get("cases", 0)
        nontrivial += s.get("nontrivial", 0)
        samples += s.get("samples", [])[-2:]
    log = ""
    try:
        log = open(os.path.join(logdir, f"{t}.log"), errors="replace").read()
    except Exception:
        pass
    covs = [int(x) for x in re.findall(r"DONE\s+cov: (\d+)", log)]
    fts = [int(x) for x in re.findall(r"DONE\s+cov: \d+ ft: (\d+)", log)]
    corp = [int(x) for x in re.findall(r"DONE\s+cov: \d+ ft: \d+ corp: (\d+)", log)]
    lf_execs = sum(int(x) for x in re.findall(r"stat::number_of_executed_units:\s+(\d+)", log))
    fz[t] = {
        "libfuzzer_execs": lf_execs,
        "execs": execs,
        "cases_generated": cases,
        "nontrivial_not_deduplicated": nontrivial,
        "final_cov_edges_max": max(covs) if covs else None,
        "final_features_max": max(fts) if fts else None,
        "final_corpus_max": max(corp) if corp else None,
        "samples": samples[:6],
    }
    cov["evaluations"] = int(cov.get("evaluations", 0)) + cases
cov["fuzz"] = fz
note = ("; plus a libFuzzer (ASan) campaign over the same generator and oracle driven by the fuzzer's bytes "
        "(coverage.fuzz: executions, generated cases, final edge coverage; its cases are added to evaluations, "
        "its non-trivial count is reported separately because it is not de-duplicated)")
if "rule" in cov and note not in cov["rule"]:
    cov["rule"] += note
json.dump(ev, open(ev_path, "w"), indent=1)
