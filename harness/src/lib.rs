#![allow(dead_code)]
//! Library half of the `verif` harness: engine, oracles, scripted peers, the
//! property checks, and the byte-driven entry points used by the fuzz targets.

pub mod engine;
pub mod fuzz;
pub mod gens;
pub mod oracle;
pub mod peers;
pub mod props;
pub mod util;
