#![allow(dead_code)]
//! `verif` — property-based testing / fuzzing harness for repe-rs.
//!
//!   verif run <ID> quick|thorough [--only sub1,sub2]
//!   verif replay <ID> <path>
//!   verif child <ID> <sub>          (internal: child-process case runner)
//!   verif list

use verif::engine::{self, Ctx, Report, Tier};
use verif::props;

fn usage() -> ! {
    eprintln!("usage: verif run <ID> quick|thorough [--only subs] | replay <ID> <path> | list");
    std::process::exit(2);
}

fn main() {
    // fix this process tree's loopback address before any thread exists
    let _ = verif::util::lo();
    let args: Vec<String> = std::env::args().collect();
    if args.len() < 2 {
        usage();
    }
    let defs = props::all();
    match args[1].as_str() {
        "list" => {
            for d in &defs {
                println!("{}", d.id);
            }
        }
        "run" => {
            if args.len() < 4 {
                usage();
            }
            let Some(def) = defs.iter().find(|d| d.id == args[2]) else {
                eprintln!("unknown property {}", args[2]);
                std::process::exit(2);
            };
            let tier = match args[3].as_str() {
                "quick" => Tier::Quick,
                "thorough" => Tier::Thorough,
                _ => usage(),
            };
            let mut only = None;
            let mut i = 4;
            while i < args.len() {
                if args[i] == "--only" && i + 1 < args.len() {
                    only = Some(args[i + 1].clone());
                    i += 1;
                }
                i += 1;
            }
            let seed = std::env::var("VERIF_SEED")
                .ok()
                .and_then(|s| s.trim().parse::<i64>().ok())
                .map(|s| s as u64)
                .unwrap_or(1);
            let threads = std::env::var("VERIF_THREADS")
                .ok()
                .and_then(|s| s.parse().ok())
                .unwrap_or_else(|| {
                    std::thread::available_parallelism()
                        .map(|n| n.get())
                        .unwrap_or(4)
                });
            engine::quiet_panics();
            if std::env::var_os("VERIF_KEEP_REPE_LOG").is_none() {
                engine::filter_repe_stderr();
            }
            let ctx = Ctx {
                prop: def.id,
                tier,
                seed,
                threads,
                only,
            };
            let mut rep = Report::new(def.id, def.level, def.rule);
            for a in def.assumptions {
                rep.assume(a);
            }
            let rep = std::sync::Arc::new(rep);
            // Harness-level safety net: a run that exceeds its budget is reported as
            // inconclusive (exit 2), never as a violation.
            let budget = std::env::var("VERIF_HARNESS_TIMEOUT_S")
                .ok()
                .and_then(|s| s.parse::<u64>().ok())
                .unwrap_or(match tier {
                    Tier::Quick => 900,
                    Tier::Thorough => 6 * 3600,
                });
            {
                let rep = rep.clone();
                std::thread::spawn(move || {
                    std::thread::sleep(std::time::Duration::from_secs(budget));
                    rep.mark_inconclusive(format!("harness time budget of {budget} s exceeded"));
                    for line in engine::running::long_running(20) {
                        engine::diag(&format!("  still {line}"));
                    }
                    let code = rep.finish(tier, seed as i64 as u64);
                    std::process::exit(if code == 1 { 1 } else { 2 });
                });
            }
            (def.run)(&ctx, &rep);
            let code = rep.finish(tier, seed as i64 as u64);
            std::process::exit(code);
        }
        "replay" => {
            if args.len() < 4 {
                usage();
            }
            let Some(def) = defs.iter().find(|d| d.id == args[2]) else {
                eprintln!("unknown property {}", args[2]);
                std::process::exit(2);
            };
            let text = match std::fs::read_to_string(&args[3]) {
                Ok(t) => t,
                Err(e) => {
                    eprintln!("cannot read {}: {e}", args[3]);
                    std::process::exit(2);
                }
            };
            let doc: serde_json::Value = match serde_json::from_str(&text) {
                Ok(d) => d,
                Err(e) => {
                    eprintln!("bad replay file: {e}");
                    std::process::exit(2);
                }
            };
            let sub = doc["sub_check"].as_str().unwrap_or("");
            engine::quiet_panics();
            // Schedule-dependent cases may need several runs; report how many reproduce.
            let runs: usize = std::env::var("VERIF_REPLAY_RUNS")
                .ok()
                .and_then(|s| s.parse().ok())
                .unwrap_or(1);
            let mut failed = 0;
            let mut last = None;
            for _ in 0..runs {
                let res = match sub.strip_prefix("fuzz:") {
                    Some(target) => {
                        let hex = doc["case"]["hex"].as_str().unwrap_or("");
                        let raw: Vec<u8> = (0..hex.len() / 2).filter_map(|i| u8::from_str_radix(&hex[2 * i..2 * i + 2], 16).ok()).collect();
                        verif::fuzz::replay_raw(target, &raw)
                    }
                    None => (def.replay)(sub, &doc["case"]),
                };
                if let Err(f) = res {
                    failed += 1;
                    last = Some(f);
                }
            }
            if let Some(f) = &last
                && f.sig.starts_with("harness-")
            {
                eprintln!("INCONCLUSIVE property={} {}: {}", def.id, f.sig, f.msg);
                std::process::exit(2);
            }
            if let Some(f) = last {
                println!("VIOLATION property={} replay={}", def.id, args[3]);
                println!("  reproduced {failed}/{runs}: signature={} {}", f.sig, f.msg);
                std::process::exit(1);
            }
            println!("replay passed ({runs} run(s)): property={} sub_check={sub}", def.id);
        }
        "child" => {
            if args.len() < 4 {
                usage();
            }
            let Some(def) = defs.iter().find(|d| d.id == args[2]) else {
                std::process::exit(2);
            };
            let code = match def.child {
                Some(f) => f(&args[3]),
                None => 2,
            };
            std::process::exit(code);
        }
        _ => usage(),
    }
}
