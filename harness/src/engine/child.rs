//! Child-process isolation: cases that may abort the process (or must be
//! killed) run in a re-exec'd child speaking a line protocol, so the parent
//! knows which case killed it and continues with the rest.

use super::{CaseInfo, CheckResult, Ctx, Fail, Report, guarded, hash_of};
use serde::Serialize;
use serde::de::DeserializeOwned;
use serde_json::{Value, json};
use std::fmt::Debug;
use std::hash::Hash;
use std::io::{BufRead, BufReader, Write};
use std::os::unix::process::ExitStatusExt;
use std::process::{Command, Stdio};

/// Child side: read JSON cases from stdin, run `check` on each, report on stdout.
pub fn child_loop<C: DeserializeOwned + std::fmt::Debug>(check: &(dyn Fn(&C) -> CheckResult + Sync)) -> i32 {
    super::quiet_panics();
    let stdin = std::io::stdin();
    let stdout = std::io::stdout();
    for (i, line) in stdin.lock().lines().enumerate() {
        let Ok(line) = line else { break };
        if line.trim().is_empty() {
            continue;
        }
        {
            let mut o = stdout.lock();
            let _ = writeln!(o, "BEGIN {i}");
            let _ = o.flush();
        }
        let res = match serde_json::from_str::<C>(&line) {
            Ok(c) => guarded(check, &c),
            Err(e) => Err(Fail::new("child-decode", format!("{e}"))),
        };
        let doc = match res {
            Ok(info) => json!({"ok": true, "nontrivial": info.nontrivial, "classes": info.classes}),
            Err(f) => json!({"ok": false, "sig": f.sig, "msg": f.msg}),
        };
        let mut o = stdout.lock();
        let _ = writeln!(o, "END {i} {doc}");
        let _ = o.flush();
    }
    0
}

fn describe_exit(st: std::process::ExitStatus) -> String {
    if let Some(sig) = st.signal() {
        let name = match sig {
            6 => "SIGABRT",
            9 => "SIGKILL",
            11 => "SIGSEGV",
            7 => "SIGBUS",
            4 => "SIGILL",
            _ => "signal",
        };
        format!("{name}({sig})")
    } else {
        format!("exit({})", st.code().unwrap_or(-1))
    }
}

/// Parent side: run `cases` in `nprocs` children of `verif child <prop> <sub>`.
pub fn run_in_children<C>(
    ctx: &Ctx,
    rep: &Report,
    sub: &str,
    cases: &[C],
    nprocs: usize,
    exhaustive: bool,
) where
    C: Debug + Clone + Serialize + Hash + Send + Sync,
{
    if !ctx.want(sub) || cases.is_empty() {
        return;
    }
    let nprocs = nprocs.max(1).min(cases.len());
    let exe = std::env::current_exe().expect("current_exe");
    std::thread::scope(|scope| {
        for w in 0..nprocs {
            let exe = exe.clone();
            scope.spawn(move || {
                let mut idx: Vec<usize> = (w..cases.len()).step_by(nprocs).collect();
                while !idx.is_empty() {
                    let mut child = match Command::new(&exe)
                        .arg("child")
                        .arg(ctx.prop)
                        .arg(sub)
                        .stdin(Stdio::piped())
                        .stdout(Stdio::piped())
                        .stderr(Stdio::null())
                        .spawn()
                    {
                        Ok(c) => c,
                        Err(e) => {
                            rep.mark_inconclusive(format!("cannot spawn child: {e}"));
                            return;
                        }
                    };
                    let mut stdin = child.stdin.take().unwrap();
                    let lines: Vec<String> = idx
                        .iter()
                        .map(|&i| serde_json::to_string(&cases[i]).unwrap())
                        .collect();
                    let feeder = std::thread::spawn(move || {
                        for l in lines {
                            if writeln!(stdin, "{l}").is_err() {
                                break;
                            }
                        }
                    });
                    let out = BufReader::new(child.stdout.take().unwrap());
                    let mut begun: Option<usize> = None;
                    let mut done = 0usize;
                    for line in out.lines() {
                        let Ok(line) = line else { break };
                        if let Some(r) = line.strip_prefix("BEGIN ") {
                            begun = r.trim().parse().ok();
                        } else if let Some(r) = line.strip_prefix("END ") {
                            let (n, doc) = r.split_once(' ').unwrap_or((r, "{}"));
                            let n: usize = n.parse().unwrap_or(usize::MAX);
                            if n >= idx.len() {
                                continue;
                            }
                            let case = &cases[idx[n]];
                            let v: Value = serde_json::from_str(doc).unwrap_or(Value::Null);
                            if v["ok"].as_bool() == Some(true) {
                                let info = CaseInfo {
                                    nontrivial: v["nontrivial"].as_bool().unwrap_or(false),
                                    classes: v["classes"]
                                        .as_array()
                                        .map(|a| {
                                            a.iter()
                                                .filter_map(|x| x.as_str().map(String::from))
                                                .collect()
                                        })
                                        .unwrap_or_default(),
                                };
                                rep.record(sub, hash_of(case), &info, || {
                                    serde_json::to_value(case).unwrap_or(Value::Null)
                                });
                            } else {
                                let f = Fail::new(
                                    v["sig"].as_str().unwrap_or("child-fail"),
                                    v["msg"].as_str().unwrap_or(""),
                                );
                                rep.fail(
                                    sub,
                                    &serde_json::to_value(case).unwrap_or(Value::Null),
                                    &f,
                                    ctx.seed,
                                );
                            }
                            done = n + 1;
                            begun = None;
                        }
                    }
                    let status = child.wait();
                    let _ = feeder.join();
                    if done >= idx.len() {
                        break;
                    }
                    // The child died before finishing: attribute to the begun case.
                    let culprit = begun.unwrap_or(done);
                    let how = status
                        .map(describe_exit)
                        .unwrap_or_else(|e| format!("wait failed: {e}"));
                    if culprit < idx.len() {
                        let case = &cases[idx[culprit]];
                        let f = Fail::new(
                            "process-died",
                            format!("the process died ({how}) while handling this case"),
                        );
                        rep.fail(
                            sub,
                            &serde_json::to_value(case).unwrap_or(Value::Null),
                            &f,
                            ctx.seed,
                        );
                    }
                    idx = idx.split_off((culprit + 1).min(idx.len()));
                }
            });
        }
    });
    rep.set_exhaustive(sub, exhaustive);
}
