//! Dispatch of the library's `verif-hooks` probe points to per-thread handlers.
//! The library has one process-global callback; checks run on many threads, so
//! the callback looks the handler up in a thread-local slot (probe points run on
//! the calling thread for the synchronous code paths the checks use them with).

use std::cell::RefCell;
use std::sync::{Arc, Once};

type Handler = Box<dyn FnMut(&'static str)>;

thread_local! {
    static LOCAL: RefCell<Option<Handler>> = const { RefCell::new(None) };
}

static INSTALL: Once = Once::new();

pub fn install() {
    INSTALL.call_once(|| {
        repe::verif::set_probe(Some(Arc::new(|point: &'static str| {
            LOCAL.with(|slot| {
                if let Ok(mut g) = slot.try_borrow_mut()
                    && let Some(f) = g.as_mut()
                {
                    f(point);
                }
            });
        })));
    });
}

/// Run `body` with `handler` receiving this thread's probe hits.
pub fn with_handler<R>(handler: Handler, body: impl FnOnce() -> R) -> R {
    install();
    LOCAL.with(|slot| *slot.borrow_mut() = Some(handler));
    let r = body();
    LOCAL.with(|slot| *slot.borrow_mut() = None);
    r
}
