//! Dispatch of the library's `verif-hooks` probe points to per-thread handlers.
//! The library has one process-global callback; checks run on many threads, so
//! the callback looks the handler up in a thread-local slot (probe points run on
//! the calling thread for the synchronous code paths the checks use them with).

use std::cell::RefCell;
use std::sync::{Arc, Mutex, Once};

type Handler = Box<dyn FnMut(&'static str)>;

thread_local! {
    static LOCAL: RefCell<Option<Handler>> = const { RefCell::new(None) };
}

static INSTALL: Once = Once::new();

type GlobalHandler = Arc<dyn Fn(&'static str) + Send + Sync>;
/// Handler for probe points hit on threads that have no thread-local handler
/// (runtime workers of the async clients). One user at a time (`GLOBAL_GATE`).
static GLOBAL: Mutex<Option<GlobalHandler>> = Mutex::new(None);
static GLOBAL_GATE: Mutex<()> = Mutex::new(());

pub fn install() {
    INSTALL.call_once(|| {
        repe::verif::set_probe(Some(Arc::new(|point: &'static str| {
            let handled = LOCAL.with(|slot| {
                if let Ok(mut g) = slot.try_borrow_mut()
                    && let Some(f) = g.as_mut()
                {
                    f(point);
                    return true;
                }
                false
            });
            if !handled {
                let g = GLOBAL.lock().unwrap_or_else(|e| e.into_inner()).clone();
                if let Some(f) = g {
                    f(point);
                }
            }
        })));
    });
}

/// Run `body` with `handler` receiving this thread's probe hits.
pub fn with_handler<R>(handler: Handler, body: impl FnOnce() -> R) -> R {
    install();
    LOCAL.with(|slot| *slot.borrow_mut() = Some(handler));
    let r = body();
    LOCAL.with(|slot| *slot.borrow_mut() = None);
    r
}

/// Run `body` with `handler` receiving the probe hits of every thread that has no
/// thread-local handler. Serialised: a second caller waits for the first.
pub fn with_global_handler<R>(handler: GlobalHandler, body: impl FnOnce() -> R) -> R {
    let _gate = GLOBAL_GATE.lock().unwrap_or_else(|e| e.into_inner());
    install();
    *GLOBAL.lock().unwrap_or_else(|e| e.into_inner()) = Some(handler);
    let r = body();
    *GLOBAL.lock().unwrap_or_else(|e| e.into_inner()) = None;
    r
}
