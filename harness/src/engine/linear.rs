//! Wing–Gong linearizability search over a concurrent history.
//!
//! A history is a set of completed operations with invocation / response
//! stamps drawn from one global counter and the observed result. The search
//! looks for a sequential order, consistent with real time (an operation that
//! responded before another was invoked must come first), that the sequential
//! model reproduces result-for-result.

use std::collections::HashSet;
use std::hash::Hash;

#[derive(Clone, Debug)]
pub struct Event<O, R> {
    pub thread: usize,
    pub op: O,
    pub result: R,
    pub invoked: u64,
    pub responded: u64,
}

pub trait SeqModel: Clone + Hash + Eq {
    type Op;
    type Res: PartialEq;
    fn apply(&mut self, op: &Self::Op) -> Self::Res;
}

/// Returns a witness order (indices into `events`) or `None` if no
/// linearization exists.
pub fn linearize<M>(init: &M, events: &[Event<M::Op, M::Res>]) -> Option<Vec<usize>>
where
    M: SeqModel,
{
    let n = events.len();
    assert!(n <= 64, "history too long for the bitset search");
    let mut seen: HashSet<(u64, M)> = HashSet::new();
    let mut order = Vec::with_capacity(n);
    if search(init.clone(), 0, events, &mut seen, &mut order) {
        Some(order)
    } else {
        None
    }
}

fn search<M>(
    model: M,
    done: u64,
    events: &[Event<M::Op, M::Res>],
    seen: &mut HashSet<(u64, M)>,
    order: &mut Vec<usize>,
) -> bool
where
    M: SeqModel,
{
    let n = events.len();
    if done.count_ones() as usize == n {
        return true;
    }
    if !seen.insert((done, model.clone())) {
        return false;
    }
    // The earliest response among the remaining operations bounds which may go next.
    let min_resp = (0..n)
        .filter(|i| done & (1 << i) == 0)
        .map(|i| events[i].responded)
        .min()
        .unwrap();
    for i in 0..n {
        if done & (1 << i) != 0 {
            continue;
        }
        // `i` may be linearized next only if no remaining op responded before it was invoked.
        if events[i].invoked > min_resp {
            continue;
        }
        let mut m = model.clone();
        let r = m.apply(&events[i].op);
        if r == events[i].result {
            order.push(i);
            if search(m, done | (1 << i), events, seen, order) {
                return true;
            }
            order.pop();
        }
    }
    false
}
