//! Engine: tiers, seeds, evidence accounting, replay files, known findings,
//! proptest and exhaustive drivers.

use proptest::strategy::{BoxedStrategy, Strategy, ValueTree};
use proptest::test_runner::{Config, RngSeed, TestCaseError, TestError, TestRunner};
use serde::Serialize;
use serde::de::DeserializeOwned;
use serde_json::{Value, json};
use std::collections::hash_map::DefaultHasher;
use std::collections::{BTreeMap, HashSet};
use std::fmt::Debug;
use std::hash::{Hash, Hasher};
use std::panic::{AssertUnwindSafe, catch_unwind};
use std::path::PathBuf;
use std::sync::Mutex;
use std::sync::atomic::{AtomicBool, AtomicU64, Ordering};
use std::time::Instant;

pub mod child;
pub mod linear;
pub mod probe;

#[derive(Clone, Copy, Debug, PartialEq, Eq)]
pub enum Tier {
    Quick,
    Thorough,
}

impl Tier {
    pub fn name(self) -> &'static str {
        match self {
            Tier::Quick => "quick",
            Tier::Thorough => "thorough",
        }
    }
    /// Pick a work amount by tier.
    pub fn pick<T>(self, quick: T, thorough: T) -> T {
        match self {
            Tier::Quick => quick,
            Tier::Thorough => thorough,
        }
    }
}

pub fn verif_root() -> PathBuf {
    std::env::var_os("VERIF_ROOT")
        .map(PathBuf::from)
        .unwrap_or_else(|| PathBuf::from("/verif"))
}

/// What a check reports about one passing case.
#[derive(Clone, Debug, Default)]
pub struct CaseInfo {
    pub nontrivial: bool,
    /// Generator-distribution labels (each counted in the `classes` histogram).
    pub classes: Vec<String>,
}

impl CaseInfo {
    pub fn new(nontrivial: bool) -> Self {
        Self {
            nontrivial,
            classes: Vec::new(),
        }
    }
    pub fn class(mut self, c: impl Into<String>) -> Self {
        self.classes.push(c.into());
        self
    }
}

/// A property violation observed on one case.
#[derive(Clone, Debug)]
pub struct Fail {
    /// Stable signature: what failed, independent of incidental values. Used to
    /// match `known:` entries of known_findings.txt.
    pub sig: String,
    /// Human-readable detail (observed vs expected).
    pub msg: String,
}

impl Fail {
    pub fn new(sig: impl Into<String>, msg: impl Into<String>) -> Self {
        Self {
            sig: sig.into(),
            msg: msg.into(),
        }
    }
}

#[macro_export]
macro_rules! ensure {
    ($cond:expr, $sig:expr, $($fmt:tt)+) => {
        if !($cond) {
            return Err($crate::engine::Fail::new($sig, format!($($fmt)+)));
        }
    };
}

pub type CheckResult = Result<CaseInfo, Fail>;

#[derive(Clone, Debug)]
pub struct KnownFinding {
    pub property: String,
    pub sig: String,
    pub text: String,
}

pub fn load_known_findings() -> Vec<KnownFinding> {
    let path = verif_root().join("known_findings.txt");
    let Ok(text) = std::fs::read_to_string(path) else {
        return Vec::new();
    };
    let mut out = Vec::new();
    for line in text.lines() {
        let line = line.trim();
        // Only `known:` entries suppress; `fixed:` entries suppress nothing.
        let Some(rest) = line.strip_prefix("known:") else {
            continue;
        };
        let mut property = String::new();
        let mut sig = String::new();
        let mut words = Vec::new();
        for w in rest.split_whitespace() {
            if let Some(p) = w.strip_prefix("property=") {
                property = p.to_string();
            } else if let Some(s) = w.strip_prefix("sig=") {
                sig = s.to_string();
            } else {
                words.push(w);
            }
        }
        if !property.is_empty() && !sig.is_empty() {
            out.push(KnownFinding {
                property,
                sig,
                text: words.join(" "),
            });
        }
    }
    out
}

pub struct Ctx {
    pub prop: &'static str,
    pub tier: Tier,
    pub seed: u64,
    pub threads: usize,
    /// Optional sub-check filter (CLI `--only`).
    pub only: Option<String>,
}

impl Ctx {
    pub fn want(&self, sub: &str) -> bool {
        match &self.only {
            None => true,
            Some(f) => f.split(',').any(|x| x == sub),
        }
    }
    pub fn sub_seed(&self, sub: &str, worker: u64) -> u64 {
        let mut h = DefaultHasher::new();
        sub.hash(&mut h);
        self.seed
            .wrapping_mul(0x9E37_79B9_7F4A_7C15)
            .wrapping_add(h.finish())
            .wrapping_add(worker.wrapping_mul(0xD1B5_4A32_D192_ED03))
    }
}

#[derive(Default)]
struct ReportInner {
    nontrivial: HashSet<u64>,
    classes: BTreeMap<String, u64>,
    samples: Vec<Value>,
    samples_per_sub: BTreeMap<String, usize>,
    sub_evals: BTreeMap<String, u64>,
    exhaustive_subs: BTreeMap<String, bool>,
    violations: Vec<(String, String)>,
    known_seen: BTreeMap<String, u64>,
    extra: BTreeMap<String, Value>,
    notes: Vec<String>,
}

pub struct Report {
    pub prop: &'static str,
    pub level: &'static str,
    pub rule: String,
    pub assumptions: Vec<String>,
    evaluations: AtomicU64,
    excluded_known: AtomicU64,
    /// Non-trivial cases counted by enumerating drivers whose cases are
    /// distinct by construction (enumeration index), not via the hash set.
    nontrivial_counted: AtomicU64,
    inconclusive: AtomicBool,
    inner: Mutex<ReportInner>,
    known: Vec<KnownFinding>,
    start: Instant,
}

const SAMPLES_PER_SUB: usize = 3;

impl Report {
    pub fn new(prop: &'static str, level: &'static str, rule: &str) -> Self {
        let known = load_known_findings()
            .into_iter()
            .filter(|k| k.property == prop)
            .collect();
        Self {
            prop,
            level,
            rule: rule.to_string(),
            assumptions: Vec::new(),
            evaluations: AtomicU64::new(0),
            excluded_known: AtomicU64::new(0),
            nontrivial_counted: AtomicU64::new(0),
            inconclusive: AtomicBool::new(false),
            inner: Mutex::new(ReportInner::default()),
            known,
            start: Instant::now(),
        }
    }

    pub fn assume(&mut self, s: &str) {
        self.assumptions.push(s.to_string());
    }

    fn lock(&self) -> std::sync::MutexGuard<'_, ReportInner> {
        match self.inner.lock() {
            Ok(g) => g,
            Err(p) => p.into_inner(),
        }
    }

    pub fn is_known(&self, sig: &str) -> bool {
        self.known.iter().any(|k| k.sig == sig)
    }

    /// Record a passing case.
    pub fn record(&self, sub: &str, key: u64, info: &CaseInfo, sample: impl FnOnce() -> Value) {
        self.evaluations.fetch_add(1, Ordering::Relaxed);
        let mut g = self.lock();
        *g.sub_evals.entry(sub.to_string()).or_insert(0) += 1;
        for c in &info.classes {
            *g.classes.entry(format!("{sub}:{c}")).or_insert(0) += 1;
        }
        if info.nontrivial {
            let mut h = DefaultHasher::new();
            sub.hash(&mut h);
            key.hash(&mut h);
            let fresh = g.nontrivial.insert(h.finish());
            if fresh {
                let n = g.samples_per_sub.entry(sub.to_string()).or_insert(0);
                if *n < SAMPLES_PER_SUB {
                    *n += 1;
                    let s = sample();
                    g.samples.push(json!({"sub_check": sub, "case": s}));
                }
            }
        }
    }

    /// Bulk accounting for drivers that count their own cases (exhaustive loops).
    pub fn add_evaluations(&self, sub: &str, n: u64) {
        self.evaluations.fetch_add(n, Ordering::Relaxed);
        let mut g = self.lock();
        *g.sub_evals.entry(sub.to_string()).or_insert(0) += n;
    }
    pub fn add_nontrivial_keys(&self, sub: &str, keys: impl IntoIterator<Item = u64>) {
        let mut g = self.lock();
        for key in keys {
            let mut h = DefaultHasher::new();
            sub.hash(&mut h);
            key.hash(&mut h);
            g.nontrivial.insert(h.finish());
        }
    }
    /// Count `n` non-trivial cases that are distinct by construction.
    pub fn add_nontrivial_count(&self, n: u64) {
        self.nontrivial_counted.fetch_add(n, Ordering::Relaxed);
    }
    pub fn add_class(&self, sub: &str, class: &str, n: u64) {
        let mut g = self.lock();
        *g.classes.entry(format!("{sub}:{class}")).or_insert(0) += n;
    }
    pub fn add_sample(&self, sub: &str, sample: Value) {
        let mut g = self.lock();
        let n = g.samples_per_sub.entry(sub.to_string()).or_insert(0);
        if *n < SAMPLES_PER_SUB {
            *n += 1;
            g.samples.push(json!({"sub_check": sub, "case": sample}));
        }
    }
    pub fn set_exhaustive(&self, sub: &str, v: bool) {
        self.lock().exhaustive_subs.insert(sub.to_string(), v);
    }
    pub fn set_extra(&self, key: &str, v: Value) {
        self.lock().extra.insert(key.to_string(), v);
    }
    pub fn note(&self, s: impl Into<String>) {
        self.lock().notes.push(s.into());
    }
    pub fn mark_inconclusive(&self, why: impl Into<String>) {
        self.inconclusive.store(true, Ordering::SeqCst);
        let why = why.into();
        diag(&format!("INCONCLUSIVE property={} {}", self.prop, why));
        self.lock().notes.push(format!("inconclusive: {why}"));
    }

    /// Handle a failure: either a listed known finding (counted, announced once)
    /// or a violation (replay file written, VIOLATION line printed).
    /// Returns true if it was a known finding.
    pub fn fail(&self, sub: &str, case: &Value, fail: &Fail, seed: u64) -> bool {
        // A failure of the harness's own plumbing (cannot listen, cannot connect, a
        // watchdog on the harness side) says nothing about the property: inconclusive.
        if fail.sig.starts_with("harness-") {
            self.mark_inconclusive(format!("{sub}: {}: {}", fail.sig, fail.msg));
            return false;
        }
        if self.is_known(&fail.sig) {
            self.excluded_known.fetch_add(1, Ordering::Relaxed);
            let mut g = self.lock();
            let n = g.known_seen.entry(fail.sig.clone()).or_insert(0);
            *n += 1;
            if *n == 1 {
                println!(
                    "KNOWN-FINDING: property={} {} ({})",
                    self.prop, fail.sig, fail.msg
                );
            }
            return true;
        }
        let mut g = self.lock();
        // the failing case is itself a case this run explored
        g.samples.push(json!({"sub_check": sub, "case": case, "outcome": format!("violation: {}", fail.sig)}));
        // One replay file per distinct signature per run.
        if g.violations.iter().any(|(s, _)| s == &fail.sig) {
            return false;
        }
        let mut h = DefaultHasher::new();
        self.prop.hash(&mut h);
        sub.hash(&mut h);
        fail.sig.hash(&mut h);
        case.to_string().hash(&mut h);
        let dir = verif_root().join("replays").join(self.prop);
        let _ = std::fs::create_dir_all(&dir);
        let path = dir.join(format!("{:016x}.json", h.finish()));
        let doc = json!({
            "property": self.prop,
            "sub_check": sub,
            "signature": fail.sig,
            "observed": fail.msg,
            "seed": seed,
            "case": case,
        });
        let _ = std::fs::write(&path, serde_json::to_string_pretty(&doc).unwrap());
        println!(
            "VIOLATION property={} replay={}",
            self.prop,
            path.display()
        );
        println!("  sub_check={sub} signature={}", fail.sig);
        println!("  {}", fail.msg);
        g.violations
            .push((fail.sig.clone(), path.display().to_string()));
        false
    }

    pub fn violations(&self) -> usize {
        self.lock().violations.len()
    }

    pub fn evaluations(&self) -> u64 {
        self.evaluations.load(Ordering::Relaxed)
    }

    /// Write evidence/<ID>.json and return the process exit code.
    pub fn finish(&self, tier: Tier, seed: u64) -> i32 {
        let g = self.lock();
        let wall = self.start.elapsed().as_secs_f64();
        let exhaustive_all = !g.exhaustive_subs.is_empty()
            && g.exhaustive_subs.values().all(|v| *v)
            && g.exhaustive_subs.len() == g.sub_evals.len();
        let mut coverage = serde_json::Map::new();
        coverage.insert("evaluations".into(), json!(self.evaluations()));
        let distinct = g.nontrivial.len() as u64 + self.nontrivial_counted.load(Ordering::Relaxed);
        coverage.insert("distinct_nontrivial".into(), json!(distinct));
        coverage.insert("rule".into(), json!(self.rule));
        coverage.insert("samples".into(), json!(g.samples));
        coverage.insert("classes".into(), json!(g.classes));
        coverage.insert("evaluations_by_sub_check".into(), json!(g.sub_evals));
        coverage.insert(
            "excluded_known".into(),
            json!(self.excluded_known.load(Ordering::Relaxed)),
        );
        coverage.insert("known_findings_seen".into(), json!(g.known_seen));
        coverage.insert("exhaustive".into(), json!(exhaustive_all));
        coverage.insert(
            "exhaustive_sub_checks".into(),
            json!(
                g.exhaustive_subs
                    .iter()
                    .filter(|(_, v)| **v)
                    .map(|(k, _)| k.clone())
                    .collect::<Vec<_>>()
            ),
        );
        if !g.notes.is_empty() {
            coverage.insert("notes".into(), json!(g.notes));
        }
        for (k, v) in &g.extra {
            coverage.insert(k.clone(), v.clone());
        }
        let doc = json!({
            "property_id": self.prop,
            "tier": tier.name(),
            "seed": seed,
            "level": self.level,
            "coverage": Value::Object(coverage),
            "assumptions": self.assumptions,
            "wall_s": wall,
            "violations": g.violations.len(),
            "replays": g.violations.iter().map(|(s, p)| json!({"signature": s, "replay": p})).collect::<Vec<_>>(),
        });
        let dir = verif_root().join("evidence");
        let _ = std::fs::create_dir_all(&dir);
        let path = dir.join(format!("{}.json", self.prop));
        if let Err(e) = std::fs::write(&path, serde_json::to_string_pretty(&doc).unwrap()) {
            diag(&format!("cannot write evidence {}: {e}", path.display()));
            return 2;
        }
        diag(&format!(
            "[{}] tier={} seed={} evaluations={} distinct_nontrivial={} violations={} wall={:.1}s",
            self.prop,
            tier.name(),
            seed,
            self.evaluations(),
            distinct,
            g.violations.len(),
            wall
        ));
        if !g.violations.is_empty() {
            1
        } else if self.inconclusive.load(Ordering::SeqCst) {
            2
        } else {
            0
        }
    }
}

/// Set once any check in this process has observed a failure. Checks that use
/// generous waits for "must return promptly" obligations consult it to shorten
/// those waits while a failure is being shrunk (the original failure was
/// observed with the full wait).
static FAILURE_SEEN: AtomicBool = AtomicBool::new(false);

pub fn failure_seen() -> bool {
    FAILURE_SEEN.load(Ordering::Relaxed)
}

pub fn note_failure() {
    FAILURE_SEEN.store(true, Ordering::Relaxed);
}

pub fn hash_of<T: Hash>(t: &T) -> u64 {
    let mut h = DefaultHasher::new();
    t.hash(&mut h);
    h.finish()
}

fn panic_message(p: Box<dyn std::any::Any + Send>) -> String {
    if let Some(s) = p.downcast_ref::<&str>() {
        s.to_string()
    } else if let Some(s) = p.downcast_ref::<String>() {
        s.clone()
    } else {
        "non-string panic".to_string()
    }
}

/// Run `check` converting a panic into a `Fail` with signature `panic`.
pub fn guarded<C: Debug>(check: &(dyn Fn(&C) -> CheckResult + Sync), case: &C) -> CheckResult {
    let _running = running::enter(case);
    let mut attempt = 0;
    loop {
        let r = match catch_unwind(AssertUnwindSafe(|| check(case))) {
            Ok(r) => r,
            Err(p) => Err(Fail::new("panic", format!("panicked: {}", panic_message(p)))),
        };
        // per-case servers, listeners and tasks registered by the check end here
        crate::peers::net::end_of_case();
        // A failure of the harness's own plumbing (no free port, connect refused by the
        // harness's own listener under load) is retried before it is reported as
        // inconclusive; it is never a verdict about the property.
        match &r {
            Err(f) if f.sig.starts_with("harness-") && attempt < 3 => {
                attempt += 1;
                std::thread::sleep(std::time::Duration::from_millis(150 * attempt));
            }
            _ => return r,
        }
    }
}

/// Which case each worker thread is running right now (for the hang report of the
/// harness time budget): the slot holds a borrowed pointer that is only dereferenced
/// under the slot's lock, which the worker also takes before the case goes away.
pub mod running {
    use std::fmt::Debug;
    use std::sync::{Arc, Mutex};
    use std::time::Instant;

    struct Slot {
        cur: Mutex<Option<(usize, fn(usize) -> String, Instant)>>,
    }
    static SLOTS: Mutex<Vec<Arc<Slot>>> = Mutex::new(Vec::new());
    thread_local! {
        static MINE: Arc<Slot> = {
            let s = Arc::new(Slot { cur: Mutex::new(None) });
            SLOTS.lock().unwrap_or_else(|e| e.into_inner()).push(s.clone());
            s
        };
    }
    pub struct Guard(Option<Arc<Slot>>);
    impl Drop for Guard {
        fn drop(&mut self) {
            if let Some(s) = &self.0 {
                *s.cur.lock().unwrap_or_else(|e| e.into_inner()) = None;
            }
        }
    }
    fn fmt_case<C: Debug>(p: usize) -> String {
        // SAFETY: called only while the slot lock is held and the slot still names `p`;
        // the worker clears the slot (under the same lock) before the case is dropped.
        let c: &C = unsafe { &*(p as *const C) };
        let mut s = format!("{c:?}");
        if s.len() > 2000 {
            s.truncate(2000);
            s.push('…');
        }
        s
    }
    pub fn enter<C: Debug>(case: &C) -> Guard {
        let slot = MINE.try_with(|s| s.clone()).ok();
        if let Some(s) = &slot {
            let mut g = s.cur.lock().unwrap_or_else(|e| e.into_inner());
            // nested guarded() calls keep the outermost case
            if g.is_some() {
                return Guard(None);
            }
            *g = Some((case as *const C as usize, fmt_case::<C>, Instant::now()));
        }
        Guard(slot)
    }
    /// Cases that have been running for at least `min_secs`.
    pub fn long_running(min_secs: u64) -> Vec<String> {
        let slots = SLOTS.lock().unwrap_or_else(|e| e.into_inner()).clone();
        let mut out = Vec::new();
        for s in slots {
            let g = s.cur.lock().unwrap_or_else(|e| e.into_inner());
            if let Some((p, f, t)) = *g
                && t.elapsed().as_secs() >= min_secs
            {
                out.push(format!("running for {} s: {}", t.elapsed().as_secs(), f(p)));
            }
        }
        out
    }
}

static ORIG_STDERR: std::sync::OnceLock<std::sync::Mutex<std::fs::File>> = std::sync::OnceLock::new();

/// The harness's own diagnostics go to the real stderr even while fd 2 is filtered.
pub fn diag(line: &str) {
    use std::io::Write;
    match ORIG_STDERR.get() {
        Some(f) => {
            let _ = writeln!(f.lock().unwrap_or_else(|e| e.into_inner()), "{line}");
        }
        None => eprintln!("{line}"),
    }
}

/// repe's servers log every connection-level error with `eprintln!("[repe] ...")`;
/// fault-injecting checks produce tens of thousands of such lines. Route fd 2
/// through a pipe and drop exactly those lines (everything else is forwarded).
pub fn filter_repe_stderr() {
    use std::io::{BufRead, Write};
    use std::os::fd::FromRawFd;
    unsafe {
        let orig = libc::dup(2);
        let mut fds = [0i32; 2];
        if orig < 0 || libc::pipe(fds.as_mut_ptr()) != 0 {
            return;
        }
        libc::dup2(fds[1], 2);
        libc::close(fds[1]);
        let _ = ORIG_STDERR.set(std::sync::Mutex::new(std::fs::File::from_raw_fd(orig)));
        let rd = std::fs::File::from_raw_fd(fds[0]);
        std::thread::spawn(move || {
            let mut rd = std::io::BufReader::new(rd);
            let mut line = Vec::new();
            loop {
                line.clear();
                match rd.read_until(b'\n', &mut line) {
                    Ok(0) | Err(_) => break,
                    Ok(_) => {
                        if line.starts_with(b"[repe]") {
                            continue;
                        }
                        if let Some(f) = ORIG_STDERR.get() {
                            let _ = f.lock().unwrap_or_else(|e| e.into_inner()).write_all(&line);
                        }
                    }
                }
            }
        });
    }
}

/// Silence the default panic hook (panics are caught and reported by the
/// engine; the default hook would flood stderr during shrinking).
pub fn quiet_panics() {
    std::panic::set_hook(Box::new(|_| {}));
}

/// proptest-driven sub-check: `cases` generated cases spread over the context's
/// worker threads, each with its own deterministically seeded runner. A failure
/// is shrunk by proptest and the minimal case becomes the replay file.
pub fn run_prop<C>(
    ctx: &Ctx,
    rep: &Report,
    sub: &str,
    cases: u32,
    strat: &(dyn Fn() -> BoxedStrategy<C> + Sync),
    check: &(dyn Fn(&C) -> CheckResult + Sync),
) where
    C: Debug + Clone + Serialize + Hash + Send,
{
    run_prop_threads(ctx, rep, sub, cases, ctx.threads, strat, check)
}

pub fn run_prop_threads<C>(
    ctx: &Ctx,
    rep: &Report,
    sub: &str,
    cases: u32,
    threads: usize,
    strat: &(dyn Fn() -> BoxedStrategy<C> + Sync),
    check: &(dyn Fn(&C) -> CheckResult + Sync),
) where
    C: Debug + Clone + Serialize + Hash + Send,
{
    if !ctx.want(sub) || cases == 0 {
        return;
    }
    let threads = threads.max(1).min(cases as usize);
    let stop = AtomicBool::new(false);
    std::thread::scope(|scope| {
        for w in 0..threads {
            let stop = &stop;
            let n = cases / threads as u32 + u32::from((w as u32) < cases % threads as u32);
            scope.spawn(move || {
                let seed = ctx.sub_seed(sub, w as u64);
                let strat = strat();
                let config = Config {
                    cases: n,
                    rng_seed: RngSeed::Fixed(seed),
                    failure_persistence: None,
                    max_shrink_iters: 4096,
                    max_shrink_time: 30_000,
                    max_global_rejects: 65536,
                    ..Config::default()
                };
                let mut runner = TestRunner::new(config);
                let failing = AtomicBool::new(false);
                // The most recent failing (case, failure): proptest only keeps a
                // simplification that fails, so this is the shrunk case together
                // with the failure actually observed on it (schedule-dependent
                // failures may not reproduce on a re-run).
                let last_fail: Mutex<Option<(Value, Fail)>> = Mutex::new(None);
                let result = runner.run(&strat, |case| {
                    if stop.load(Ordering::Relaxed) && !failing.load(Ordering::Relaxed) {
                        return Ok(());
                    }
                    match guarded(check, &case) {
                        Ok(info) => {
                            if !failing.load(Ordering::Relaxed) {
                                rep.record(sub, hash_of(&case), &info, || {
                                    serde_json::to_value(&case).unwrap_or(Value::Null)
                                });
                            }
                            Ok(())
                        }
                        Err(f) => {
                            if rep.is_known(&f.sig) {
                                if !failing.load(Ordering::Relaxed) {
                                    let v = serde_json::to_value(&case).unwrap_or(Value::Null);
                                    rep.fail(sub, &v, &f, seed);
                                }
                                Ok(())
                            } else {
                                failing.store(true, Ordering::Relaxed);
                                stop.store(true, Ordering::Relaxed);
                                note_failure();
                                let v = serde_json::to_value(&case).unwrap_or(Value::Null);
                                *last_fail.lock().unwrap() = Some((v, f.clone()));
                                Err(TestCaseError::fail(f.sig.clone()))
                            }
                        }
                    }
                });
                match result {
                    Ok(()) => {}
                    Err(TestError::Fail(_, case)) => {
                        let stored = last_fail.lock().unwrap().take();
                        let (v, f) = match stored {
                            Some(x) => x,
                            None => {
                                let v = serde_json::to_value(&case).unwrap_or(Value::Null);
                                let f = match guarded(check, &case) {
                                    Err(f) => f,
                                    Ok(_) => Fail::new(
                                        "nondeterministic",
                                        "failing case passed on re-run (schedule-dependent failure)",
                                    ),
                                };
                                (v, f)
                            }
                        };
                        rep.fail(sub, &v, &f, seed);
                    }
                    Err(TestError::Abort(reason)) => {
                        rep.mark_inconclusive(format!("{sub}: proptest aborted: {reason}"));
                    }
                }
            });
        }
    });
}

/// Deterministic stream of cases from a strategy (no shrinking); used where a
/// driver needs generated values outside `run_prop` (e.g. batching into child
/// processes).
pub fn sample_cases<C, S>(seed: u64, n: usize, strat: &S) -> Vec<C>
where
    S: Strategy<Value = C>,
{
    let config = Config {
        rng_seed: RngSeed::Fixed(seed),
        failure_persistence: None,
        ..Config::default()
    };
    let mut runner = TestRunner::new(config);
    let mut out = Vec::with_capacity(n);
    for _ in 0..n {
        match strat.new_tree(&mut runner) {
            Ok(t) => out.push(t.current()),
            Err(_) => break,
        }
    }
    out
}

/// Exhaustive / enumerated sub-check over an explicit list or iterator of cases,
/// fanned out over threads by index striding.
pub fn run_enum<C>(
    ctx: &Ctx,
    rep: &Report,
    sub: &str,
    cases: &[C],
    exhaustive: bool,
    check: &(dyn Fn(&C) -> CheckResult + Sync),
) where
    C: Debug + Clone + Serialize + Hash + Send + Sync,
{
    if !ctx.want(sub) {
        return;
    }
    let threads = ctx.threads.max(1).min(cases.len().max(1));
    std::thread::scope(|scope| {
        for w in 0..threads {
            scope.spawn(move || {
                let mut i = w;
                while i < cases.len() {
                    let case = &cases[i];
                    match guarded(check, case) {
                        Ok(info) => rep.record(sub, hash_of(case), &info, || {
                            serde_json::to_value(case).unwrap_or(Value::Null)
                        }),
                        Err(f) => {
                            let v = serde_json::to_value(case).unwrap_or(Value::Null);
                            rep.fail(sub, &v, &f, ctx.seed);
                        }
                    }
                    i += threads;
                }
            });
        }
    });
    rep.set_exhaustive(sub, exhaustive);
}

/// Replay helper: decode the `case` field of a replay document as `C` and run
/// `check` on it, bypassing proptest.
pub fn replay_case<C: DeserializeOwned + Debug>(
    case: &Value,
    check: &(dyn Fn(&C) -> CheckResult + Sync),
) -> Result<(), Fail> {
    let c: C = serde_json::from_value(case.clone())
        .map_err(|e| Fail::new("replay-decode", format!("cannot decode case: {e}")))?;
    guarded(check, &c).map(|_| ())
}

/// Monotone index map (keeps proptest shrinking pointed at small indices).
pub fn pick_idx(sel: u16, len: usize) -> usize {
    if len == 0 {
        return 0;
    }
    ((sel as usize) * len) >> 16
}
