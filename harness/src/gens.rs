//! Shared proptest strategies.

use proptest::prelude::*;

/// u64 drawn from boundary values, byte-distinct patterns and uniform.
pub fn any_u64_mix() -> BoxedStrategy<u64> {
    prop_oneof![
        3 => prop::sample::select(vec![
            0u64, 1, 2, 0x7f, 0x80, 0xff, 0x100, 0xffff, 0x1_0000, 0x7fff_ffff, 0x8000_0000,
            0xffff_ffff, 0x1_0000_0000, 1 << 62, (1 << 63) - 1, 1 << 63, u64::MAX - 1, u64::MAX,
        ]),
        3 => prop::sample::select(vec![
            0x0102_0304_0506_0708u64, 0x0807_0605_0403_0201, 0xA1B2_C3D4_E5F6_0718,
            0x1122_3344_5566_7788, 0xFEDC_BA98_7654_3210,
        ]),
        4 => any::<u64>(),
    ]
    .boxed()
}

pub fn any_u32_mix() -> BoxedStrategy<u32> {
    prop_oneof![
        3 => prop::sample::select(vec![
            0u32, 1, 2, 9, 0xff, 0x100, 4095, 4096, 0xffff, 0x1_0000, 0x7fff_ffff, 0x8000_0000,
            u32::MAX - 1, u32::MAX,
        ]),
        3 => prop::sample::select(vec![0x0102_0304u32, 0x0403_0201, 0xA1B2_C3D4, 0x1122_3344]),
        4 => any::<u32>(),
    ]
    .boxed()
}

pub fn any_u16_mix() -> BoxedStrategy<u16> {
    prop_oneof![
        3 => prop::sample::select(vec![0u16, 1, 2, 3, 4, 0xff, 0x100, 4095, 4096, 0x7fff, 0x8000, 0xfffe, 0xffff]),
        3 => prop::sample::select(vec![0x0102u16, 0x0201, 0xA1B2, 0x1507, 0x0715]),
        4 => any::<u16>(),
    ]
    .boxed()
}

pub fn any_u8_mix() -> BoxedStrategy<u8> {
    prop_oneof![
        2 => prop::sample::select(vec![0u8, 1, 2, 0x7f, 0x80, 0xfe, 0xff]),
        3 => any::<u8>(),
    ]
    .boxed()
}

/// Payload length: boundary set ∪ uniform up to `max`.
pub fn payload_len(max: usize) -> BoxedStrategy<usize> {
    let bounds: Vec<usize> = [
        0usize, 1, 2, 7, 8, 47, 48, 49, 255, 256, 4095, 4096, 8191, 8192, 8193, 65535, 65536,
    ]
    .into_iter()
    .filter(|&x| x <= max)
    .collect();
    prop_oneof![
        4 => prop::sample::select(bounds),
        3 => 0usize..=64.min(max),
        2 => 0usize..=1024.min(max),
        1 => 0usize..=max,
    ]
    .boxed()
}

/// Deterministic pseudo-random bytes from a generated seed (keeps shrinking fast
/// for large payloads: the case stores `(len, seed)`, not the bytes).
pub fn fill(len: usize, seed: u64) -> Vec<u8> {
    let mut out = Vec::with_capacity(len);
    let mut x = seed | 1;
    for _ in 0..len {
        // xorshift64*
        x ^= x >> 12;
        x ^= x << 25;
        x ^= x >> 27;
        out.push((x.wrapping_mul(0x2545_F491_4F6C_DD1D) >> 56) as u8);
    }
    out
}

/// Like `fill` but into a Vec with exactly-requested minimum capacity.
pub fn fill_with_capacity(len: usize, seed: u64, cap: usize) -> Vec<u8> {
    let mut v = Vec::with_capacity(cap.max(len));
    v.extend_from_slice(&fill(len, seed));
    v
}
