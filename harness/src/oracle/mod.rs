pub mod codec;
pub mod ptr;
