//! O-codec: an independent REPE v1 codec written from the layout table only.
//!
//! offset  size  field
//!      0     8  length        (u64 LE) = 48 + query_length + body_length
//!      8     2  spec          (u16 LE) = 0x1507
//!     10     1  version
//!     11     1  notify
//!     12     4  reserved      (u32 LE)
//!     16     8  id            (u64 LE)
//!     24     8  query_length  (u64 LE)
//!     32     8  body_length   (u64 LE)
//!     40     2  query_format  (u16 LE)
//!     42     2  body_format   (u16 LE)
//!     44     4  ec            (u32 LE)
//!
//! All length arithmetic is done in u128, so neither a trap nor a wrap in the
//! implementation can be mirrored here.

use serde::{Deserialize, Serialize};

pub const HDR: usize = 48;
pub const MAGIC: u16 = 0x1507;

#[derive(Clone, Copy, Debug, PartialEq, Eq, Hash, Serialize, Deserialize, Default)]
pub struct OHeader {
    pub length: u64,
    pub spec: u16,
    pub version: u8,
    pub notify: u8,
    pub reserved: u32,
    pub id: u64,
    pub query_length: u64,
    pub body_length: u64,
    pub query_format: u16,
    pub body_format: u16,
    pub ec: u32,
}

fn put(buf: &mut [u8], off: usize, v: u64, n: usize) {
    for i in 0..n {
        buf[off + i] = ((v >> (8 * i)) & 0xff) as u8;
    }
}

fn get(buf: &[u8], off: usize, n: usize) -> u64 {
    let mut v = 0u64;
    for i in 0..n {
        v |= (buf[off + i] as u64) << (8 * i);
    }
    v
}

impl OHeader {
    pub fn encode(&self) -> [u8; HDR] {
        let mut b = [0u8; HDR];
        put(&mut b, 0, self.length, 8);
        put(&mut b, 8, self.spec as u64, 2);
        put(&mut b, 10, self.version as u64, 1);
        put(&mut b, 11, self.notify as u64, 1);
        put(&mut b, 12, self.reserved as u64, 4);
        put(&mut b, 16, self.id, 8);
        put(&mut b, 24, self.query_length, 8);
        put(&mut b, 32, self.body_length, 8);
        put(&mut b, 40, self.query_format as u64, 2);
        put(&mut b, 42, self.body_format as u64, 2);
        put(&mut b, 44, self.ec as u64, 4);
        b
    }

    /// Raw field extraction, no validation. `buf.len() >= 48` required.
    pub fn raw(buf: &[u8]) -> OHeader {
        OHeader {
            length: get(buf, 0, 8),
            spec: get(buf, 8, 2) as u16,
            version: get(buf, 10, 1) as u8,
            notify: get(buf, 11, 1) as u8,
            reserved: get(buf, 12, 4) as u32,
            id: get(buf, 16, 8),
            query_length: get(buf, 24, 8),
            body_length: get(buf, 32, 8),
            query_format: get(buf, 40, 2) as u16,
            body_format: get(buf, 42, 2) as u16,
            ec: get(buf, 44, 4) as u32,
        }
    }

    /// `48 + q + b` over the integers.
    pub fn declared_total(&self) -> u128 {
        HDR as u128 + self.query_length as u128 + self.body_length as u128
    }

    /// Header-level validity: correct magic and consistent total (over ℤ).
    pub fn consistent(&self) -> bool {
        self.spec == MAGIC && self.length as u128 == self.declared_total()
    }

    pub fn to_repe(&self) -> repe::Header {
        repe::Header {
            length: self.length,
            spec: self.spec,
            version: self.version,
            notify: self.notify,
            reserved: self.reserved,
            id: self.id,
            query_length: self.query_length,
            body_length: self.body_length,
            query_format: self.query_format,
            body_format: self.body_format,
            ec: self.ec,
        }
    }

    pub fn from_repe(h: &repe::Header) -> OHeader {
        OHeader {
            length: h.length,
            spec: h.spec,
            version: h.version,
            notify: h.notify,
            reserved: h.reserved,
            id: h.id,
            query_length: h.query_length,
            body_length: h.body_length,
            query_format: h.query_format,
            body_format: h.body_format,
            ec: h.ec,
        }
    }
}

/// Encode a frame: header with length fields derived from the payloads.
pub fn encode_frame(h: &OHeader, query: &[u8], body: &[u8]) -> Vec<u8> {
    let mut h = *h;
    h.query_length = query.len() as u64;
    h.body_length = body.len() as u64;
    h.length = (HDR + query.len() + body.len()) as u64;
    let mut out = Vec::with_capacity(HDR + query.len() + body.len());
    out.extend_from_slice(&h.encode());
    out.extend_from_slice(query);
    out.extend_from_slice(body);
    out
}

#[derive(Clone, Debug, PartialEq, Eq)]
pub enum Parse<'a> {
    /// Fewer than 48 bytes.
    ShortHeader,
    BadMagic,
    /// `length != 48 + q + b` over ℤ.
    Inconsistent,
    /// Header is consistent but the buffer is shorter than the declared frame.
    Truncated { need: u128 },
    /// A whole frame is present; `trailing` bytes follow it.
    Frame {
        header: OHeader,
        query: &'a [u8],
        body: &'a [u8],
        trailing: usize,
    },
}

/// Reference parse of a buffer that is claimed to start with a frame.
pub fn parse(buf: &[u8]) -> Parse<'_> {
    if buf.len() < HDR {
        return Parse::ShortHeader;
    }
    let h = OHeader::raw(buf);
    if h.spec != MAGIC {
        return Parse::BadMagic;
    }
    if !h.consistent() {
        return Parse::Inconsistent;
    }
    let total = h.declared_total();
    if (buf.len() as u128) < total {
        return Parse::Truncated { need: total };
    }
    let q = h.query_length as usize;
    let b = h.body_length as usize;
    Parse::Frame {
        header: h,
        query: &buf[HDR..HDR + q],
        body: &buf[HDR + q..HDR + q + b],
        trailing: buf.len() - (HDR + q + b),
    }
}

/// O-frames: split a captured byte stream into whole frames using only the
/// declared lengths. Returns the frames and the unparsed tail.
pub fn split_stream(mut buf: &[u8]) -> (Vec<(OHeader, Vec<u8>, Vec<u8>)>, Vec<u8>) {
    let mut out = Vec::new();
    loop {
        match parse(buf) {
            Parse::Frame {
                header,
                query,
                body,
                ..
            } => {
                let used = HDR + query.len() + body.len();
                out.push((header, query.to_vec(), body.to_vec()));
                buf = &buf[used..];
                if buf.is_empty() {
                    return (out, Vec::new());
                }
            }
            _ => return (out, buf.to_vec()),
        }
    }
}

/// Validate the oracle against the C++/Glaze-generated interop fixtures:
/// decode → re-encode must be byte-identical. Returns the number checked.
pub fn self_check_against_fixtures() -> Result<usize, String> {
    let dir = std::path::Path::new("/repo/interop/fixtures");
    let mut n = 0;
    let rd = std::fs::read_dir(dir).map_err(|e| format!("{}: {e}", dir.display()))?;
    for ent in rd.flatten() {
        let p = ent.path();
        if p.extension().and_then(|e| e.to_str()) != Some("repe") {
            continue;
        }
        let bytes = std::fs::read(&p).map_err(|e| e.to_string())?;
        match parse(&bytes) {
            Parse::Frame {
                header,
                query,
                body,
                trailing: 0,
            } => {
                let re = encode_frame(&header, query, body);
                if re != bytes {
                    return Err(format!("oracle re-encode differs for {}", p.display()));
                }
                n += 1;
            }
            other => {
                return Err(format!(
                    "oracle cannot parse fixture {}: {:?}",
                    p.display(),
                    other
                ));
            }
        }
    }
    if n == 0 {
        return Err("no fixtures found".into());
    }
    Ok(n)
}
