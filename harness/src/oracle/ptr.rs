//! O-ptr: independent RFC 6901 tokenizer / escaper.

/// Escape one reference token: `~` → `~0`, `/` → `~1`.
pub fn escape(tok: &str) -> String {
    let mut out = String::with_capacity(tok.len());
    for c in tok.chars() {
        match c {
            '~' => out.push_str("~0"),
            '/' => out.push_str("~1"),
            c => out.push(c),
        }
    }
    out
}

/// Build a pointer string from reference tokens (`[]` → `""`).
pub fn build(tokens: &[String]) -> String {
    let mut out = String::new();
    for t in tokens {
        out.push('/');
        out.push_str(&escape(t));
    }
    out
}

/// Unescape one token; `None` for a malformed escape (`~` not followed by 0/1).
pub fn unescape(tok: &str) -> Option<String> {
    let mut out = String::with_capacity(tok.len());
    let mut it = tok.chars();
    while let Some(c) = it.next() {
        if c == '~' {
            match it.next() {
                Some('0') => out.push('~'),
                Some('1') => out.push('/'),
                _ => return None,
            }
        } else {
            out.push(c);
        }
    }
    Some(out)
}

/// Tokenize a pointer. `""` → `[]`; must otherwise start with `/`.
/// `None` for a malformed pointer (no leading slash, bad escape).
pub fn tokenize(ptr: &str) -> Option<Vec<String>> {
    if ptr.is_empty() {
        return Some(Vec::new());
    }
    let rest = ptr.strip_prefix('/')?;
    rest.split('/').map(unescape).collect()
}
