//! Scripted network peers (P-tcp / P-ws): harness-owned endpoints that speak
//! REPE frames through the independent O-codec and do exactly what a generated
//! script tells them to. One async `FrameIo` abstraction covers raw TCP (frames
//! delimited by declared lengths) and WebSocket (one binary message per frame).

use crate::oracle::codec::{self, OHeader};
use futures_util::{SinkExt, StreamExt};
use repe::tokio_tungstenite::tungstenite::Message as WsMessage;
use repe::tokio_tungstenite::{WebSocketStream, accept_async};
use std::io;
use std::net::SocketAddr;
use tokio::io::{AsyncReadExt, AsyncWriteExt};
use tokio::net::{TcpListener, TcpStream};

#[derive(Debug, Clone)]
pub struct Frame {
    pub header: OHeader,
    pub query: Vec<u8>,
    pub body: Vec<u8>,
    pub raw: Vec<u8>,
}

impl Frame {
    pub fn path(&self) -> String {
        String::from_utf8_lossy(&self.query).to_string()
    }
}

pub fn parse_frame(raw: Vec<u8>) -> io::Result<Frame> {
    match codec::parse(&raw) {
        codec::Parse::Frame {
            header,
            query,
            body,
            trailing: 0,
        } => Ok(Frame {
            header,
            query: query.to_vec(),
            body: body.to_vec(),
            raw: raw.clone(),
        }),
        other => Err(io::Error::new(
            io::ErrorKind::InvalidData,
            format!("peer received a malformed frame: {other:?}"),
        )),
    }
}

/// Build a response frame for request `req` with the given body.
pub fn response_frame(req: &Frame, ec: u32, body_format: u16, body: &[u8]) -> Vec<u8> {
    let h = OHeader {
        spec: codec::MAGIC,
        version: 1,
        id: req.header.id,
        query_format: req.header.query_format,
        body_format,
        ec,
        ..OHeader::default()
    };
    codec::encode_frame(&h, &req.query, body)
}

pub fn frame_with(id: u64, notify: u8, query: &[u8], qf: u16, body: &[u8], bf: u16, ec: u32) -> Vec<u8> {
    let h = OHeader {
        spec: codec::MAGIC,
        version: 1,
        notify,
        id,
        query_format: qf,
        body_format: bf,
        ec,
        ..OHeader::default()
    };
    codec::encode_frame(&h, query, body)
}

#[allow(async_fn_in_trait)]
pub trait FrameIo {
    /// Next whole frame, `Ok(None)` on clean end of stream.
    async fn recv(&mut self) -> io::Result<Option<Frame>>;
    /// Send bytes that form (part of) a frame stream. For WebSocket the bytes
    /// become one binary message.
    async fn send(&mut self, bytes: &[u8]) -> io::Result<()>;
    /// Orderly close (FIN / Close frame).
    async fn close(&mut self);
}

pub struct TcpIo {
    pub stream: TcpStream,
    /// Every byte received so far.
    pub captured: Vec<u8>,
}

impl TcpIo {
    pub fn new(stream: TcpStream) -> Self {
        let _ = stream.set_nodelay(true);
        Self {
            stream,
            captured: Vec::new(),
        }
    }
    /// Abortive close: RST instead of FIN.
    pub fn reset(self) {
        let std = self.stream.into_std();
        if let Ok(s) = std {
            let sock = socket2::Socket::from(s);
            let _ = sock.set_linger(Some(std::time::Duration::ZERO));
            drop(sock);
        }
    }
    /// Half-close our sending side (FIN) but keep reading.
    pub async fn shutdown_write(&mut self) {
        let _ = self.stream.shutdown().await;
    }
    /// Read and discard until EOF/error (keeps draining the client's bytes).
    pub async fn drain(&mut self) {
        let mut buf = [0u8; 4096];
        loop {
            match self.stream.read(&mut buf).await {
                Ok(0) | Err(_) => return,
                Ok(n) => self.captured.extend_from_slice(&buf[..n]),
            }
        }
    }
}

impl FrameIo for TcpIo {
    async fn recv(&mut self) -> io::Result<Option<Frame>> {
        let mut hdr = [0u8; 48];
        let mut got = 0;
        while got < 48 {
            let n = self.stream.read(&mut hdr[got..]).await?;
            if n == 0 {
                if got == 0 {
                    return Ok(None);
                }
                return Err(io::Error::new(io::ErrorKind::UnexpectedEof, "eof inside a header"));
            }
            self.captured.extend_from_slice(&hdr[got..got + n]);
            got += n;
        }
        let h = OHeader::raw(&hdr);
        if !h.consistent() || h.declared_total() > (1u128 << 31) {
            return Err(io::Error::new(
                io::ErrorKind::InvalidData,
                format!("client sent an inconsistent header: {h:?}"),
            ));
        }
        let rest = (h.declared_total() - 48) as usize;
        let mut payload = vec![0u8; rest];
        self.stream.read_exact(&mut payload).await?;
        self.captured.extend_from_slice(&payload);
        let mut raw = hdr.to_vec();
        raw.extend_from_slice(&payload);
        parse_frame(raw).map(Some)
    }
    async fn send(&mut self, bytes: &[u8]) -> io::Result<()> {
        self.stream.write_all(bytes).await?;
        self.stream.flush().await
    }
    async fn close(&mut self) {
        let _ = self.stream.shutdown().await;
    }
}

pub struct WsIo<S> {
    pub ws: WebSocketStream<S>,
    /// Sizes of every binary message received.
    pub message_sizes: Vec<usize>,
    /// Non-binary data messages seen (text etc.).
    pub oddities: Vec<String>,
}

impl<S> WsIo<S>
where
    S: tokio::io::AsyncRead + tokio::io::AsyncWrite + Unpin,
{
    pub fn new(ws: WebSocketStream<S>) -> Self {
        Self {
            ws,
            message_sizes: Vec::new(),
            oddities: Vec::new(),
        }
    }
    pub async fn send_text(&mut self, text: &str) -> io::Result<()> {
        self.ws
            .send(WsMessage::Text(text.to_string()))
            .await
            .map_err(|e| io::Error::other(e.to_string()))
    }
    /// Next raw binary message (not required to be a valid REPE frame).
    pub async fn recv_raw(&mut self) -> io::Result<Option<Vec<u8>>> {
        loop {
            match self.ws.next().await {
                None => return Ok(None),
                Some(Err(e)) => return Err(io::Error::other(e.to_string())),
                Some(Ok(WsMessage::Binary(b))) => {
                    self.message_sizes.push(b.len());
                    return Ok(Some(b));
                }
                Some(Ok(WsMessage::Close(_))) => return Ok(None),
                Some(Ok(WsMessage::Text(t))) => self.oddities.push(format!("text:{t}")),
                Some(Ok(_)) => {}
            }
        }
    }
}

impl<S> FrameIo for WsIo<S>
where
    S: tokio::io::AsyncRead + tokio::io::AsyncWrite + Unpin,
{
    async fn recv(&mut self) -> io::Result<Option<Frame>> {
        match self.recv_raw().await? {
            None => Ok(None),
            Some(b) => parse_frame(b).map(Some),
        }
    }
    async fn send(&mut self, bytes: &[u8]) -> io::Result<()> {
        self.ws
            .send(WsMessage::Binary(bytes.to_vec()))
            .await
            .map_err(|e| io::Error::other(e.to_string()))
    }
    async fn close(&mut self) {
        let _ = self.ws.close(None).await;
    }
}

/// Arrange for the socket to send RST (not FIN) when it is dropped.
pub fn rst_on_drop(stream: &TcpStream) {
    let r = socket2::SockRef::from(stream);
    let _ = r.set_linger(Some(std::time::Duration::ZERO));
}

pub async fn listen() -> io::Result<(TcpListener, SocketAddr)> {
    let l = TcpListener::bind(crate::util::lo0().as_str()).await?;
    let a = l.local_addr()?;
    Ok((l, a))
}

/// How long a scripted peer waits for the endpoint under test to connect. The
/// checks start "connect" and "accept" together; if the connect fails (no free port
/// under load) nobody ever arrives, so the accept must give up by itself.
const ACCEPT_TIMEOUT: std::time::Duration = std::time::Duration::from_secs(10);

fn accept_timed_out() -> io::Error {
    io::Error::new(io::ErrorKind::TimedOut, "nobody connected to the scripted peer within 10 s")
}

pub async fn accept_tcp(l: &TcpListener) -> io::Result<TcpIo> {
    let (s, _) = tokio::time::timeout(ACCEPT_TIMEOUT, l.accept()).await.map_err(|_| accept_timed_out())??;
    Ok(TcpIo::new(s))
}

pub async fn accept_ws(l: &TcpListener) -> io::Result<WsIo<TcpStream>> {
    let (s, _) = tokio::time::timeout(ACCEPT_TIMEOUT, l.accept()).await.map_err(|_| accept_timed_out())??;
    let _ = s.set_nodelay(true);
    let ws = tokio::time::timeout(ACCEPT_TIMEOUT, accept_async(s))
        .await
        .map_err(|_| accept_timed_out())?
        .map_err(|e| io::Error::other(e.to_string()))?;
    Ok(WsIo::new(ws))
}

/// A runtime for checks that need real parallelism between the library's tasks
/// and the harness (multi-thread, small).
pub fn mt_runtime(workers: usize) -> tokio::runtime::Runtime {
    tokio::runtime::Builder::new_multi_thread()
        .worker_threads(workers.max(1))
        .enable_all()
        .build()
        .expect("tokio runtime")
}

// ------------------------------------------------------------ end-of-case cleanup

thread_local! {
    static CASE_GUARDS: std::cell::RefCell<Vec<Box<dyn std::any::Any>>> = const { std::cell::RefCell::new(Vec::new()) };
}

/// Keep `x` alive until the case running on this thread ends (the engine calls
/// `end_of_case` after every check), then drop it.
pub fn defer_drop<T: 'static>(x: T) {
    CASE_GUARDS.with(|g| g.borrow_mut().push(Box::new(x)));
}

pub fn end_of_case() {
    let v: Vec<Box<dyn std::any::Any>> = CASE_GUARDS.with(|g| std::mem::take(&mut *g.borrow_mut()));
    drop(v);
}

/// Ends a blocking `Server::serve` loop: shutdown(2) on the listening socket makes
/// the blocked accept return an error, `serve` returns and the listener is closed.
pub struct ListenerStop(std::net::TcpListener);

impl Drop for ListenerStop {
    fn drop(&mut self) {
        use std::os::fd::AsRawFd;
        unsafe {
            libc::shutdown(self.0.as_raw_fd(), libc::SHUT_RDWR);
        }
    }
}

/// Stop the accept loop that is about to be started on `l` when the current case ends
/// (per-case servers would otherwise leak a thread and a listening socket each).
pub fn stop_at_end_of_case(l: &std::net::TcpListener) {
    if let Ok(c) = l.try_clone() {
        defer_drop(ListenerStop(c));
    }
}

/// Aborts a tokio task when dropped.
pub struct AbortOnDrop<T>(pub tokio::task::JoinHandle<T>);

impl<T> Drop for AbortOnDrop<T> {
    fn drop(&mut self) {
        self.0.abort();
    }
}
