pub mod sink;
pub mod net;
pub mod dws;
