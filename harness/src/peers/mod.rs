// network peers (filled in later)
