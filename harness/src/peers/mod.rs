pub mod sink;
