pub mod sink;
pub mod net;
