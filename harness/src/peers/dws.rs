//! D-ws: in-process WebSocket server driver. The server half is a
//! `SharedWebSocketServer` connection adopted over `tokio::io::duplex`; the other
//! half is a raw client-role WebSocket stream owned by the harness. No sockets,
//! no HTTP handshake.

use super::net::WsIo;
use repe::tokio_tungstenite::WebSocketStream;
use repe::tokio_tungstenite::tungstenite::protocol::Role;
use repe::websocket_server::{SharedWebSocketServer, ShutdownToken};
use repe::RepeError;
use tokio::io::DuplexStream;
use tokio::task::JoinHandle;

pub struct DwsConn {
    pub io: WsIo<DuplexStream>,
    /// Completes when the server side's connection future finished.
    pub server: JoinHandle<Result<(), RepeError>>,
}

pub async fn connect(shared: &SharedWebSocketServer, buf: usize) -> DwsConn {
    connect_with(shared, buf, None).await
}

pub async fn connect_with(shared: &SharedWebSocketServer, buf: usize, cancel: Option<ShutdownToken>) -> DwsConn {
    let (client_half, server_half) = tokio::io::duplex(buf);
    let ws = shared.adopt_upgraded(server_half).await;
    let sh = shared.clone();
    let server = tokio::spawn(async move {
        match cancel {
            Some(tok) => sh.serve_connection_with_cancel(ws, &tok).await,
            None => sh.serve_connection(ws).await,
        }
    });
    let cws = WebSocketStream::from_raw_socket(client_half, Role::Client, None).await;
    DwsConn {
        io: WsIo::new(cws),
        server,
    }
}

/// A stream whose writes start failing when the switch is flipped while reads keep
/// working: the server side of a connection whose sending direction died first.
pub struct HalfDead<S> {
    pub inner: S,
    pub writes_fail: std::sync::Arc<std::sync::atomic::AtomicBool>,
}

impl<S: tokio::io::AsyncRead + Unpin> tokio::io::AsyncRead for HalfDead<S> {
    fn poll_read(mut self: std::pin::Pin<&mut Self>, cx: &mut std::task::Context<'_>, buf: &mut tokio::io::ReadBuf<'_>) -> std::task::Poll<std::io::Result<()>> {
        std::pin::Pin::new(&mut self.inner).poll_read(cx, buf)
    }
}

impl<S: tokio::io::AsyncWrite + Unpin> tokio::io::AsyncWrite for HalfDead<S> {
    fn poll_write(mut self: std::pin::Pin<&mut Self>, cx: &mut std::task::Context<'_>, buf: &[u8]) -> std::task::Poll<std::io::Result<usize>> {
        if self.writes_fail.load(std::sync::atomic::Ordering::SeqCst) {
            return std::task::Poll::Ready(Err(std::io::Error::new(std::io::ErrorKind::BrokenPipe, "injected: sending direction is dead")));
        }
        std::pin::Pin::new(&mut self.inner).poll_write(cx, buf)
    }
    fn poll_flush(mut self: std::pin::Pin<&mut Self>, cx: &mut std::task::Context<'_>) -> std::task::Poll<std::io::Result<()>> {
        if self.writes_fail.load(std::sync::atomic::Ordering::SeqCst) {
            return std::task::Poll::Ready(Err(std::io::Error::new(std::io::ErrorKind::BrokenPipe, "injected: sending direction is dead")));
        }
        std::pin::Pin::new(&mut self.inner).poll_flush(cx)
    }
    fn poll_shutdown(mut self: std::pin::Pin<&mut Self>, cx: &mut std::task::Context<'_>) -> std::task::Poll<std::io::Result<()>> {
        std::pin::Pin::new(&mut self.inner).poll_shutdown(cx)
    }
}
