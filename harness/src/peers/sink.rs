//! Recording `PeerSink` used by model-based checks.

use repe::{NotifyBody, PeerHandle, PeerId, PeerSendError, PeerSink};
use std::sync::{Arc, Mutex};

#[derive(Clone, Copy, Debug, PartialEq, Eq)]
pub enum SinkMode {
    Ok,
    Disconnected,
    Full,
}

pub struct RecSink {
    pub log: Mutex<Vec<(String, u16, Vec<u8>)>>,
    pub mode: SinkMode,
}

impl RecSink {
    pub fn new(mode: SinkMode) -> Arc<Self> {
        Arc::new(Self {
            log: Mutex::new(Vec::new()),
            mode,
        })
    }
    pub fn take(&self) -> Vec<(String, u16, Vec<u8>)> {
        std::mem::take(&mut *self.log.lock().unwrap())
    }
}

impl PeerSink for RecSink {
    fn send_notify(&self, method: &str, body: NotifyBody) -> Result<(), PeerSendError> {
        match self.mode {
            SinkMode::Disconnected => return Err(PeerSendError::Disconnected),
            SinkMode::Full => return Err(PeerSendError::Full),
            SinkMode::Ok => {}
        }
        let fmt = body.body_format() as u16;
        self.log
            .lock()
            .unwrap()
            .push((method.to_string(), fmt, body.into_bytes()));
        Ok(())
    }
    fn is_connected(&self) -> bool {
        self.mode != SinkMode::Disconnected
    }
}

pub fn handle(id: u64, sink: &Arc<RecSink>) -> PeerHandle {
    PeerHandle::new(PeerId(id), sink.clone())
}
