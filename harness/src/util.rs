//! Small I/O helpers shared by the property modules.

use std::io::{self, Read, Write};
use std::pin::Pin;
use std::task::{Context, Poll};
use tokio::io::{AsyncRead, AsyncWrite, ReadBuf};

/// Writer that accepts at most `k` bytes per `write` call (cycling 1..=k).
pub struct DribbleWriter {
    pub out: Vec<u8>,
    k: usize,
    n: usize,
}

impl DribbleWriter {
    pub fn new(k: usize) -> Self {
        Self {
            out: Vec::new(),
            k: k.max(1),
            n: 0,
        }
    }
}

impl Write for DribbleWriter {
    fn write(&mut self, buf: &[u8]) -> io::Result<usize> {
        if buf.is_empty() {
            return Ok(0);
        }
        self.n = self.n % self.k + 1;
        let take = self.n.min(buf.len());
        self.out.extend_from_slice(&buf[..take]);
        Ok(take)
    }
    fn flush(&mut self) -> io::Result<()> {
        Ok(())
    }
}

/// Reader that returns at most `k` bytes per `read` call (cycling 1..=k), and
/// optionally fails with an I/O error once `fail_at` bytes were delivered.
pub struct DribbleReader<'a> {
    data: &'a [u8],
    pos: usize,
    k: usize,
    n: usize,
    pub fail_at: Option<usize>,
}

impl<'a> DribbleReader<'a> {
    pub fn new(data: &'a [u8], k: usize) -> Self {
        Self {
            data,
            pos: 0,
            k: k.max(1),
            n: 0,
            fail_at: None,
        }
    }
    pub fn consumed(&self) -> usize {
        self.pos
    }
}

impl Read for DribbleReader<'_> {
    fn read(&mut self, buf: &mut [u8]) -> io::Result<usize> {
        if buf.is_empty() {
            return Ok(0);
        }
        if let Some(f) = self.fail_at
            && self.pos >= f
        {
            return Err(io::Error::new(io::ErrorKind::ConnectionReset, "injected"));
        }
        self.n = self.n % self.k + 1;
        let mut take = self.n.min(buf.len()).min(self.data.len() - self.pos);
        if let Some(f) = self.fail_at {
            take = take.min(f - self.pos);
        }
        buf[..take].copy_from_slice(&self.data[self.pos..self.pos + take]);
        self.pos += take;
        Ok(take)
    }
}

impl AsyncRead for DribbleReader<'_> {
    fn poll_read(
        mut self: Pin<&mut Self>,
        _cx: &mut Context<'_>,
        buf: &mut ReadBuf<'_>,
    ) -> Poll<io::Result<()>> {
        let me = &mut *self;
        if buf.remaining() == 0 {
            return Poll::Ready(Ok(()));
        }
        if let Some(f) = me.fail_at
            && me.pos >= f
        {
            return Poll::Ready(Err(io::Error::new(
                io::ErrorKind::ConnectionReset,
                "injected",
            )));
        }
        me.n = me.n % me.k + 1;
        let mut take = me.n.min(buf.remaining()).min(me.data.len() - me.pos);
        if let Some(f) = me.fail_at {
            take = take.min(f - me.pos);
        }
        buf.put_slice(&me.data[me.pos..me.pos + take]);
        me.pos += take;
        Poll::Ready(Ok(()))
    }
}

/// Async writer accepting at most `k` bytes per poll.
pub struct AsyncDribbleWriter {
    pub out: Vec<u8>,
    k: usize,
    n: usize,
}

impl AsyncDribbleWriter {
    pub fn new(k: usize) -> Self {
        Self {
            out: Vec::new(),
            k: k.max(1),
            n: 0,
        }
    }
}

impl AsyncWrite for AsyncDribbleWriter {
    fn poll_write(
        mut self: Pin<&mut Self>,
        _cx: &mut Context<'_>,
        buf: &[u8],
    ) -> Poll<io::Result<usize>> {
        if buf.is_empty() {
            return Poll::Ready(Ok(0));
        }
        let me = &mut *self;
        me.n = me.n % me.k + 1;
        let take = me.n.min(buf.len());
        me.out.extend_from_slice(&buf[..take]);
        Poll::Ready(Ok(take))
    }
    fn poll_flush(self: Pin<&mut Self>, _cx: &mut Context<'_>) -> Poll<io::Result<()>> {
        Poll::Ready(Ok(()))
    }
    fn poll_shutdown(self: Pin<&mut Self>, _cx: &mut Context<'_>) -> Poll<io::Result<()>> {
        Poll::Ready(Ok(()))
    }
}

thread_local! {
    static RT: tokio::runtime::Runtime = tokio::runtime::Builder::new_current_thread()
        .enable_all()
        .build()
        .expect("tokio runtime");
}

/// Run a future on this thread's private current-thread runtime.
pub fn block_on<F: std::future::Future>(f: F) -> F::Output {
    RT.with(|rt| rt.block_on(f))
}

static MT: std::sync::OnceLock<tokio::runtime::Runtime> = std::sync::OnceLock::new();

/// Run a future on the shared multi-thread runtime: the library's spawned tasks
/// (response loops, servers) then run in real parallel with the harness's peer.
pub fn block_on_mt<F: std::future::Future>(f: F) -> F::Output {
    MT.get_or_init(|| {
        tokio::runtime::Builder::new_multi_thread()
            .worker_threads(48)
            .max_blocking_threads(2048)
            .enable_all()
            .build()
            .expect("tokio runtime")
    })
    .block_on(f)
}

pub fn hex(b: &[u8]) -> String {
    let mut s = String::with_capacity(b.len() * 2);
    for x in b.iter().take(96) {
        s.push_str(&format!("{x:02x}"));
    }
    if b.len() > 96 {
        s.push_str(&format!("..(+{} bytes)", b.len() - 96));
    }
    s
}

/// First index at which two byte strings differ (or the shorter length).
pub fn first_diff(a: &[u8], b: &[u8]) -> usize {
    a.iter()
        .zip(b.iter())
        .position(|(x, y)| x != y)
        .unwrap_or(a.len().min(b.len()))
}

pub fn diff_msg(what: &str, got: &[u8], want: &[u8]) -> String {
    let d = first_diff(got, want);
    format!(
        "{what}: got {} bytes, want {} bytes, first difference at offset {d}; got[{d}..]={} want[{d}..]={}",
        got.len(),
        want.len(),
        hex(&got[d.min(got.len())..got.len().min(d + 16)]),
        hex(&want[d.min(want.len())..want.len().min(d + 16)])
    )
}

/// The loopback address this process tree uses for every socket it opens. Each
/// top-level harness process takes its own address out of 127.0.0.0/8 (derived from
/// its pid, handed to its child processes through VERIF_LO), so that concurrently
/// running checks do not compete for one address's ephemeral ports (thousands of
/// short connections per check leave that many TIME_WAIT entries behind).
pub fn lo() -> &'static str {
    static LO: std::sync::OnceLock<String> = std::sync::OnceLock::new();
    LO.get_or_init(|| match std::env::var("VERIF_LO") {
        Ok(v) if v.starts_with("127.") => v,
        _ => {
            let pid = std::process::id();
            let v = format!("127.{}.{}.1", 1 + (pid / 250) % 250, pid % 250);
            // SAFETY: called from main before any thread is started (see main.rs).
            unsafe { std::env::set_var("VERIF_LO", &v) };
            v
        }
    })
}

/// `lo()` with port 0 (bind to any free port on the process-level address; for
/// listeners whose port alone is handed to another process).
pub fn lo_base0() -> String {
    format!("{}:0", lo())
}

/// Bind address (port 0) for the calling thread: the process's /24 with a per-thread
/// last octet, so that the worker threads of one long run (tens of thousands of
/// short connections) do not share one address's ephemeral ports either. Everything
/// else learns the address from the listener (`local_addr`).
pub fn lo0() -> String {
    static NEXT: std::sync::atomic::AtomicUsize = std::sync::atomic::AtomicUsize::new(0);
    thread_local! {
        static OCTET: usize = 1 + NEXT.fetch_add(1, std::sync::atomic::Ordering::Relaxed) % 250;
    }
    let base = lo();
    let prefix = &base[..base.rfind('.').unwrap_or(base.len())];
    format!("{prefix}.{}:0", OCTET.with(|o| *o))
}
