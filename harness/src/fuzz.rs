//! Byte-driven entry points for the coverage-guided fuzz targets (`/verif/fuzz`).
//!
//! Every target is the *same* check the proptest tiers run — the same generator and
//! the same oracle — but the generator's random stream is the fuzzer's input:
//! proptest's `RngAlgorithm::PassThrough` hands the input bytes to the strategy as
//! its "random" words, so a byte mutation is a local change of one generator
//! decision and libFuzzer's coverage feedback steers the structured generator.
//! (`c02_bytes` additionally feeds the input verbatim to every decoder.)
//!
//! A failing case is written as an ordinary replay file (`replays/<ID>/…json`,
//! re-runnable with `./check <ID> replay <path>`), the `VIOLATION` line is printed,
//! and the process aborts so that libFuzzer also keeps the raw input.

use crate::engine::*;
use proptest::strategy::{BoxedStrategy, Strategy, ValueTree};
use proptest::test_runner::{Config, RngAlgorithm, TestRng, TestRunner};
use serde::Serialize;
use serde_json::{Value, json};
use std::cell::RefCell;
use std::fmt::Debug;
use std::sync::atomic::{AtomicU64, Ordering};

pub enum Outcome {
    /// the bytes did not yield a case (generator rejected)
    NoCase,
    Pass { nontrivial: bool, case: Option<Value> },
    Fail { case: Value, fail: Fail },
}

pub struct Target {
    pub name: &'static str,
    pub prop: &'static str,
    pub sub: &'static str,
    pub run: Box<dyn Fn(&[u8], bool) -> Outcome>,
}

/// A target made of a proptest strategy and a check.
pub fn from_strategy<C>(
    name: &'static str,
    prop: &'static str,
    sub: &'static str,
    strat: fn() -> BoxedStrategy<C>,
    check: fn(&C) -> CheckResult,
) -> Target
where
    C: Serialize + Debug + 'static,
{
    let cached: RefCell<Option<BoxedStrategy<C>>> = RefCell::new(None);
    Target {
        name,
        prop,
        sub,
        run: Box::new(move |data: &[u8], want_case: bool| {
            let mut slot = cached.borrow_mut();
            let strategy = slot.get_or_insert_with(strat);
            let rng = TestRng::from_seed(RngAlgorithm::PassThrough, data);
            let mut runner = TestRunner::new_with_rng(
                Config {
                    failure_persistence: None,
                    ..Config::default()
                },
                rng,
            );
            let Ok(tree) = strategy.new_tree(&mut runner) else {
                return Outcome::NoCase;
            };
            let case = tree.current();
            match guarded(&check, &case) {
                Ok(info) => Outcome::Pass {
                    nontrivial: info.nontrivial,
                    case: want_case.then(|| serde_json::to_value(&case).unwrap_or(Value::Null)),
                },
                Err(fail) => Outcome::Fail {
                    case: serde_json::to_value(&case).unwrap_or(Value::Null),
                    fail,
                },
            }
        }),
    }
}

/// A target whose case is built directly from the input bytes.
pub fn from_bytes<C>(
    name: &'static str,
    prop: &'static str,
    sub: &'static str,
    build: fn(&[u8]) -> Option<C>,
    check: fn(&C) -> CheckResult,
) -> Target
where
    C: Serialize + Debug + 'static,
{
    Target {
        name,
        prop,
        sub,
        run: Box::new(move |data: &[u8], want_case: bool| {
            let Some(case) = build(data) else {
                return Outcome::NoCase;
            };
            match guarded(&check, &case) {
                Ok(info) => Outcome::Pass {
                    nontrivial: info.nontrivial,
                    case: want_case.then(|| serde_json::to_value(&case).unwrap_or(Value::Null)),
                },
                Err(fail) => Outcome::Fail {
                    case: serde_json::to_value(&case).unwrap_or(Value::Null),
                    fail,
                },
            }
        }),
    }
}

pub fn all_targets() -> Vec<Target> {
    let mut v = Vec::new();
    v.extend(crate::props::c01::fuzz_targets());
    v.extend(crate::props::c02::fuzz_targets());
    v.extend(crate::props::c07::fuzz_targets());
    v.extend(crate::props::c08::fuzz_targets());
    v.extend(crate::props::c11::fuzz_targets());
    v.extend(crate::props::c13::fuzz_targets());
    v.extend(crate::props::c14::fuzz_targets());
    v.extend(crate::props::c18::fuzz_targets());
    v
}

struct Active {
    target: Target,
    report: Report,
    samples: Vec<Value>,
}

thread_local! {
    static ACTIVE: RefCell<Option<Active>> = const { RefCell::new(None) };
}

static EXECS: AtomicU64 = AtomicU64::new(0);
static CASES: AtomicU64 = AtomicU64::new(0);
static NONTRIVIAL: AtomicU64 = AtomicU64::new(0);
static STATS_PATH: std::sync::OnceLock<String> = std::sync::OnceLock::new();
static SAMPLES: std::sync::Mutex<Vec<Value>> = std::sync::Mutex::new(Vec::new());
static NAME: std::sync::OnceLock<&'static str> = std::sync::OnceLock::new();

extern "C" fn write_stats() {
    if let Some(p) = STATS_PATH.get() {
        let doc = json!({
            "target": NAME.get().copied().unwrap_or(""),
            "execs": EXECS.load(Ordering::Relaxed),
            "cases": CASES.load(Ordering::Relaxed),
            "nontrivial": NONTRIVIAL.load(Ordering::Relaxed),
            "samples": *SAMPLES.lock().unwrap_or_else(|e| e.into_inner()),
        });
        let _ = std::fs::write(p, serde_json::to_string_pretty(&doc).unwrap_or_default());
    }
}

/// One fuzz iteration of the named target. Called from `fuzz_target!`.
pub fn one(name: &str, data: &[u8]) {
    ACTIVE.with(|slot| {
        let mut slot = slot.borrow_mut();
        if slot.is_none() {
            // libfuzzer-sys installs an aborting panic hook; the engine catches panics
            // itself and reports them as failures with a replay file.
            quiet_panics();
            let target = all_targets()
                .into_iter()
                .find(|t| t.name == name)
                .unwrap_or_else(|| panic!("unknown fuzz target {name}"));
            let _ = NAME.set(target.name);
            if let Ok(p) = std::env::var("VERIF_FUZZ_STATS") {
                let _ = STATS_PATH.set(p.replace("%p", &std::process::id().to_string()));
                unsafe {
                    libc::atexit(write_stats);
                }
            }
            let report = Report::new(target.prop, "exploration", "");
            *slot = Some(Active {
                target,
                report,
                samples: Vec::new(),
            });
        }
        let a = slot.as_mut().unwrap();
        let n = EXECS.fetch_add(1, Ordering::Relaxed);
        // keep a few sample cases (spread over the run) for the evidence file
        let want_case = n < 3 || (n.is_power_of_two() && n >= 1024);
        match (a.target.run)(data, want_case) {
            Outcome::NoCase => {}
            Outcome::Pass { nontrivial, case } => {
                CASES.fetch_add(1, Ordering::Relaxed);
                if nontrivial {
                    NONTRIVIAL.fetch_add(1, Ordering::Relaxed);
                }
                if let Some(c) = case {
                    let mut s = SAMPLES.lock().unwrap_or_else(|e| e.into_inner());
                    if s.len() < 12 {
                        let text = c.to_string();
                        s.push(if text.len() > 600 { Value::String(format!("{}…", &text[..600])) } else { c });
                    }
                }
            }
            Outcome::Fail { case, fail } => {
                CASES.fetch_add(1, Ordering::Relaxed);
                let known = a.report.fail(a.target.sub, &case, &fail, 0);
                if !known && !fail.sig.starts_with("harness-") {
                    write_stats();
                    // make libFuzzer keep the input as a crash artifact
                    std::process::abort();
                }
            }
        }
    });
}

/// Re-run one raw fuzz input against a target (replay of a sanitizer-only crash).
pub fn replay_raw(name: &str, data: &[u8]) -> Result<(), Fail> {
    let target = all_targets()
        .into_iter()
        .find(|t| t.name == name)
        .ok_or_else(|| Fail::new("replay-unknown-sub", name.to_string()))?;
    match (target.run)(data, false) {
        Outcome::Fail { fail, .. } => Err(fail),
        _ => Ok(()),
    }
}
