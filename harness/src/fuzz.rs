//! Byte-driven entry points for the coverage-guided fuzz targets (`/verif/fuzz`).
//!
//! Every target runs the *same check function* (same oracle) as a proptest sub-check;
//! only the generator differs: a hand-written builder decodes the fuzzer's bytes into
//! a case of the same type over the same domain as the proptest strategy (`U`, below),
//! so a byte mutation is a local change of one generator decision and libFuzzer's
//! coverage feedback steers the structured generator. `c02_bytes` and `c01_wire` feed
//! the input verbatim to the decoders.
//!
//! (proptest's own `RngAlgorithm::PassThrough` was tried first and dropped: it halves
//! the remaining byte stream at every generator fork — every `prop_oneof!` arm — and
//! rand's unbiased range sampling then spins forever on the zeros of an exhausted
//! stream.)
//!
//! A failing case is written as an ordinary replay file (`replays/<ID>/…json`,
//! re-runnable with `./check <ID> replay <path>`), the `VIOLATION` line is printed,
//! and the process aborts so that libFuzzer also keeps the raw input.

use crate::engine::*;
use serde::Serialize;
use serde_json::{Value, json};
use std::cell::RefCell;
use std::fmt::Debug;
use std::sync::atomic::{AtomicU64, Ordering};

pub enum Outcome {
    /// the bytes did not yield a case (generator rejected)
    NoCase,
    Pass { nontrivial: bool, case: Option<Value> },
    Fail { case: Value, fail: Fail },
}

pub struct Target {
    pub name: &'static str,
    pub prop: &'static str,
    pub sub: &'static str,
    pub run: Box<dyn Fn(&[u8], bool) -> Outcome>,
}

/// A target whose case is built directly from the input bytes.
pub fn from_bytes<C>(
    name: &'static str,
    prop: &'static str,
    sub: &'static str,
    build: fn(&[u8]) -> Option<C>,
    check: fn(&C) -> CheckResult,
) -> Target
where
    C: Serialize + Debug + 'static,
{
    Target {
        name,
        prop,
        sub,
        run: Box::new(move |data: &[u8], want_case: bool| {
            let Some(case) = build(data) else {
                return Outcome::NoCase;
            };
            match guarded(&check, &case) {
                Ok(info) => Outcome::Pass {
                    nontrivial: info.nontrivial,
                    case: want_case.then(|| serde_json::to_value(&case).unwrap_or(Value::Null)),
                },
                Err(fail) => Outcome::Fail {
                    case: serde_json::to_value(&case).unwrap_or(Value::Null),
                    fail,
                },
            }
        }),
    }
}

pub fn all_targets() -> Vec<Target> {
    let mut v = Vec::new();
    v.extend(crate::props::c01::fuzz_targets());
    v.extend(crate::props::c02::fuzz_targets());
    v.extend(crate::props::c07::fuzz_targets());
    v.extend(crate::props::c08::fuzz_targets());
    v.extend(crate::props::c11::fuzz_targets());
    v.extend(crate::props::c13::fuzz_targets());
    v.extend(crate::props::c14::fuzz_targets());
    v.extend(crate::props::c18::fuzz_targets());
    v
}

struct Active {
    target: Target,
    report: Report,
    samples: Vec<Value>,
}

thread_local! {
    static ACTIVE: RefCell<Option<Active>> = const { RefCell::new(None) };
}

static EXECS: AtomicU64 = AtomicU64::new(0);
static CASES: AtomicU64 = AtomicU64::new(0);
static NONTRIVIAL: AtomicU64 = AtomicU64::new(0);
static STATS_PATH: std::sync::OnceLock<String> = std::sync::OnceLock::new();
static SAMPLES: std::sync::Mutex<Vec<Value>> = std::sync::Mutex::new(Vec::new());
static NAME: std::sync::OnceLock<&'static str> = std::sync::OnceLock::new();

extern "C" fn write_stats() {
    if let Some(p) = STATS_PATH.get() {
        let doc = json!({
            "target": NAME.get().copied().unwrap_or(""),
            "execs": EXECS.load(Ordering::Relaxed),
            "cases": CASES.load(Ordering::Relaxed),
            "nontrivial": NONTRIVIAL.load(Ordering::Relaxed),
            "samples": *SAMPLES.lock().unwrap_or_else(|e| e.into_inner()),
        });
        let _ = std::fs::write(p, serde_json::to_string_pretty(&doc).unwrap_or_default());
    }
}

/// One fuzz iteration of the named target. Called from `fuzz_target!`.
pub fn one(name: &str, data: &[u8]) {
    ACTIVE.with(|slot| {
        let mut slot = slot.borrow_mut();
        if slot.is_none() {
            // libfuzzer-sys installs an aborting panic hook; the engine catches panics
            // itself and reports them as failures with a replay file.
            quiet_panics();
            let target = all_targets()
                .into_iter()
                .find(|t| t.name == name)
                .unwrap_or_else(|| panic!("unknown fuzz target {name}"));
            let _ = NAME.set(target.name);
            if let Ok(p) = std::env::var("VERIF_FUZZ_STATS") {
                let _ = STATS_PATH.set(p.replace("%p", &std::process::id().to_string()));
                unsafe {
                    libc::atexit(write_stats);
                }
            }
            let report = Report::new(target.prop, "exploration", "");
            *slot = Some(Active {
                target,
                report,
                samples: Vec::new(),
            });
        }
        let a = slot.as_mut().unwrap();
        let n = EXECS.fetch_add(1, Ordering::Relaxed);
        // keep a few sample cases (spread over the run) for the evidence file
        let want_case = n < 3 || (n.is_power_of_two() && n >= 1024);
        match (a.target.run)(data, want_case) {
            Outcome::NoCase => {}
            Outcome::Pass { nontrivial, case } => {
                CASES.fetch_add(1, Ordering::Relaxed);
                if nontrivial {
                    NONTRIVIAL.fetch_add(1, Ordering::Relaxed);
                }
                if let Some(c) = case {
                    let mut s = SAMPLES.lock().unwrap_or_else(|e| e.into_inner());
                    if s.len() < 12 {
                        let text = c.to_string();
                        s.push(if text.len() > 600 { Value::String(format!("{}…", &text[..600])) } else { c });
                    }
                }
            }
            Outcome::Fail { case, fail } => {
                CASES.fetch_add(1, Ordering::Relaxed);
                let known = a.report.fail(a.target.sub, &case, &fail, 0);
                if !known && !fail.sig.starts_with("harness-") {
                    write_stats();
                    // make libFuzzer keep the input as a crash artifact
                    std::process::abort();
                }
            }
        }
    });
}

/// Re-run one raw fuzz input against a target (replay of a sanitizer-only crash).
pub fn replay_raw(name: &str, data: &[u8]) -> Result<(), Fail> {
    let target = all_targets()
        .into_iter()
        .find(|t| t.name == name)
        .ok_or_else(|| Fail::new("replay-unknown-sub", name.to_string()))?;
    match (target.run)(data, false) {
        Outcome::Fail { fail, .. } => Err(fail),
        _ => Ok(()),
    }
}

/// Byte-stream decoder for hand-written case builders: every call consumes the next
/// bytes of the fuzzer's input (zeros once it is used up, so building always ends).
pub struct U<'a> {
    d: &'a [u8],
    pos: usize,
}

impl<'a> U<'a> {
    pub fn new(d: &'a [u8]) -> Self {
        Self { d, pos: 0 }
    }
    pub fn is_empty(&self) -> bool {
        self.pos >= self.d.len()
    }
    pub fn u8(&mut self) -> u8 {
        let b = self.d.get(self.pos).copied().unwrap_or(0);
        self.pos += 1;
        b
    }
    pub fn bool(&mut self) -> bool {
        self.u8() & 1 == 1
    }
    pub fn u16(&mut self) -> u16 {
        u16::from_le_bytes([self.u8(), self.u8()])
    }
    pub fn u32(&mut self) -> u32 {
        u32::from_le_bytes([self.u8(), self.u8(), self.u8(), self.u8()])
    }
    pub fn u64(&mut self) -> u64 {
        (self.u32() as u64) | ((self.u32() as u64) << 32)
    }
    /// Uniform-ish index below `n` (n >= 1), using as few bytes as the range needs.
    pub fn below(&mut self, n: u64) -> u64 {
        if n <= 1 {
            return 0;
        }
        let raw = if n <= 1 << 8 {
            self.u8() as u64
        } else if n <= 1 << 16 {
            self.u16() as u64
        } else if n <= 1 << 32 {
            self.u32() as u64
        } else {
            self.u64()
        };
        raw % n
    }
    /// A value in `lo..hi` (hi exclusive, hi > lo).
    pub fn range(&mut self, lo: u64, hi: u64) -> u64 {
        lo + self.below(hi - lo)
    }
    pub fn weighted(&mut self, weights: &[u32]) -> usize {
        let total: u32 = weights.iter().sum();
        let mut x = self.below(total as u64) as u32;
        for (i, w) in weights.iter().enumerate() {
            if x < *w {
                return i;
            }
            x -= w;
        }
        weights.len() - 1
    }
    /// Boundary-heavy 64-bit values (the same classes as `gens::any_u64_mix`).
    pub fn u64_mix(&mut self) -> u64 {
        const EDGE: [u64; 18] = [
            0, 1, 2, 0x7f, 0x80, 0xff, 0x100, 0xffff, 0x1_0000, 0x7fff_ffff, 0x8000_0000, 0xffff_ffff, 0x1_0000_0000,
            1 << 62, (1 << 63) - 1, 1 << 63, u64::MAX - 1, u64::MAX,
        ];
        match self.weighted(&[3, 4]) {
            0 => EDGE[self.below(EDGE.len() as u64) as usize],
            _ => self.u64(),
        }
    }
    /// Up to `max` elements; stops early when the input is used up.
    pub fn vec<T>(&mut self, max: usize, mut f: impl FnMut(&mut U<'a>) -> T) -> Vec<T> {
        let n = self.below(max as u64 + 1) as usize;
        let mut v = Vec::with_capacity(n.min(1024));
        for _ in 0..n {
            if self.is_empty() {
                break;
            }
            v.push(f(self));
        }
        v
    }
    pub fn rest(&mut self) -> &'a [u8] {
        let r = &self.d[self.pos.min(self.d.len())..];
        self.pos = self.d.len();
        r
    }
}
