pub mod c01;
pub mod c01_net;
pub mod c02;
pub mod c02_net;
pub mod c03;
pub mod c04;
pub mod c05;
pub mod c05_ws;
pub mod c06;
pub mod c07;
pub mod c08;
pub mod c08_net;
pub mod c09;
pub mod c09_net;
pub mod c10;
pub mod routerkit;
pub mod c11;
pub mod c12;
pub mod c13;
pub mod c14;
pub mod c15;
pub mod c16;
pub mod c17;
pub mod c18;
pub mod c19;
pub mod stream_model;

use crate::engine::{CheckResult, Ctx, Fail, Report};
use serde_json::Value;

pub struct PropDef {
    pub id: &'static str,
    pub level: &'static str,
    pub rule: &'static str,
    pub assumptions: &'static [&'static str],
    pub run: fn(&Ctx, &Report),
    pub replay: fn(&str, &Value) -> Result<(), Fail>,
    /// Child-process entry for sub-checks that use process isolation.
    pub child: Option<fn(&str) -> i32>,
}

pub fn all() -> Vec<PropDef> {
    vec![
        PropDef {
            id: "C01",
            level: "exploration",
            rule: c01::RULE,
            assumptions: &[
                "the oracle is an independent layout-table codec validated against the Glaze-generated interop fixtures",
                "payload lengths above 64 KiB are only spot-checked (up to 4 MiB)",
            ],
            run: c01::run,
            replay: c01::replay,
            child: None,
        },
        PropDef {
            id: "C02",
            level: "exploration",
            rule: c02::RULE,
            assumptions: c02::ASSUMPTIONS,
            run: c02::run,
            replay: c02::replay,
            child: Some(c02::child),
        },
        PropDef {
            id: "C03",
            level: "exploration",
            rule: c03::RULE,
            assumptions: &[
                "handlers that never return are outside the property and are not generated",
                "the notify flag is generated as 0 or 1 only",
                "a dispatched request's expected response comes from the same handler run in-process on a twin router (C07 checks the in-process paths against each other); the envelope rules, exactly-once, ordering, completeness and cross-transport equality are checked independently of it",
                "one WebSocket connection carries both inline and off-reader (_blocking) routes; only the inline subsequence is order-checked there",
            ],
            run: c03::run,
            replay: c03::replay,
            child: None,
        },
        PropDef {
            id: "C04",
            level: "exploration",
            rule: c04::RULE,
            assumptions: &[
                "caller/reader interleavings are whatever the OS scheduler and the generated reply scripts produce: sampled, not enumerated (the model-checking clause of the quantifier is outside this technique)",
                "the notify-reuse clause is exercised on the WebSocket client only: the TCP clients have no notification subscriber",
                "a call that has not returned within 10 s of its response being sent counts as never receiving it",
            ],
            run: c04::run,
            replay: c04::replay,
            child: None,
        },
        PropDef {
            id: "C05",
            level: "fault_enumeration",
            rule: c05::RULE,
            assumptions: &[
                "the oracle is the byte-exact stream grammar alone; it does not demand an error where the transport completes an interrupted frame itself (BufWriter remainder, WebSocket sink buffering a whole message)",
                "payloads up to 12 MiB; the write-blocking scenarios rely on the kernel's 4 MiB loopback send-buffer cap plus a 4 KiB peer receive buffer",
                "stall durations are generated around the configured timeout; which side of the race occurs is recorded, not assumed",
            ],
            run: c05::run,
            replay: c05::replay,
            child: None,
        },
        PropDef {
            id: "C06",
            level: "fault_enumeration",
            rule: c06::RULE,
            assumptions: &[
                "a 10 s watchdog on obligations whose normal latency is milliseconds is the hang signal",
                "after an RST (or a close with unread data, which the kernel turns into an RST) already-answered calls may still fail: the kernel may discard received-but-unread data; either outcome is accepted for answered calls, never another call's body",
                "in a timeout race either the own response or the timeout error is accepted",
                "pending-map emptiness is read through the verif-hooks accessor verif_pending_len()",
            ],
            run: c06::run,
            replay: c06::replay,
            child: None,
        },
        PropDef {
            id: "C07",
            level: "exploration",
            rule: c07::RULE,
            assumptions: &[
                "responses are compared after the documented dispatch-layer normalisation (Err -> error response with the error's code/text; empty response query -> request query)",
                "paths with malformed escapes and mount roots with trailing slashes are outside the quantifier and not generated",
                "registry and struct mounts are not overlapped (their relative precedence is not part of the property)",
            ],
            run: c07::run,
            replay: c07::replay,
            child: None,
        },
        PropDef {
            id: "C08",
            level: "exploration",
            rule: c08::RULE,
            assumptions: &[
                "u128/i128 and the half floats are exercised on the bulk-only clauses; the byte-identity and cross-decoding clauses use the element types with a serde path in this build",
                "Complex bodies use the crate's own serde form (body_beve(&Vec<Complex<T>>)), as the repository's test does",
                "borrowing is observed through the address of the slice handed to the route's closure",
            ],
            run: c08::run,
            replay: c08::replay,
            child: None,
        },
        PropDef {
            id: "C09",
            level: "exploration",
            rule: c09::RULE,
            assumptions: &[
                "chunk_bytes >= 1 (0 is outside the quantifier: it would spin)",
                "chunk sizing itself is local engine policy and is not asserted; only the concatenation, the single final end marker and the error behaviour are",
                "for the value producer equality is judged by decoding (the streaming serializer's byte layout is not pinned)",
            ],
            run: c09::run,
            replay: c09::replay,
            child: None,
        },
        PropDef {
            id: "C10",
            level: "fault_enumeration",
            rule: c10::RULE,
            assumptions: &[
                "crash points are the verif-hooks probe points on the commit path; a crash is _exit() from inside the probe (no destructors), plus unhooked SIGKILLs at generated times",
                "power-loss durability of sync_all is not observable here; only its position before the rename",
                "a temp .svspart file may remain after a process kill (the property only forbids it for in-process failures)",
                "scratch files live under /verif/harness/target/scratch",
            ],
            run: c10::run,
            replay: c10::replay,
            child: Some(c10::child),
        },
        PropDef {
            id: "C11",
            level: "exploration",
            rule: c11::RULE,
            assumptions: &[
                "producer-side offsets are kept <= 2^63 and chunk lengths <= 2^48 (the property's stated bounds), so in_flight + chunk_len cannot overflow",
                "the credit predicate is probed sequentially (expired deadline when the model says no, 5 s deadline when it says yes); blocking behaviour is C12's subject",
            ],
            run: c11::run,
            replay: c11::replay,
            child: None,
        },
        PropDef {
            id: "C12",
            level: "exploration",
            rule: c12::RULE,
            assumptions: &[
                "interleavings are sampled on real threads, not enumerated (the lock-step model clause is outside this technique)",
                "a 10 s watchdog on an obligation whose normal latency is microseconds is the hang signal",
                "reconnect-waiter schedules contain no file advance, so a staged resume can only be consumed by the waiter",
            ],
            run: c12::run,
            replay: c12::replay,
            child: None,
        },
        PropDef {
            id: "C13",
            level: "exploration",
            rule: c13::RULE,
            assumptions: &[
                "chunks are pushed with contiguous logical offsets (the documented producer contract; the ring debug-asserts it)",
                "eviction tightness is not demanded: any retained set that is a suffix within capacity (or a single chunk) is accepted",
            ],
            run: c13::run,
            replay: c13::replay,
            child: None,
        },
        PropDef {
            id: "C14",
            level: "exploration",
            rule: c14::RULE,
            assumptions: &[
                "registration ops are generated only where the documentation defines the outcome (parents missing or objects; never a bare root replacement)",
                "non-canonical array indices (leading zeros, '+') met against an array are treated as unspecified: any outcome accepted, model resynchronised",
                "\"\" and \"/\" both address the root (docs/protocol.md), so the single empty reference token is not generated at top level",
                "the content of write acknowledgements and of reads at a callable's pointer is not pinned",
            ],
            run: c14::run,
            replay: c14::replay,
            child: None,
        },
        PropDef {
            id: "C15",
            level: "fault_enumeration",
            rule: c15::RULE,
            assumptions: &[
                "a 10 s watchdog stands for 'the callback ran' / 'the handler observed cancellation'",
                "embedder cancellation is exercised through serve_connection_with_cancel only (the accept loops own their token)",
                "a client holding an unread backlog eventually reads or disconnects; the connection future is only required to return after that",
                "the parked handlers poll cancellation (cooperative); an uncooperative handler's blocking thread is outside what the property promises",
            ],
            run: c15::run,
            replay: c15::replay,
            child: None,
        },
        PropDef {
            id: "C16",
            level: "exploration",
            rule: c16::RULE,
            assumptions: &[
                "saturation is established by waiting for the handlers' own 'running' signals, not by timing",
                "a 10 s watchdog stands for 'answered immediately' / 'never answered'",
                "the connection is driven in-process over tokio::io::duplex (adopt_upgraded + serve_connection)",
            ],
            run: c16::run,
            replay: c16::replay,
            child: None,
        },
        PropDef {
            id: "C17",
            level: "exploration",
            rule: c17::RULE,
            assumptions: &[
                "limits are at least 1 KiB, large enough to carry the replacement error reply (the property's precondition)",
                "limits up to 1 MiB in quick and 16 MiB in thorough",
                "server-side paths are driven in-process over tokio::io::duplex via adopt_upgraded/serve_connection; the client paths use a real loopback WebSocket",
            ],
            run: c17::run,
            replay: c17::replay,
            child: None,
        },
        PropDef {
            id: "C18",
            level: "exploration",
            rule: c18::RULE,
            assumptions: &[
                "insert is only issued for an absent peer id (documented uniqueness precondition; the registry debug-asserts it)",
                "concurrent histories are sampled on real threads and decided by an exhaustive Wing-Gong linearization search of each observed history",
            ],
            run: c18::run,
            replay: c18::replay,
            child: None,
        },
        PropDef {
            id: "C19",
            level: "fault_enumeration",
            rule: c19::RULE,
            assumptions: &[
                "attempts are counted by the verif-hooks probe at the start of each attempt (so refused connections are counted too); the fake node's state is switched from inside that probe, which runs on the calling thread",
                "whether a malformed reply is retried is not asserted (the statement is silent); it counts toward the attempt bound",
                "it is not asserted that every transport failure is retried, only that retries happen only after transport failures, are bounded, and that the node is never wedged",
                "node timeout 80 ms, retry delay 1 ms",
            ],
            run: c19::run,
            replay: c19::replay,
            child: None,
        },
    ]
}

#[allow(dead_code)]
pub type Check<C> = fn(&C) -> CheckResult;
