pub mod c01;
pub mod c01_net;
pub mod c02;
pub mod c02_net;

use crate::engine::{CheckResult, Ctx, Fail, Report};
use serde_json::Value;

pub struct PropDef {
    pub id: &'static str,
    pub level: &'static str,
    pub rule: &'static str,
    pub assumptions: &'static [&'static str],
    pub run: fn(&Ctx, &Report),
    pub replay: fn(&str, &Value) -> Result<(), Fail>,
    /// Child-process entry for sub-checks that use process isolation.
    pub child: Option<fn(&str) -> i32>,
}

pub fn all() -> Vec<PropDef> {
    vec![
        PropDef {
            id: "C01",
            level: "exploration",
            rule: c01::RULE,
            assumptions: &[
                "the oracle is an independent layout-table codec validated against the Glaze-generated interop fixtures",
                "payload lengths above 64 KiB are only spot-checked (up to 4 MiB)",
            ],
            run: c01::run,
            replay: c01::replay,
            child: None,
        },
        PropDef {
            id: "C02",
            level: "exploration",
            rule: c02::RULE,
            assumptions: c02::ASSUMPTIONS,
            run: c02::run,
            replay: c02::replay,
            child: Some(c02::child),
        },
    ]
}

#[allow(dead_code)]
pub type Check<C> = fn(&C) -> CheckResult;
