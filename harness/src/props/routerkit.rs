//! Router factory shared by C03 and C07: one route per built-in handler kind,
//! each with an invocation counter and a log of the request it saw, optionally
//! behind counting forwarding middleware, in a generated registration order.

use repe::message::Message;
use repe::server::{HandlerErased, Next};
use repe::structs::{RepeStruct, StructResult};
use repe::{
    BodyFormat, CallContext, ErrorCode, JsonTypedHandler, QueryFormat, Registry, RepeError, Router,
    TypedResponse,
};
use serde::{Deserialize, Serialize};
use serde_json::{Value, json};
use std::sync::atomic::{AtomicU64, Ordering};
use std::sync::{Arc, Mutex};

#[derive(Debug, Clone, Copy, PartialEq, Eq, Hash, Serialize, Deserialize, PartialOrd, Ord)]
pub enum Kind {
    Json,
    JsonErr,
    Typed,
    TypedBeve,
    JsonCtx,
    TypedCtx,
    Slice,
    SliceRef,
    Jth,
    RegistryValue,
    RegistryFn,
    Struct,
    Erased,
    ErasedQ,
    JsonB,
    TypedB,
    JsonCtxB,
    TypedCtxB,
}

pub const KINDS: [Kind; 18] = [
    Kind::Json,
    Kind::JsonErr,
    Kind::Typed,
    Kind::TypedBeve,
    Kind::JsonCtx,
    Kind::TypedCtx,
    Kind::Slice,
    Kind::SliceRef,
    Kind::Jth,
    Kind::RegistryValue,
    Kind::RegistryFn,
    Kind::Struct,
    Kind::Erased,
    Kind::ErasedQ,
    Kind::JsonB,
    Kind::TypedB,
    Kind::JsonCtxB,
    Kind::TypedCtxB,
];

impl Kind {
    pub fn path(self) -> &'static str {
        match self {
            Kind::Json => "/json",
            Kind::JsonErr => "/json_err",
            Kind::Typed => "/typed",
            Kind::TypedBeve => "/typed_beve",
            Kind::JsonCtx => "/json_ctx",
            Kind::TypedCtx => "/typed_ctx",
            Kind::Slice => "/slice",
            Kind::SliceRef => "/slice_ref",
            Kind::Jth => "/jth",
            Kind::RegistryValue => "/reg/counter",
            Kind::RegistryFn => "/reg/add",
            Kind::Struct => "/st/field/x~1y",
            Kind::Erased => "/erased",
            Kind::ErasedQ => "/erased_q",
            Kind::JsonB => "/json_b",
            Kind::TypedB => "/typed_b",
            Kind::JsonCtxB => "/json_ctx_b",
            Kind::TypedCtxB => "/typed_ctx_b",
        }
    }
    pub fn off_reader(self) -> bool {
        matches!(self, Kind::JsonB | Kind::TypedB | Kind::JsonCtxB | Kind::TypedCtxB)
    }
    /// Does this kind's handler decode the body with serde into `Pair`?
    pub fn takes_pair(self) -> bool {
        matches!(
            self,
            Kind::Typed | Kind::TypedBeve | Kind::TypedCtx | Kind::Jth | Kind::TypedB | Kind::TypedCtxB
        )
    }
    pub fn takes_slice(self) -> bool {
        matches!(self, Kind::Slice | Kind::SliceRef)
    }
}

#[derive(Debug, Clone, Serialize, Deserialize, PartialEq)]
pub struct Pair {
    pub a: i64,
    pub b: i64,
}

/// What a handler observed, recorded per invocation.
#[derive(Debug, Clone, PartialEq)]
pub struct Seen {
    pub kind: Kind,
    pub detail: String,
}

#[derive(Default)]
pub struct Probe {
    pub seen: Mutex<Vec<Seen>>,
    pub middleware_hits: Vec<AtomicU64>,
}

impl Probe {
    pub fn note(&self, kind: Kind, detail: impl Into<String>) {
        self.seen.lock().unwrap().push(Seen {
            kind,
            detail: detail.into(),
        });
    }
    pub fn take(&self) -> Vec<Seen> {
        std::mem::take(&mut *self.seen.lock().unwrap())
    }
    pub fn count(&self, kind: Kind) -> usize {
        self.seen.lock().unwrap().iter().filter(|s| s.kind == kind).count()
    }
    pub fn mw(&self, i: usize) -> u64 {
        self.middleware_hits[i].load(Ordering::SeqCst)
    }
}

pub struct RecStruct {
    probe: Arc<Probe>,
}

impl RepeStruct for RecStruct {
    fn repe_handle(&mut self, segments: &[&str], body: Option<Value>) -> StructResult<Option<Value>> {
        self.probe.note(
            Kind::Struct,
            json!({"segs": segments, "body": body}).to_string(),
        );
        Ok(Some(json!({"segs": segments, "body": body})))
    }
}

struct Erased {
    probe: Arc<Probe>,
    own_query: bool,
}

impl HandlerErased for Erased {
    fn handle(&self, req: &Message) -> Result<Message, RepeError> {
        let kind = if self.own_query { Kind::ErasedQ } else { Kind::Erased };
        self.probe.note(kind, format!("{}:{}", req.header.body_format, crate::util::hex(&req.body)));
        if req.body.first() == Some(&0xEE) {
            return Err(RepeError::ServerError {
                code: ErrorCode::ApplicationErrorBase,
                message: "erased says no".into(),
            });
        }
        let mut b = Message::builder()
            .id(req.header.id)
            .body_bytes(req.body.iter().rev().copied().collect::<Vec<u8>>())
            .body_format_code(0x7001);
        if self.own_query {
            b = b.query_bytes(vec![0x01]).query_format_code(0x7002);
        } else {
            b = b.query_format(QueryFormat::JsonPointer);
        }
        Ok(b.build())
    }
}

struct Greeter {
    probe: Arc<Probe>,
}

impl JsonTypedHandler for Greeter {
    type In = Pair;
    type Out = Value;
    fn call(&self, input: Pair) -> Result<Value, (ErrorCode, String)> {
        self.probe.note(Kind::Jth, format!("{input:?}"));
        Ok(json!({"diff": input.a.wrapping_sub(input.b)}))
    }
}

/// One step of the registration program.
#[derive(Debug, Clone, Copy, PartialEq, Eq, Hash, Serialize, Deserialize)]
pub enum Step {
    Route(Kind),
    Middleware(u8),
}

/// All route steps in canonical order (registry and struct mounts are the
/// `RegistryValue` and `Struct` steps; `RegistryFn` shares the registry mount).
pub fn default_program(middlewares: u8) -> Vec<Step> {
    let mut v: Vec<Step> = KINDS
        .iter()
        .filter(|k| **k != Kind::RegistryFn)
        .map(|k| Step::Route(*k))
        .collect();
    for i in 0..middlewares {
        v.push(Step::Middleware(i));
    }
    v
}

pub struct Built {
    pub router: Router,
    pub probe: Arc<Probe>,
    pub registry: Arc<Registry>,
}

/// Build the router following `program`. Middleware `i` increments
/// `probe.middleware_hits[i]` and forwards.
pub fn build(program: &[Step]) -> Built {
    let nmw = program
        .iter()
        .filter_map(|s| match s {
            Step::Middleware(i) => Some(*i as usize + 1),
            _ => None,
        })
        .max()
        .unwrap_or(0);
    let probe = Arc::new(Probe {
        seen: Mutex::new(Vec::new()),
        middleware_hits: (0..nmw).map(|_| AtomicU64::new(0)).collect(),
    });
    let registry = Arc::new(Registry::new());
    registry.register_value("/counter", json!(0)).unwrap();
    {
        let p = probe.clone();
        registry
            .register_function("/add", move |params: Option<Value>| {
                p.note(Kind::RegistryFn, params.as_ref().map(|v| v.to_string()).unwrap_or_default());
                let Some(Value::Object(m)) = params else {
                    return Err((ErrorCode::InvalidBody, "expected object".into()));
                };
                let a = m.get("a").and_then(Value::as_i64).unwrap_or(0);
                let b = m.get("b").and_then(Value::as_i64).unwrap_or(0);
                Ok(json!({"sum": a.wrapping_add(b)}))
            })
            .unwrap();
    }
    let mut r = Router::new();
    for step in program {
        r = match *step {
            Step::Middleware(i) => {
                let p = probe.clone();
                r.with_middleware(move |req: &Message, next: Next<'_>| {
                    p.middleware_hits[i as usize].fetch_add(1, Ordering::SeqCst);
                    next.run(req)
                })
            }
            Step::Route(kind) => {
                let p = probe.clone();
                let path = kind.path();
                match kind {
                    Kind::Json => r.with_json(path, move |v: Value| {
                        p.note(Kind::Json, v.to_string());
                        Ok(json!({"got": v}))
                    }),
                    Kind::JsonErr => r.with_json(path, move |v: Value| {
                        p.note(Kind::JsonErr, v.to_string());
                        Err((ErrorCode::ApplicationErrorBase, format!("boom {v}")))
                    }),
                    Kind::Typed => r.with_typed::<Pair, i64, _>(path, move |x: Pair| {
                        p.note(Kind::Typed, format!("{x:?}"));
                        Ok::<i64, (ErrorCode, String)>(x.a.wrapping_add(x.b))
                    }),
                    Kind::TypedBeve => r.with_typed::<Pair, Pair, _>(path, move |x: Pair| {
                        p.note(Kind::TypedBeve, format!("{x:?}"));
                        Ok::<_, (ErrorCode, String)>(TypedResponse::beve(Pair { a: x.b, b: x.a }))
                    }),
                    Kind::JsonCtx => r.with_json_ctx(path, move |ctx: &CallContext, v: Value| {
                        p.note(Kind::JsonCtx, v.to_string());
                        Ok(json!({"method": ctx.method(), "v": v}))
                    }),
                    Kind::TypedCtx => r.with_typed_ctx::<Pair, Value, _>(path, move |ctx: &CallContext, x: Pair| {
                        p.note(Kind::TypedCtx, format!("{x:?}"));
                        Ok::<Value, (ErrorCode, String)>(json!({"method": ctx.method(), "prod": x.a.wrapping_mul(x.b)}))
                    }),
                    Kind::Slice => r.with_typed_slice::<f64, f64, _>(path, move |xs: Vec<f64>| {
                        p.note(Kind::Slice, format!("{:?}", xs.iter().map(|x| x.to_bits()).collect::<Vec<_>>()));
                        Ok(xs.iter().map(|x| x * 2.0).collect())
                    }),
                    Kind::SliceRef => r.with_typed_slice_ref::<f64, f64, _>(path, move |xs: &[f64]| {
                        p.note(Kind::SliceRef, format!("{:?}", xs.iter().map(|x| x.to_bits()).collect::<Vec<_>>()));
                        Ok(xs.iter().rev().copied().collect())
                    }),
                    Kind::Jth => r.with_handler(path, Greeter { probe: p }),
                    Kind::RegistryValue | Kind::RegistryFn => r.with_registry("/reg", registry.clone()),
                    Kind::Struct => {
                        let (r2, _h) = r.with_struct("/st", RecStruct { probe: p });
                        r2
                    }
                    Kind::Erased => r.with_erased_handler(path, Arc::new(Erased { probe: p, own_query: false })),
                    Kind::ErasedQ => r.with_erased_handler(path, Arc::new(Erased { probe: p, own_query: true })),
                    Kind::JsonB => r.with_json_blocking(path, move |v: Value| {
                        p.note(Kind::JsonB, v.to_string());
                        Ok(json!({"got_b": v}))
                    }),
                    Kind::TypedB => r.with_typed_blocking::<Pair, i64, _>(path, move |x: Pair| {
                        p.note(Kind::TypedB, format!("{x:?}"));
                        Ok::<i64, (ErrorCode, String)>(x.a.wrapping_sub(x.b))
                    }),
                    Kind::JsonCtxB => r.with_json_ctx_blocking(path, move |ctx: &CallContext, v: Value| {
                        p.note(Kind::JsonCtxB, v.to_string());
                        Ok(json!({"method_b": ctx.method(), "v": v}))
                    }),
                    Kind::TypedCtxB => r.with_typed_ctx_blocking::<Pair, Value, _>(path, move |ctx: &CallContext, x: Pair| {
                        p.note(Kind::TypedCtxB, format!("{x:?}"));
                        Ok::<Value, (ErrorCode, String)>(json!({"method_b": ctx.method(), "x": x.a}))
                    }),
                }
            }
        };
    }
    Built {
        router: r,
        probe,
        registry,
    }
}

/// Body shapes used to exercise a handler.
#[derive(Debug, Clone, Copy, PartialEq, Eq, Hash, Serialize, Deserialize)]
pub enum BodyShape {
    /// Well-formed for the handler and the chosen format.
    WellFormed,
    Truncated,
    Random,
    Empty,
    /// Syntactically JSON, but with a byte that is not valid UTF-8 inside a
    /// string literal (JSON requires UTF-8, so this is undecodable).
    BadUtf8Json,
}

/// Produce body bytes for `kind` in `body_format` with the given shape.
pub fn make_body(kind: Kind, body_format: u16, shape: BodyShape, seed: u64) -> Vec<u8> {
    let a = (seed % 1000) as i64 - 500;
    let b = ((seed >> 10) % 1000) as i64;
    let well: Vec<u8> = if kind.takes_slice() {
        let xs: Vec<f64> = (0..(seed % 7)).map(|i| (i as f64) * 1.5 - (seed % 3) as f64).collect();
        beve::to_vec_typed_slice(&xs)
    } else if kind.takes_pair() {
        let p = Pair { a, b };
        match body_format {
            1 => beve::to_vec(&p).unwrap(),
            _ => serde_json::to_vec(&p).unwrap(),
        }
    } else {
        let v = match seed % 4 {
            0 => json!({"a": a, "b": b}),
            1 => json!([a, b, "x"]),
            2 => json!("text"),
            _ => json!(a),
        };
        match body_format {
            1 => beve::to_vec(&v).unwrap(),
            _ => serde_json::to_vec(&v).unwrap(),
        }
    };
    match shape {
        BodyShape::WellFormed => well,
        BodyShape::Truncated => {
            let n = well.len();
            well[..n.saturating_sub(1 + (seed as usize % 3)).min(n)].to_vec()
        }
        BodyShape::Random => crate::gens::fill((seed % 24) as usize + 1, seed),
        BodyShape::Empty => Vec::new(),
        BodyShape::BadUtf8Json => match seed % 3 {
            0 => b"\"a\xFFb\"".to_vec(),
            1 => b"{\"a\": 1, \"b\": 2, \"s\": \"\xC3\x28\"}".to_vec(),
            _ => b"[1, \"\xF0\x28\x8C\xBC\"]".to_vec(),
        },
    }
}

/// Independent statement of the documented body-decoding contract for the
/// serde-decoding handler kinds (docs/server.md, docs/client.md): JSON, UTF-8 and
/// BEVE bodies are decoded; a body that does not decode is answered ParseError (5);
/// any other body format is answered InvalidBody (4). `None` for kinds whose
/// contract differs (slices, registry, struct, erased).
pub fn decode_contract(kind: Kind, body_format: u16, body: &[u8]) -> Option<Result<(), u32>> {
    enum Target {
        Value,
        Pair,
    }
    let target = match kind {
        Kind::Json | Kind::JsonErr | Kind::JsonCtx | Kind::JsonB | Kind::JsonCtxB => Target::Value,
        Kind::Typed | Kind::TypedBeve | Kind::TypedCtx | Kind::Jth | Kind::TypedB | Kind::TypedCtxB => Target::Pair,
        _ => return None,
    };
    let ok = match body_format {
        2 | 3 => match target {
            Target::Value => serde_json::from_slice::<Value>(body).is_ok(),
            Target::Pair => serde_json::from_slice::<Pair>(body).is_ok(),
        },
        1 => match target {
            Target::Value => beve::from_slice::<Value>(body).is_ok(),
            Target::Pair => beve::from_slice::<Pair>(body).is_ok(),
        },
        _ => return Some(Err(4)),
    };
    Some(if ok { Ok(()) } else { Err(5) })
}

pub fn body_format_name(f: u16) -> String {
    match BodyFormat::try_from(f) {
        Ok(b) => format!("{b:?}"),
        Err(c) => format!("fmt{c}"),
    }
}
