//! C01 — canonical 48-byte layout, lossless round trip, one encoding.

use crate::engine::*;
use crate::ensure;
use crate::gens::*;
use crate::oracle::codec::{self, OHeader};
use crate::util::*;
use proptest::prelude::*;
use repe::message::Message;
use repe::{Header, MessageView};
use serde::{Deserialize, Serialize};
use serde_json::Value;
use std::io::Cursor;

pub const RULE: &str = "proptest-generated logical messages (every header field from boundary ∪ byte-distinct ∪ uniform mixtures, payload lengths from boundary set ∪ uniform 0..64KiB, body capacity in each relation to 48+q+b) emitted through every route and compared with an independent layout-table encoder, then parsed back through every parser; (wire) verbatim frames, optionally followed by trailing bytes, decoded and re-emitted through to_vec / write_message / into_wire_bytes / MessageView::to_message must reproduce the input frame; (net-routes) the requests of Client / AsyncClient / WebSocketClient and the responses of Server / AsyncServer / WebSocket server are captured by scripted peers and compared byte-for-byte with the layout-table image; non-trivial = (q>0 or b>0) and at least 4 header fields non-zero; distinct = distinct case hash";

#[derive(Debug, Clone, Copy, Serialize, Deserialize, Hash, PartialEq, Eq)]
pub enum CapMode {
    Exact,
    TotalMinus1,
    Total,
    TotalPlus1,
    LenPlus48,
    Extra(u16),
}

#[derive(Debug, Clone, Serialize, Deserialize, Hash)]
pub struct MsgCase {
    pub version: u8,
    pub notify: u8,
    pub reserved: u32,
    pub id: u64,
    pub qf: u16,
    pub bf: u16,
    pub ec: u32,
    pub qlen: usize,
    pub qseed: u64,
    pub blen: usize,
    pub bseed: u64,
    pub cap: CapMode,
    pub garbage: [u64; 3],
    pub dribble: u8,
    pub trailing: u8,
}

impl MsgCase {
    pub fn oheader(&self) -> OHeader {
        OHeader {
            length: (48 + self.qlen + self.blen) as u64,
            spec: codec::MAGIC,
            version: self.version,
            notify: self.notify,
            reserved: self.reserved,
            id: self.id,
            query_length: self.qlen as u64,
            body_length: self.blen as u64,
            query_format: self.qf,
            body_format: self.bf,
            ec: self.ec,
        }
    }
    pub fn query(&self) -> Vec<u8> {
        fill(self.qlen, self.qseed)
    }
    pub fn body_with_cap(&self) -> Vec<u8> {
        let total = 48 + self.qlen + self.blen;
        let cap = match self.cap {
            CapMode::Exact => self.blen,
            CapMode::TotalMinus1 => total - 1,
            CapMode::Total => total,
            CapMode::TotalPlus1 => total + 1,
            CapMode::LenPlus48 => self.blen + 48,
            CapMode::Extra(x) => self.blen + x as usize,
        };
        fill_with_capacity(self.blen, self.bseed, cap)
    }
    pub fn message(&self) -> Message {
        Message {
            header: self.oheader().to_repe(),
            query: self.query(),
            body: self.body_with_cap(),
        }
    }
}

pub fn cap_mode() -> BoxedStrategy<CapMode> {
    prop_oneof![
        Just(CapMode::Exact),
        Just(CapMode::TotalMinus1),
        Just(CapMode::Total),
        Just(CapMode::TotalPlus1),
        Just(CapMode::LenPlus48),
        (0u16..4096).prop_map(CapMode::Extra),
    ]
    .boxed()
}

pub fn msg_case(max_payload: usize) -> BoxedStrategy<MsgCase> {
    (
        (any_u8_mix(), any_u8_mix(), any_u32_mix(), any_u64_mix()),
        (any_u16_mix(), any_u16_mix(), any_u32_mix()),
        (payload_len(max_payload), any::<u64>(), payload_len(max_payload), any::<u64>()),
        cap_mode(),
        [any_u64_mix(), any_u64_mix(), any_u64_mix()],
        1u8..=9,
        0u8..=5,
    )
        .prop_map(
            |(
                (version, notify, reserved, id),
                (qf, bf, ec),
                (qlen, qseed, blen, bseed),
                cap,
                garbage,
                dribble,
                trailing,
            )| MsgCase {
                version,
                notify,
                reserved,
                id,
                qf,
                bf,
                ec,
                qlen,
                qseed,
                blen,
                bseed,
                cap,
                garbage,
                dribble,
                trailing,
            },
        )
        .boxed()
}

fn len_class(n: usize) -> &'static str {
    match n {
        0 => "0",
        1..=47 => "1-47",
        48..=255 => "48-255",
        256..=4095 => "256-4095",
        4096..=65535 => "4K-64K-1",
        _ => ">=64K",
    }
}

fn eq_hdr(route: &str, got: &Header, want: &OHeader) -> Result<(), Fail> {
    let g = OHeader::from_repe(got);
    ensure!(
        g == *want,
        format!("{route}-header-fields"),
        "{route}: decoded header {:?} != generated {:?}",
        g,
        want
    );
    Ok(())
}

/// The pure (in-process) route comparison.
pub fn check_pure(c: &MsgCase) -> CheckResult {
    let oh = c.oheader();
    let query = c.query();
    let body = fill(c.blen, c.bseed);
    let want = codec::encode_frame(&oh, &query, &body);
    ensure!(
        want.len() == 48 + c.qlen + c.blen,
        "oracle-self",
        "oracle frame length"
    );

    let msg = c.message();

    // --- emission routes -------------------------------------------------
    let h48 = msg.header.encode();
    ensure!(
        h48[..] == want[..48],
        "header-encode",
        "{}",
        diff_msg("Header::encode", &h48, &want[..48])
    );
    let got = msg.to_vec();
    ensure!(got == want, "to_vec", "{}", diff_msg("to_vec", &got, &want));
    ensure!(
        msg.serialized_len() == want.len(),
        "serialized_len",
        "serialized_len {} != {}",
        msg.serialized_len(),
        want.len()
    );

    let mut w = Vec::new();
    msg.write_to(&mut w)
        .map_err(|e| Fail::new("write_to-err", e.to_string()))?;
    ensure!(w == want, "write_to", "{}", diff_msg("write_to", &w, &want));

    let mut dw = DribbleWriter::new(c.dribble as usize);
    msg.write_to(&mut dw)
        .map_err(|e| Fail::new("write_to-dribble-err", e.to_string()))?;
    ensure!(
        dw.out == want,
        "write_to-dribble",
        "{}",
        diff_msg("write_to(dribble)", &dw.out, &want)
    );

    let mut w = Vec::new();
    repe::write_message(&mut w, &msg).map_err(|e| Fail::new("write_message-err", e.to_string()))?;
    ensure!(
        w == want,
        "write_message",
        "{}",
        diff_msg("write_message", &w, &want)
    );
    let mut dw = DribbleWriter::new(c.dribble as usize);
    repe::write_message(&mut dw, &msg)
        .map_err(|e| Fail::new("write_message-dribble-err", e.to_string()))?;
    ensure!(
        dw.out == want,
        "write_message-dribble",
        "{}",
        diff_msg("write_message(dribble)", &dw.out, &want)
    );

    // Streaming writer: the three length fields of the passed header are garbage.
    let mut gh = msg.header;
    gh.length = c.garbage[0];
    gh.query_length = c.garbage[1];
    gh.body_length = c.garbage[2];
    let mut w = Vec::new();
    repe::write_message_streaming(&mut w, gh, &query, body.len() as u64, |w| {
        std::io::Write::write_all(w, &body)
    })
    .map_err(|e| Fail::new("write_message_streaming-err", e.to_string()))?;
    ensure!(
        w == want,
        "write_message_streaming",
        "{}",
        diff_msg("write_message_streaming", &w, &want)
    );

    // Async writer: Vec sink and a dribbling sink.
    let (wa, wb) = block_on(async {
        let mut a: Vec<u8> = Vec::new();
        let ra = repe::async_io::write_message_async(&mut a, &msg).await;
        let mut b = AsyncDribbleWriter::new(c.dribble as usize);
        let rb = repe::async_io::write_message_async(&mut b, &msg).await;
        (ra.map(|_| a), rb.map(|_| b.out))
    });
    let wa = wa.map_err(|e| Fail::new("write_message_async-err", e.to_string()))?;
    let wb = wb.map_err(|e| Fail::new("write_message_async-dribble-err", e.to_string()))?;
    ensure!(
        wa == want,
        "write_message_async",
        "{}",
        diff_msg("write_message_async", &wa, &want)
    );
    ensure!(
        wb == want,
        "write_message_async-dribble",
        "{}",
        diff_msg("write_message_async(dribble)", &wb, &want)
    );

    // into_wire_bytes: measured capacity decides in-place vs fresh.
    let m2 = c.message();
    let cap = m2.body.capacity();
    let total = want.len();
    let rel = if cap < total {
        "cap<total"
    } else if cap == total {
        "cap==total"
    } else {
        "cap>total"
    };
    let body_ptr = m2.body.as_ptr() as usize;
    let wire = m2.into_wire_bytes();
    ensure!(
        wire == want,
        format!("into_wire_bytes[{rel}]"),
        "{}",
        diff_msg(&format!("into_wire_bytes ({rel})"), &wire, &want)
    );
    let reused = wire.as_ptr() as usize == body_ptr && cap > 0;

    // --- parse side --------------------------------------------------------
    let dh = Header::decode(&want[..48])
        .map_err(|e| Fail::new("decode-rejects-valid", format!("Header::decode: {e}")))?;
    eq_hdr("Header::decode", &dh, &oh)?;

    let pm = Message::from_slice(&want)
        .map_err(|e| Fail::new("from_slice-rejects-valid", format!("Message::from_slice: {e}")))?;
    eq_hdr("Message::from_slice", &pm.header, &oh)?;
    ensure!(
        pm.query == query && pm.body == body,
        "from_slice-payload",
        "Message::from_slice payload mismatch"
    );
    ensure!(
        pm == msg,
        "from_slice-identity",
        "parsed message != original message"
    );
    let pm = Message::from_slice_exact(&want).map_err(|e| {
        Fail::new(
            "from_slice_exact-rejects-valid",
            format!("Message::from_slice_exact: {e}"),
        )
    })?;
    ensure!(pm == msg, "from_slice_exact-identity", "exact parse != original");

    let v = MessageView::from_slice(&want)
        .map_err(|e| Fail::new("view-rejects-valid", format!("MessageView::from_slice: {e}")))?;
    eq_hdr("MessageView::from_slice", &v.header, &oh)?;
    ensure!(
        v.query == &query[..] && v.body == &body[..],
        "view-payload",
        "MessageView payload mismatch"
    );
    ensure!(v.to_message() == msg, "view-to_message", "view.to_message() != original");
    let v = MessageView::from_slice_exact(&want).map_err(|e| {
        Fail::new(
            "view_exact-rejects-valid",
            format!("MessageView::from_slice_exact: {e}"),
        )
    })?;
    ensure!(
        v.query == &query[..] && v.body == &body[..],
        "view_exact-payload",
        "MessageView exact payload mismatch"
    );

    // Trailing bytes: non-exact parsers still succeed, exact ones reject.
    if c.trailing > 0 {
        let mut t = want.clone();
        t.extend(fill(c.trailing as usize, c.qseed ^ 0x55));
        let pm = Message::from_slice(&t)
            .map_err(|e| Fail::new("from_slice-trailing", format!("rejects trailing: {e}")))?;
        ensure!(pm == msg, "from_slice-trailing-identity", "trailing parse differs");
        let v = MessageView::from_slice(&t)
            .map_err(|e| Fail::new("view-trailing", format!("rejects trailing: {e}")))?;
        ensure!(
            v.query == &query[..] && v.body == &body[..],
            "view-trailing-payload",
            "view trailing payload"
        );
        ensure!(
            Message::from_slice_exact(&t).is_err(),
            "from_slice_exact-accepts-trailing",
            "from_slice_exact accepted {} trailing bytes",
            c.trailing
        );
        ensure!(
            MessageView::from_slice_exact(&t).is_err(),
            "view_exact-accepts-trailing",
            "MessageView::from_slice_exact accepted {} trailing bytes",
            c.trailing
        );
    }

    // Stream readers: Cursor, dribble, and async twins.
    let rm = repe::read_message(&mut Cursor::new(&want))
        .map_err(|e| Fail::new("read_message-rejects-valid", e.to_string()))?;
    ensure!(rm == msg, "read_message-identity", "read_message != original");
    let mut dr = DribbleReader::new(&want, c.dribble as usize);
    let rm = repe::read_message(&mut dr)
        .map_err(|e| Fail::new("read_message-dribble-rejects-valid", e.to_string()))?;
    ensure!(rm == msg, "read_message-dribble-identity", "read_message(dribble) != original");

    // The reused buffer first receives a LONGER frame, then this one: afterwards
    // it must hold exactly this frame (no stale tail from the previous read).
    let longer = {
        let mut b2 = body.clone();
        b2.extend(fill(1 + (c.trailing as usize) * 13, c.bseed ^ 0x77));
        codec::encode_frame(&oh, &query, &b2)
    };
    let mut buf = vec![0xEEu8; (c.trailing as usize) * 7];
    repe::read_message_into(&mut Cursor::new(&longer), &mut buf)
        .map_err(|e| Fail::new("read_message_into-rejects-valid", e.to_string()))?;
    ensure!(buf == longer, "read_message_into-bytes", "read_message_into (first use) differs");
    repe::read_message_into(&mut Cursor::new(&want), &mut buf)
        .map_err(|e| Fail::new("read_message_into-rejects-valid", e.to_string()))?;
    ensure!(
        buf == want,
        "read_message_into-bytes",
        "{}",
        diff_msg("read_message_into", &buf, &want)
    );
    let mut dr = DribbleReader::new(&want, c.dribble as usize);
    repe::read_message_into(&mut dr, &mut buf)
        .map_err(|e| Fail::new("read_message_into-dribble-rejects-valid", e.to_string()))?;
    ensure!(buf == want, "read_message_into-dribble-bytes", "read_message_into(dribble) differs");

    let (am, ab) = block_on(async {
        let mut r1 = DribbleReader::new(&want, c.dribble as usize);
        let m = repe::async_io::read_message_async(&mut r1).await;
        let mut r0 = DribbleReader::new(&longer, 4096);
        let mut b = vec![0xEEu8; 3];
        let r0 = repe::async_io::read_message_into_async(&mut r0, &mut b).await;
        let mut r2 = DribbleReader::new(&want, c.dribble as usize);
        let r = repe::async_io::read_message_into_async(&mut r2, &mut b).await;
        (m, r0.and(r).map(|_| b))
    });
    let am = am.map_err(|e| Fail::new("read_message_async-rejects-valid", e.to_string()))?;
    ensure!(am == msg, "read_message_async-identity", "read_message_async != original");
    let ab = ab.map_err(|e| Fail::new("read_message_into_async-rejects-valid", e.to_string()))?;
    ensure!(ab == want, "read_message_into_async-bytes", "read_message_into_async differs");

    // Two frames back to back on a stream: each reader consumes exactly one.
    let mut two = want.clone();
    two.extend_from_slice(&want);
    let mut cur = Cursor::new(&two);
    let a = repe::read_message(&mut cur).map_err(|e| Fail::new("read_message-two", e.to_string()))?;
    let b = repe::read_message(&mut cur).map_err(|e| Fail::new("read_message-two", e.to_string()))?;
    ensure!(a == msg && b == msg, "read_message-two-identity", "back-to-back frames differ");
    ensure!(
        cur.position() as usize == two.len(),
        "read_message-overread",
        "reader consumed {} of {}",
        cur.position(),
        two.len()
    );

    let nonzero = [
        c.version != 0,
        c.notify != 0,
        c.reserved != 0,
        c.id != 0,
        c.qf != 0,
        c.bf != 0,
        c.ec != 0,
    ]
    .iter()
    .filter(|x| **x)
    .count();
    let nontrivial = (c.qlen > 0 || c.blen > 0) && nonzero >= 4;
    Ok(CaseInfo::new(nontrivial)
        .class(format!("q={}", len_class(c.qlen)))
        .class(format!("b={}", len_class(c.blen)))
        .class(rel)
        .class(if reused { "iwb-in-place" } else { "iwb-fresh" }))
}

/// Encode-only side: `spec` full range; header encode must still follow the table.
#[derive(Debug, Clone, Serialize, Deserialize, Hash)]
pub struct HdrCase {
    pub h: OHeader,
}

pub fn hdr_case() -> BoxedStrategy<HdrCase> {
    (
        (any_u64_mix(), any_u16_mix(), any_u8_mix(), any_u8_mix(), any_u32_mix()),
        (any_u64_mix(), any_u64_mix(), any_u64_mix()),
        (any_u16_mix(), any_u16_mix(), any_u32_mix()),
        0u8..6,
    )
        .prop_map(
            |(
                (length, spec, version, notify, reserved),
                (id, query_length, body_length),
                (query_format, body_format, ec),
                mode,
            )| {
                let mut h = OHeader {
                    length,
                    spec,
                    version,
                    notify,
                    reserved,
                    id,
                    query_length,
                    body_length,
                    query_format,
                    body_format,
                    ec,
                };
                // modes 0..=2: make the header consistent (or off by one) so the
                // accept side of Header::decode is exercised, not only rejects.
                if mode <= 2 {
                    h.spec = codec::MAGIC;
                    h.query_length >>= 8;
                    h.body_length >>= 8;
                    let t = h.declared_total() as u64;
                    h.length = match mode {
                        0 => t,
                        1 => t.wrapping_add(1),
                        _ => t.wrapping_sub(1),
                    };
                }
                HdrCase { h }
            },
        )
        .boxed()
}

pub fn check_hdr(c: &HdrCase) -> CheckResult {
    let want = c.h.encode();
    let got = c.h.to_repe().encode();
    ensure!(
        got == want,
        "header-encode-arbitrary",
        "{}",
        diff_msg("Header::encode (arbitrary fields)", &got, &want)
    );
    // Decode agrees with the oracle on acceptance, and on fields when accepted.
    match Header::decode(&got) {
        Ok(h) => {
            ensure!(
                c.h.consistent(),
                "decode-accepts-inconsistent",
                "Header::decode accepted inconsistent header {:?}",
                c.h
            );
            eq_hdr("Header::decode", &h, &c.h)?;
        }
        Err(_) => {
            ensure!(
                !c.h.consistent(),
                "decode-rejects-consistent",
                "Header::decode rejected consistent header {:?}",
                c.h
            );
        }
    }
    let distinct = [c.h.length != 0, c.h.id != 0, c.h.reserved != 0, c.h.ec != 0]
        .iter()
        .filter(|x| **x)
        .count();
    Ok(CaseInfo::new(distinct >= 3).class(if c.h.spec == codec::MAGIC {
        "magic"
    } else {
        "other-spec"
    }))
}

/// Builder route: the projection of a logical message the builder can express.
#[derive(Debug, Clone, Serialize, Deserialize, Hash)]
pub struct BuilderCase {
    pub id: u64,
    pub notify: bool,
    pub ec_idx: u8,
    pub qf: u16,
    pub bf: u16,
    pub qlen: usize,
    pub qseed: u64,
    pub blen: usize,
    pub bseed: u64,
}

const ECS: [u32; 11] = [0, 1, 2, 3, 4, 5, 6, 7, 8, 9, 4096];

pub fn builder_case() -> BoxedStrategy<BuilderCase> {
    (
        any_u64_mix(),
        any::<bool>(),
        0u8..11,
        any_u16_mix(),
        any_u16_mix(),
        (payload_len(8192), any::<u64>(), payload_len(8192), any::<u64>()),
    )
        .prop_map(|(id, notify, ec_idx, qf, bf, (qlen, qseed, blen, bseed))| BuilderCase {
            id,
            notify,
            ec_idx,
            qf,
            bf,
            qlen,
            qseed,
            blen,
            bseed,
        })
        .boxed()
}

pub fn check_builder(c: &BuilderCase) -> CheckResult {
    let ecv = ECS[c.ec_idx as usize];
    let ec = repe::ErrorCode::try_from(ecv).expect("known code");
    let query = fill(c.qlen, c.qseed);
    let body = fill(c.blen, c.bseed);
    let msg = Message::builder()
        .id(c.id)
        .notify(c.notify)
        .error_code(ec)
        .query_format_code(c.qf)
        .body_format_code(c.bf)
        .query_bytes(query.clone())
        .body_bytes(body.clone())
        .build();
    let oh = OHeader {
        length: 0,
        spec: codec::MAGIC,
        version: 1,
        notify: c.notify as u8,
        reserved: 0,
        id: c.id,
        query_length: 0,
        body_length: 0,
        query_format: c.qf,
        body_format: c.bf,
        ec: ecv,
    };
    let want = codec::encode_frame(&oh, &query, &body);
    let got = msg.to_vec();
    ensure!(
        got == want,
        "builder-to_vec",
        "{}",
        diff_msg("builder.build().to_vec()", &got, &want)
    );
    ensure!(
        msg.header.length == want.len() as u64
            && msg.header.query_length == c.qlen as u64
            && msg.header.body_length == c.blen as u64,
        "builder-lengths",
        "builder length fields {:?}",
        msg.header
    );
    let wire = msg.into_wire_bytes();
    ensure!(wire == want, "builder-into_wire_bytes", "builder into_wire_bytes differs");
    Ok(CaseInfo::new(c.qlen > 0 || c.blen > 0).class(format!("q={}", len_class(c.qlen))))
}

/// Interop fixtures: decode, re-emit through every route, compare.
pub fn check_fixtures(rep: &Report) {
    let sub = "fixtures";
    let dir = std::path::Path::new("/repo/interop/fixtures");
    let Ok(rd) = std::fs::read_dir(dir) else {
        rep.mark_inconclusive("interop fixtures not found");
        return;
    };
    for ent in rd.flatten() {
        let p = ent.path();
        if p.extension().and_then(|e| e.to_str()) != Some("repe") {
            continue;
        }
        let bytes = std::fs::read(&p).unwrap_or_default();
        let name = p.file_name().unwrap().to_string_lossy().to_string();
        let res: Result<(), Fail> = (|| {
            let m = Message::from_slice_exact(&bytes)
                .map_err(|e| Fail::new("fixture-parse", format!("{name}: {e}")))?;
            ensure!(m.to_vec() == bytes, "fixture-to_vec", "{name}: to_vec differs");
            let mut w = Vec::new();
            repe::write_message(&mut w, &m).map_err(|e| Fail::new("fixture-write", e.to_string()))?;
            ensure!(w == bytes, "fixture-write_message", "{name}: write_message differs");
            ensure!(
                m.clone().into_wire_bytes() == bytes,
                "fixture-into_wire_bytes",
                "{name}: into_wire_bytes differs"
            );
            let oh = OHeader::raw(&bytes);
            eq_hdr("fixture", &m.header, &oh)?;
            Ok(())
        })();
        match res {
            Ok(()) => rep.record(sub, hash_of(&name), &CaseInfo::new(true), || {
                Value::String(name.clone())
            }),
            Err(f) => {
                rep.fail(sub, &Value::String(name.clone()), &f, 0);
            }
        }
    }
}

pub fn run(ctx: &Ctx, rep: &Report) {
    match codec::self_check_against_fixtures() {
        Ok(n) => rep.note(format!("oracle validated against {n} Glaze fixtures")),
        Err(e) => rep.mark_inconclusive(format!("oracle self-check failed: {e}")),
    }
    if ctx.want("fixtures") {
        check_fixtures(rep);
    }
    run_prop(
        ctx,
        rep,
        "pure",
        ctx.tier.pick(20_000, 3_200_000),
        &|| msg_case(65536),
        &check_pure,
    );
    run_prop(
        ctx,
        rep,
        "pure-large",
        ctx.tier.pick(24, 1_200),
        &|| msg_case(4 << 20),
        &check_pure,
    );
    run_prop(
        ctx,
        rep,
        "header",
        ctx.tier.pick(20_000, 3_200_000),
        &|| hdr_case(),
        &check_hdr,
    );
    run_prop(
        ctx,
        rep,
        "builder",
        ctx.tier.pick(5_000, 800_000),
        &|| builder_case(),
        &check_builder,
    );
    run_prop(
        ctx,
        rep,
        "wire",
        ctx.tier.pick(10_000, 1_600_000),
        &|| {
            (msg_case(4096), 0usize..4)
                .prop_map(|(c, trailing)| {
                    let mut bytes = codec::encode_frame(&c.oheader(), &c.query(), &fill(c.blen, c.bseed));
                    bytes.extend(fill(trailing * 7, c.qseed));
                    WireCase {
                        hex: bytes.iter().map(|b| format!("{b:02x}")).collect(),
                    }
                })
                .boxed()
        },
        &check_wire,
    );
    super::c01_net::run(ctx, rep);
}

pub fn replay(sub: &str, case: &Value) -> Result<(), Fail> {
    match sub {
        "pure" | "pure-large" => replay_case::<MsgCase>(case, &check_pure),
        "header" => replay_case::<HdrCase>(case, &check_hdr),
        "builder" => replay_case::<BuilderCase>(case, &check_builder),
        "wire" => replay_case::<WireCase>(case, &check_wire),
        s if s.starts_with("net-") => super::c01_net::replay(sub, case),
        _ => Err(Fail::new("replay-unknown-sub", sub.to_string())),
    }
}

/// Decode side of the round trip for verbatim wire bytes: whatever the independent
/// parser accepts as one frame, the crate must decode to the same fields and re-emit,
/// through every route, as exactly the same bytes.
#[derive(Debug, Clone, Serialize, Deserialize, Hash, PartialEq, Eq)]
pub struct WireCase {
    pub hex: String,
}

pub fn check_wire(c: &WireCase) -> CheckResult {
    let bytes: Vec<u8> = (0..c.hex.len() / 2).filter_map(|i| u8::from_str_radix(&c.hex[2 * i..2 * i + 2], 16).ok()).collect();
    let codec::Parse::Frame { trailing, .. } = codec::parse(&bytes) else {
        return Ok(CaseInfo::new(false).class("not-a-frame"));
    };
    let total = bytes.len() - trailing;
    let frame = &bytes[..total];
    let m = Message::from_slice(frame).map_err(|e| Fail::new("wire-parse", format!("a consistent frame was rejected: {e}")))?;
    let oh = OHeader::raw(frame);
    eq_hdr("wire", &m.header, &oh)?;
    ensure!(m.query == frame[48..48 + m.query.len()] && m.body == frame[48 + m.query.len()..], "wire-payload", "decoded query/body differ from the input bytes");
    ensure!(m.to_vec() == frame, "wire-to_vec", "to_vec differs from the decoded frame");
    let mut w = Vec::new();
    repe::write_message(&mut w, &m).map_err(|e| Fail::new("wire-write", e.to_string()))?;
    ensure!(w == frame, "wire-write_message", "write_message differs from the decoded frame");
    ensure!(m.clone().into_wire_bytes() == frame, "wire-into_wire_bytes", "into_wire_bytes differs from the decoded frame");
    let v = repe::MessageView::from_slice(frame).map_err(|e| Fail::new("wire-view", e.to_string()))?;
    ensure!(v.to_message().to_vec() == frame, "wire-view-to_message", "MessageView::to_message re-encodes differently");
    Ok(CaseInfo::new(total > 48).class(format!("total={}", len_class(total))))
}

pub fn fuzz_targets() -> Vec<crate::fuzz::Target> {
    use crate::fuzz::from_bytes;
    vec![from_bytes(
        "c01_wire",
        "C01",
        "wire",
        |data: &[u8]| {
            Some(WireCase {
                hex: data.iter().map(|b| format!("{b:02x}")).collect(),
            })
        },
        check_wire,
    )]
}
