//! C08 end-to-end sub-checks over loopback: bulk, aligned and generic clients
//! against bulk, borrowing and generic routes, sync and async.

use crate::engine::*;
use crate::ensure;
use crate::gens::fill;
use crate::util::block_on_mt as block_on;
use proptest::prelude::*;
use repe::{AsyncClient, AsyncServer, Client, ErrorCode, Router, Server, TypedResponse};
use serde::{Deserialize, Serialize};
use serde_json::Value;
use std::net::SocketAddr;
use std::sync::OnceLock;

#[derive(Debug, Clone, Copy, Serialize, Deserialize, Hash, PartialEq, Eq)]
pub enum Method {
    Slice,
    Aligned,
    Beve,
}

#[derive(Debug, Clone, Copy, Serialize, Deserialize, Hash, PartialEq, Eq)]
pub enum Route {
    Slice,
    SliceRef,
    Typed,
}

#[derive(Debug, Clone, Serialize, Deserialize, Hash, PartialEq, Eq)]
pub struct E2E {
    pub asynchronous_client: bool,
    pub asynchronous_server: bool,
    pub method: Method,
    pub route: Route,
    pub ty: u8,
    pub len: usize,
    pub seed: u64,
    /// extra path characters (varies the query length and with it the aligned padding)
    pub pad: usize,
}

fn router() -> Router {
    let mut r = Router::new();
    // routes for several query lengths so that every residue mod 8 occurs
    for pad in 0..9usize {
        let p = "x".repeat(pad);
        r = r
            .with_typed_slice::<f64, f64, _>(&format!("/s/f64/{p}"), |v: Vec<f64>| Ok(v))
            .with_typed_slice_ref::<f64, f64, _>(&format!("/r/f64/{p}"), |v: &[f64]| Ok(v.to_vec()))
            .with_typed::<Vec<f64>, Vec<f64>, _>(&format!("/t/f64/{p}"), |v: Vec<f64>| Ok::<_, (ErrorCode, String)>(TypedResponse::beve(v)))
            .with_typed_slice::<i32, i32, _>(&format!("/s/i32/{p}"), |v: Vec<i32>| Ok(v))
            .with_typed_slice_ref::<i32, i32, _>(&format!("/r/i32/{p}"), |v: &[i32]| Ok(v.to_vec()))
            .with_typed::<Vec<i32>, Vec<i32>, _>(&format!("/t/i32/{p}"), |v: Vec<i32>| Ok::<_, (ErrorCode, String)>(TypedResponse::beve(v)))
            .with_typed_slice::<u8, u8, _>(&format!("/s/u8/{p}"), |v: Vec<u8>| Ok(v))
            .with_typed_slice_ref::<u8, u8, _>(&format!("/r/u8/{p}"), |v: &[u8]| Ok(v.to_vec()))
            .with_typed::<Vec<u8>, Vec<u8>, _>(&format!("/t/u8/{p}"), |v: Vec<u8>| Ok::<_, (ErrorCode, String)>(TypedResponse::beve(v)));
    }
    r
}

static SERVERS: OnceLock<(SocketAddr, SocketAddr)> = OnceLock::new();

fn servers() -> (SocketAddr, SocketAddr) {
    *SERVERS.get_or_init(|| {
        let server = Server::new(router());
        let l = server.listen(crate::util::lo0().as_str()).unwrap();
        let a1 = l.local_addr().unwrap();
        std::thread::spawn(move || {
            let _ = server.serve(l);
        });
        let a2 = block_on(async {
            let l = AsyncServer::listen(crate::util::lo0().as_str()).await.unwrap();
            let a = l.local_addr().unwrap();
            tokio::spawn(async move {
                let _ = AsyncServer::new(router()).serve(l).await;
            });
            a
        });
        (a1, a2)
    })
}

macro_rules! run_ty {
    ($t:ty, $tyname:expr, $c:expr, $mk:expr, $bits:expr) => {{
        let c: &E2E = $c;
        let raw = fill(c.len * 8, c.seed);
        let xs: Vec<$t> = (0..c.len).map(|i| $mk(&raw[i * 8..i * 8 + 8])).collect();
        let prefix = match c.route {
            Route::Slice => "s",
            Route::SliceRef => "r",
            Route::Typed => "t",
        };
        let path = format!("/{prefix}/{}/{}", $tyname, "x".repeat(c.pad % 9));
        let (a_sync, a_async) = servers();
        let addr = if c.asynchronous_server { a_async } else { a_sync };
        let res: Result<Vec<$t>, String> = if c.asynchronous_client {
            block_on(async {
                let cl = AsyncClient::connect(addr).await.map_err(|e| e.to_string())?;
                match c.method {
                    Method::Slice => cl.call_typed_slice::<_, $t, $t>(&path, &xs).await,
                    Method::Aligned => cl.call_typed_slice_aligned::<_, $t, $t>(&path, &xs).await,
                    Method::Beve => cl.call_typed_beve::<_, Vec<$t>, Vec<$t>>(&path, &xs).await,
                }
                .map_err(|e| e.to_string())
            })
        } else {
            (|| {
                let cl = Client::connect(addr).map_err(|e| e.to_string())?;
                match c.method {
                    Method::Slice => cl.call_typed_slice::<_, $t, $t>(&path, &xs),
                    Method::Aligned => cl.call_typed_slice_aligned::<_, $t, $t>(&path, &xs),
                    Method::Beve => cl.call_typed_beve::<_, Vec<$t>, Vec<$t>>(&path, &xs),
                }
                .map_err(|e| e.to_string())
            })()
        };
        // the aligned wire form pairs only with the borrowing route (documented)
        if c.method == Method::Aligned && c.route != Route::SliceRef {
            ensure!(
                res.is_err() || res.as_ref().ok().map(|v| v.iter().map($bits).collect::<Vec<u64>>()) == Some(xs.iter().map($bits).collect::<Vec<u64>>()),
                "aligned-form-reinterpreted",
                "{} {:?}->{:?}: the aligned form sent to a non-borrowing route returned different elements",
                $tyname,
                c.method,
                c.route
            );
            return Ok(CaseInfo::new(false).class("aligned-vs-non-ref-route"));
        }
        let got = res.map_err(|e| {
            Fail::new(
                if c.len == 0 { "e2e-empty-failed" } else { "e2e-failed" },
                format!("{} x{} {:?}->{:?} (async client {}, async server {}): {e}", $tyname, c.len, c.method, c.route, c.asynchronous_client, c.asynchronous_server),
            )
        })?;
        ensure!(
            got.iter().map($bits).collect::<Vec<u64>>() == xs.iter().map($bits).collect::<Vec<u64>>(),
            "e2e-bits-differ",
            "{} x{} {:?}->{:?}: the echoed elements differ bit-for-bit",
            $tyname,
            c.len,
            c.method,
            c.route
        );
        Ok(CaseInfo::new(c.len == 0 || c.pad % 8 != 0)
            .class(format!("{:?}->{:?}", c.method, c.route))
            .class($tyname)
            .class(if c.len == 0 { "len=0" } else { "len>0" }))
    }};
}

pub fn check(c: &E2E) -> CheckResult {
    match c.ty % 3 {
        0 => run_ty!(f64, "f64", c, |b: &[u8]| f64::from_bits(u64::from_le_bytes(b.try_into().unwrap())), |x: &f64| x.to_bits()),
        1 => run_ty!(i32, "i32", c, |b: &[u8]| i32::from_le_bytes(b[..4].try_into().unwrap()), |x: &i32| *x as u32 as u64),
        _ => run_ty!(u8, "u8", c, |b: &[u8]| b[0], |x: &u8| *x as u64),
    }
}

fn e2e() -> BoxedStrategy<E2E> {
    (
        any::<bool>(),
        any::<bool>(),
        prop::sample::select(vec![Method::Slice, Method::Aligned, Method::Beve]),
        prop::sample::select(vec![Route::Slice, Route::SliceRef, Route::Typed]),
        0u8..3,
        prop_oneof![2 => Just(0usize), 3 => 1usize..10, 2 => 10usize..3000, 1 => 3000usize..70_000],
        any::<u64>(),
        0usize..9,
    )
        .prop_map(|(asynchronous_client, asynchronous_server, method, route, ty, len, seed, pad)| E2E {
            asynchronous_client,
            asynchronous_server,
            method,
            route,
            ty,
            len,
            seed,
            pad,
        })
        .boxed()
}

pub fn run(ctx: &Ctx, rep: &Report) {
    run_prop(ctx, rep, "net-e2e", ctx.tier.pick(600, 40_000), &|| e2e(), &check);
}

pub fn replay(sub: &str, case: &Value) -> Result<(), Fail> {
    match sub {
        "net-e2e" => replay_case::<E2E>(case, &check),
        _ => Err(Fail::new("replay-unknown-sub", sub.to_string())),
    }
}
