//! C02 remote sub-checks (filled in with the network peers).
use crate::engine::*;
use serde_json::Value;

pub fn run(_ctx: &Ctx, _rep: &Report) {}
pub fn child(_sub: &str) -> i32 {
    2
}
pub fn replay(sub: &str, _case: &Value) -> Result<(), Fail> {
    Err(Fail::new("replay-unknown-sub", sub.to_string()))
}
