//! C02 remote sub-checks: hostile headers sent to live servers (hosted in a child
//! process, so an abort is observed rather than suffered) and hostile replies sent
//! to live clients (also run inside a child).

use crate::engine::child::{child_loop, run_in_children};
use crate::engine::*;
use crate::ensure;
use crate::oracle::codec::{self, OHeader};
use crate::peers::net::*;
use crate::util::block_on_mt as block_on;
use repe::{AsyncClient, AsyncServer, Client, Router, Server, WebSocketClient, WebSocketServer};
use serde::{Deserialize, Serialize};
use serde_json::{Value, json};
use std::io::{BufRead, BufReader, Read, Write};
use std::process::{Command, Stdio};
use std::time::Duration;

#[derive(Debug, Clone, Copy, Serialize, Deserialize, Hash, PartialEq, Eq)]
pub enum Target {
    Server,
    AsyncServer,
    WsServer,
    Client,
    AsyncClient,
    WsClient,
}

#[derive(Debug, Clone, Serialize, Deserialize, Hash, PartialEq, Eq)]
pub struct Hostile {
    pub target: Target,
    pub length: u64,
    pub q: u64,
    pub b: u64,
    pub magic: bool,
    /// bytes of payload actually sent after the header
    pub avail: u16,
    /// send only this many bytes of the header (48 = whole)
    pub header_bytes: u8,
}

fn header_bytes(h: &Hostile, id: u64) -> Vec<u8> {
    let oh = OHeader {
        length: h.length,
        spec: if h.magic { codec::MAGIC } else { 0x0715 },
        version: 1,
        id,
        query_length: h.q,
        body_length: h.b,
        query_format: 1,
        body_format: 2,
        ..OHeader::default()
    };
    let mut v = oh.encode().to_vec();
    v.truncate(h.header_bytes.min(48) as usize);
    if h.header_bytes >= 48 {
        v.extend(std::iter::repeat_n(0x41u8, h.avail as usize));
    }
    v
}

fn ok_for_streams(h: &Hostile) -> bool {
    // consistent headers must stay memory-independent (<= 16 MiB or >= 2^62 per payload)
    let oh = OHeader {
        length: h.length,
        spec: codec::MAGIC,
        query_length: h.q,
        body_length: h.b,
        ..OHeader::default()
    };
    if !h.magic || !oh.consistent() {
        return true;
    }
    let ok = |x: u64| x <= (16 << 20) || x >= (1 << 62);
    ok(h.q) && ok(h.b)
}

pub fn hostile_classes() -> Vec<(u64, u64, u64, bool, u16, u8)> {
    // (length, q, b, magic, avail, header_bytes)
    vec![
        (48 + (1 << 62), 1 << 62, 0, true, 0, 48),
        (48 + (1 << 62), 0, 1 << 62, true, 10, 48),
        ((1 << 63) + 48, 0, 1 << 63, true, 0, 48),
        (u64::MAX, 0, u64::MAX - 48, true, 0, 48),
        (0, u64::MAX - 47, 0, true, 0, 48),
        (0, 0, u64::MAX - 1, true, 5, 48),
        (47, 0, u64::MAX, true, 0, 48),
        (48, u64::MAX, 1, true, 100, 48),
        (49, 0, 0, true, 1, 48),
        (48, 0, 0, false, 0, 48),
        (100, 52, 0, true, 10, 48),
        (48, 0, 0, true, 0, 20),
        (1 << 40, 1 << 39, 1 << 39, true, 0, 48),
    ]
}

// ---------------------------------------------------------------- servers

fn router() -> Router {
    Router::new().with_json("/ok", |v: Value| Ok(json!({"echo": v})))
}

/// Child: host the three servers, print their ports, then idle until stdin closes.
pub fn child(sub: &str) -> i32 {
    if sub == "remote-clients" {
        return child_loop::<Hostile>(&check_client);
    }
    if sub != "remote-servers" {
        return 2;
    }
    quiet_panics();
    let server = Server::new(router());
    let l = server.listen(crate::util::lo_base0().as_str()).unwrap();
    let p1 = l.local_addr().unwrap().port();
    std::thread::spawn(move || {
        let _ = server.serve(l);
    });
    let rt = tokio::runtime::Builder::new_multi_thread().worker_threads(2).enable_all().build().unwrap();
    let (p2, p3) = rt.block_on(async {
        let l2 = AsyncServer::listen(crate::util::lo_base0().as_str()).await.unwrap();
        let p2 = l2.local_addr().unwrap().port();
        tokio::spawn(async move {
            let _ = AsyncServer::new(router()).serve(l2).await;
        });
        let l3 = WebSocketServer::listen(crate::util::lo_base0().as_str()).await.unwrap();
        let p3 = l3.local_addr().unwrap().port();
        tokio::spawn(async move {
            let _ = WebSocketServer::new(router()).on_error(|_| {}).serve_listener(l3, "/repe").await;
        });
        (p2, p3)
    });
    println!("PORTS {p1} {p2} {p3}");
    let _ = std::io::stdout().flush();
    let mut sink = String::new();
    let _ = std::io::stdin().read_to_string(&mut sink);
    0
}

fn valid_call(target: Target, port: u16) -> Result<(), String> {
    match target {
        Target::Server | Target::AsyncServer => {
            let c = Client::connect((crate::util::lo(), port)).map_err(|e| format!("connect: {e}"))?;
            let v = c.call_json_with_timeout("/ok", &json!(5), Duration::from_secs(10)).map_err(|e| format!("call: {e}"))?;
            if v == json!({"echo": 5}) { Ok(()) } else { Err(format!("wrong answer {v}")) }
        }
        _ => block_on(async {
            let c = WebSocketClient::connect(&format!("ws://{}:{port}/repe", crate::util::lo())).await.map_err(|e| format!("connect: {e}"))?;
            let v = c.call_json_with_timeout("/ok", &json!(5), Duration::from_secs(10)).await.map_err(|e| format!("call: {e}"))?;
            if v == json!({"echo": 5}) { Ok(()) } else { Err(format!("wrong answer {v}")) }
        }),
    }
}

fn run_servers(ctx: &Ctx, rep: &Report) {
    let sub = "remote-servers";
    if !ctx.want(sub) {
        return;
    }
    let exe = match std::env::current_exe() {
        Ok(e) => e,
        Err(e) => return rep.mark_inconclusive(format!("current_exe: {e}")),
    };
    let spawn = || -> Option<(std::process::Child, [u16; 3])> {
        let mut child = Command::new(&exe)
            .args(["child", "C02", "remote-servers"])
            .stdin(Stdio::piped())
            .stdout(Stdio::piped())
            .stderr(Stdio::null())
            .spawn()
            .ok()?;
        let mut out = BufReader::new(child.stdout.take()?);
        let mut line = String::new();
        out.read_line(&mut line).ok()?;
        let p: Vec<u16> = line.strip_prefix("PORTS ")?.split_whitespace().filter_map(|x| x.parse().ok()).collect();
        if p.len() != 3 {
            return None;
        }
        Some((child, [p[0], p[1], p[2]]))
    };
    let Some((mut child, mut ports)) = spawn() else {
        return rep.mark_inconclusive("cannot start the server child");
    };
    for (i, (length, q, b, magic, avail, hb)) in hostile_classes().into_iter().enumerate() {
        for (ti, target) in [Target::Server, Target::AsyncServer, Target::WsServer].into_iter().enumerate() {
            let h = Hostile { target, length, q, b, magic, avail, header_bytes: hb };
            if !ok_for_streams(&h) {
                continue;
            }
            let port = ports[ti];
            // deliver the hostile bytes
            let bytes = header_bytes(&h, 500 + i as u64);
            match target {
                Target::Server | Target::AsyncServer => {
                    if let Ok(mut s) = std::net::TcpStream::connect((crate::util::lo(), port)) {
                        let _ = s.write_all(&bytes);
                        let _ = s.set_read_timeout(Some(Duration::from_millis(200)));
                        let mut buf = [0u8; 64];
                        let _ = s.read(&mut buf);
                    }
                }
                _ => {
                    let _ = block_on(async {
                        if let Ok((ws, _)) = repe::tokio_tungstenite::connect_async(format!("ws://{}:{port}/repe", crate::util::lo())).await {
                            let mut io = WsIo::new(ws);
                            let _ = io.send(&bytes).await;
                            let _ = tokio::time::timeout(Duration::from_millis(200), io.recv_raw()).await;
                        }
                    });
                }
            }
            // the process must have survived: a fresh connection gets a valid answer
            let alive = child.try_wait().ok().flatten().is_none();
            let call = if alive { valid_call(target, port) } else { Err("server process died".into()) };
            let case = serde_json::to_value(&h).unwrap();
            match call {
                Ok(()) => rep.record(sub, hash_of(&h), &CaseInfo::new(h.magic && h.header_bytes >= 48).class(format!("{target:?}")), || case.clone()),
                Err(e) => {
                    let died = child.try_wait().ok().flatten();
                    let f = Fail::new(
                        if died.is_some() { "remote-server-died" } else { "remote-server-unusable" },
                        format!("after a hostile header {h:?} the {target:?} no longer answers a valid call: {e} (process exit: {died:?})"),
                    );
                    rep.fail(sub, &case, &f, ctx.seed);
                    let _ = child.kill();
                    match spawn() {
                        Some((c2, p2)) => {
                            child = c2;
                            ports = p2;
                        }
                        None => return rep.mark_inconclusive("cannot restart the server child"),
                    }
                }
            }
        }
    }
    let _ = child.kill();
    let _ = child.wait();
    rep.set_exhaustive(sub, true);
}

// ---------------------------------------------------------------- clients

/// Runs inside a child: a scripted peer answers the client's call with a hostile
/// header; the call must return Err (and the process must live).
pub fn check_client(h: &Hostile) -> CheckResult {
    let bytes_for = |id: u64| header_bytes(h, id);
    let res: Result<Result<Value, String>, Fail> = block_on(async {
        let (listener, addr) = listen().await.map_err(|e| Fail::new("harness-listen", e.to_string()))?;
        match h.target {
            Target::Client => {
                let a = addr.to_string();
                let cl = tokio::task::spawn_blocking(move || Client::connect(a)).await.unwrap().map_err(|e| Fail::new("harness-connect", e.to_string()))?;
                let mut io = accept_tcp(&listener).await.map_err(|e| Fail::new("harness-accept", e.to_string()))?;
                let call = tokio::task::spawn_blocking(move || cl.call_json("/x", &json!(1)).map_err(|e| e.to_string()));
                let f = tokio::time::timeout(Duration::from_secs(10), io.recv()).await.map_err(|_| Fail::new("peer-script", "no request"))?.map_err(|e| Fail::new("peer-script", e.to_string()))?.ok_or_else(|| Fail::new("peer-script", "eof"))?;
                use tokio::io::AsyncWriteExt;
                let _ = io.stream.write_all(&bytes_for(f.header.id)).await;
                let _ = io.stream.flush().await;
                if h.header_bytes < 48 {
                    let _ = io.stream.shutdown().await;
                }
                let r = tokio::time::timeout(Duration::from_secs(10), call).await.map_err(|_| Fail::new("call-hangs", "the call did not return after a hostile reply"))?;
                Ok::<_, Fail>(r.map_err(|_| Fail::new("panic", "caller panicked"))?)
            }
            Target::AsyncClient => {
                let cl = AsyncClient::connect(addr).await.map_err(|e| Fail::new("harness-connect", e.to_string()))?;
                let mut io = accept_tcp(&listener).await.map_err(|e| Fail::new("harness-accept", e.to_string()))?;
                let call = tokio::spawn(async move { cl.call_json("/x", &json!(1)).await.map_err(|e| e.to_string()) });
                let f = tokio::time::timeout(Duration::from_secs(10), io.recv()).await.map_err(|_| Fail::new("peer-script", "no request"))?.map_err(|e| Fail::new("peer-script", e.to_string()))?.ok_or_else(|| Fail::new("peer-script", "eof"))?;
                use tokio::io::AsyncWriteExt;
                let _ = io.stream.write_all(&bytes_for(f.header.id)).await;
                let _ = io.stream.flush().await;
                if h.header_bytes < 48 {
                    let _ = io.stream.shutdown().await;
                }
                let r = tokio::time::timeout(Duration::from_secs(10), call).await.map_err(|_| Fail::new("call-hangs", "the call did not return after a hostile reply"))?;
                Ok(r.map_err(|_| Fail::new("panic", "caller panicked"))?)
            }
            _ => {
                let url = format!("ws://{addr}");
                let (cl, io) = tokio::join!(WebSocketClient::connect(&url), accept_ws(&listener));
                let cl = cl.map_err(|e| Fail::new("harness-connect", e.to_string()))?;
                let mut io = io.map_err(|e| Fail::new("harness-accept", e.to_string()))?;
                let call = tokio::spawn(async move { cl.call_json("/x", &json!(1)).await.map_err(|e| e.to_string()) });
                let f = tokio::time::timeout(Duration::from_secs(10), io.recv()).await.map_err(|_| Fail::new("peer-script", "no request"))?.map_err(|e| Fail::new("peer-script", e.to_string()))?.ok_or_else(|| Fail::new("peer-script", "eof"))?;
                let _ = io.send(&bytes_for(f.header.id)).await;
                let r = tokio::time::timeout(Duration::from_secs(10), call).await.map_err(|_| Fail::new("call-hangs", "the call did not return after a hostile reply"))?;
                Ok(r.map_err(|_| Fail::new("panic", "caller panicked"))?)
            }
        }
    });
    let r = res?;
    ensure!(
        r.is_err(),
        "hostile-reply-accepted",
        "{:?}: a call answered with the hostile header {:?} returned Ok({:?})",
        h.target,
        h,
        r
    );
    Ok(CaseInfo::new(h.magic && h.header_bytes >= 48).class(format!("{:?}", h.target)))
}

pub fn run(ctx: &Ctx, rep: &Report) {
    run_servers(ctx, rep);
    let mut cases = Vec::new();
    for (length, q, b, magic, avail, hb) in hostile_classes() {
        for target in [Target::Client, Target::AsyncClient, Target::WsClient] {
            let h = Hostile { target, length, q, b, magic, avail, header_bytes: hb };
            // a reply whose header is valid and whose (small) payload simply has not arrived
            // yet is a slow peer, not a malformed frame: only generate it with a close
            if ok_for_streams(&h) && !(magic && hb >= 48 && 48u128 + q as u128 + b as u128 == length as u128 && q + b <= (16 << 20) && (avail as u64) < q + b) {
                cases.push(h);
            }
        }
    }
    run_in_children(ctx, rep, "remote-clients", &cases, ctx.threads.min(6), true);
}

pub fn replay(sub: &str, case: &Value) -> Result<(), Fail> {
    match sub {
        "remote-clients" => {
            let c: Hostile = serde_json::from_value(case.clone()).map_err(|e| Fail::new("replay-decode", e.to_string()))?;
            let ctx = Ctx { prop: "C02", tier: Tier::Quick, seed: 0, threads: 1, only: None };
            let rep = Report::new("C02", "exploration", "replay");
            run_in_children(&ctx, &rep, "remote-clients", &[c], 1, false);
            if rep.violations() > 0 { Err(Fail::new("replay", "violation reproduced (see above)")) } else { Ok(()) }
        }
        "remote-servers" => {
            let ctx = Ctx { prop: "C02", tier: Tier::Quick, seed: 0, threads: 1, only: Some("remote-servers".into()) };
            let rep = Report::new("C02", "exploration", "replay");
            run_servers(&ctx, &rep);
            if rep.violations() > 0 { Err(Fail::new("replay", "violation reproduced (see above)")) } else { Ok(()) }
        }
        _ => Err(Fail::new("replay-unknown-sub", sub.to_string())),
    }
}
