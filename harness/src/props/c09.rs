//! C09 — a pulled value stream reproduces the producer's bytes exactly and ends once.

use crate::engine::*;
use crate::ensure;
use crate::gens::fill;
use proptest::prelude::*;
use repe::message::Message;
use repe::value_stream::{Compression, ROUTE_CANCEL, ROUTE_NEXT, ROUTE_OPEN, RouterValueStreamExt, StreamOpts};
use repe::{BodyFormat, Complex, QueryFormat, Router};
use serde::{Deserialize, Serialize};
use serde_json::Value;
use std::io::{Read, Write};

pub const RULE: &str = "(raw) for generated (chunk size in {1,2,3,7,8,64,1000,4096,65536,2^20}, payload length at every boundary residue k*c-1,k*c,k*c+1 for k=1..5 plus 0,1 and uniform, channel depth 0..8, compression none|zstd, producer kind value|typed array|complex array|reader (with short reads)|writer (generated write sizes), optional producer failure after n bytes, consumer pacing) the /_svs/open,/next,/cancel handlers obtained through Router::get are driven directly: concatenated chunk bodies (after zstd decode) equal the producer's logical bytes, exactly one response carries the end marker and it is the last, empty uncompressed payload = one empty final chunk, next after the end / after cancel / unknown id is an error, a producer failure ends in an error with no end marker and only a prefix delivered; (pullers) pull_to_vec / pull_value / pull_typed_slice / pull_complex_slice and their async forms over Client, AsyncClient and WebSocketClient against Server and the WebSocket server return exactly the logical bytes/value or Err under failure; non-trivial = more than one chunk, or an exact multiple, or empty, or failure injected, or depth 0; distinct = case hash";

#[derive(Debug, Clone, Copy, Serialize, Deserialize, Hash, PartialEq, Eq)]
pub enum Kind {
    Value,
    Typed,
    Complex,
    Reader { short: u8 },
    Writer { piece: u16 },
}

#[derive(Debug, Clone, Serialize, Deserialize, Hash, PartialEq, Eq)]
pub struct Case {
    pub kind: Kind,
    pub chunk: usize,
    /// Logical payload size parameter (bytes for reader/writer, elements otherwise).
    pub len: usize,
    pub seed: u64,
    pub depth: usize,
    pub zstd: bool,
    /// Fail the producer after this many logical bytes (reader/writer kinds only).
    pub fail_after: Option<usize>,
    /// The injected producer failure is a panic instead of an `Err` return.
    #[serde(default)]
    pub fail_by_panic: bool,
    /// Consumer yields between `next`s (0 = none).
    pub pace: u8,
    /// After how many chunks to issue a cancel instead of continuing (None = drain).
    pub cancel_after: Option<u8>,
}

#[derive(Serialize, Deserialize)]
struct OpenRequest {
    resource: String,
}
#[derive(Serialize, Deserialize)]
struct OpenResponse {
    version: u8,
    stream_id: u64,
    format: u16,
    compression: u8,
}
#[derive(Serialize, Deserialize)]
struct NextRequest {
    stream_id: u64,
}
#[derive(Serialize, Deserialize)]
struct CancelRequest {
    stream_id: u64,
    reason: String,
}

#[derive(Serialize, Deserialize, Debug, Clone, PartialEq)]
pub struct Doc {
    pub name: String,
    pub blob: Vec<u8>,
    pub nums: Vec<i64>,
    pub nested: Vec<(u8, String)>,
}

pub fn doc(len: usize, seed: u64) -> Doc {
    Doc {
        name: format!("doc-{seed}"),
        blob: fill(len, seed),
        nums: (0..(len / 7) as i64).map(|i| i * 31 - seed as i64 % 97).collect(),
        nested: (0..(len / 50)).map(|i| (i as u8, format!("s{i}"))).collect(),
    }
}

struct FailingReader {
    data: Vec<u8>,
    pos: usize,
    short: usize,
    fail_after: Option<usize>,
    panic: bool,
}

impl Read for FailingReader {
    fn read(&mut self, out: &mut [u8]) -> std::io::Result<usize> {
        if let Some(f) = self.fail_after
            && self.pos >= f
        {
            if self.panic {
                panic!("injected producer panic");
            }
            return Err(std::io::Error::other("injected producer failure"));
        }
        let mut n = out.len().min(self.data.len() - self.pos);
        if self.short > 0 {
            n = n.min(self.short);
        }
        if let Some(f) = self.fail_after {
            n = n.min(f - self.pos);
        }
        out[..n].copy_from_slice(&self.data[self.pos..self.pos + n]);
        self.pos += n;
        Ok(n)
    }
}

/// The producer's logical bytes `L` (None where equality is judged by decoding).
pub fn logical(c: &Case) -> Vec<u8> {
    match c.kind {
        Kind::Reader { .. } | Kind::Writer { .. } => fill(c.len, c.seed),
        Kind::Typed => {
            let xs: Vec<f64> = (0..c.len).map(|i| f64::from_bits(c.seed.wrapping_mul(i as u64 + 1))).collect();
            beve::to_vec_typed_slice(&xs)
        }
        Kind::Complex => {
            let xs: Vec<Complex<f32>> = (0..c.len)
                .map(|i| Complex {
                    re: f32::from_bits((c.seed as u32).wrapping_mul(i as u32 + 1)),
                    im: i as f32,
                })
                .collect();
            beve::to_vec_complex_slice(&xs)
        }
        Kind::Value => beve::to_vec(&doc(c.len, c.seed)).unwrap(),
    }
}

pub fn opts(c: &Case) -> StreamOpts {
    StreamOpts {
        chunk_bytes: c.chunk,
        compression: if c.zstd { Compression::Zstd } else { Compression::None },
        zstd_level: 1,
        session_depth: c.depth,
    }
}

pub fn router_for(c: &Case) -> Router {
    let o = opts(c);
    let c2 = c.clone();
    match c.kind {
        Kind::Value => Router::new().with_value_stream(move |r: &str| (r == "res").then(|| doc(c2.len, c2.seed)), o),
        Kind::Typed => Router::new().with_typed_value_stream(
            move |r: &str| {
                (r == "res").then(|| {
                    (0..c2.len)
                        .map(|i| f64::from_bits(c2.seed.wrapping_mul(i as u64 + 1)))
                        .collect::<Vec<f64>>()
                })
            },
            o,
        ),
        Kind::Complex => Router::new().with_complex_value_stream(
            move |r: &str| {
                (r == "res").then(|| {
                    (0..c2.len)
                        .map(|i| Complex {
                            re: f32::from_bits((c2.seed as u32).wrapping_mul(i as u32 + 1)),
                            im: i as f32,
                        })
                        .collect::<Vec<Complex<f32>>>()
                })
            },
            o,
        ),
        Kind::Reader { short } => Router::new().with_reader_stream(
            move |r: &str| {
                (r == "res").then(|| FailingReader {
                    data: fill(c2.len, c2.seed),
                    pos: 0,
                    short: short as usize,
                    fail_after: c2.fail_after,
                    panic: c2.fail_by_panic,
                })
            },
            o,
        ),
        Kind::Writer { piece } => Router::new().with_writer_stream(
            BodyFormat::RawBinary,
            move |r: &str| {
                let c3 = c2.clone();
                (r == "res").then(move || {
                    move |w: &mut dyn Write| -> std::io::Result<()> {
                        let data = fill(c3.len, c3.seed);
                        let mut pos = 0;
                        let mut k = 0usize;
                        while pos < data.len() {
                            if let Some(f) = c3.fail_after
                                && pos >= f
                            {
                                if c3.fail_by_panic {
                                    panic!("injected producer panic");
                                }
                                return Err(std::io::Error::other("injected producer failure"));
                            }
                            // varying piece sizes around `piece`
                            k += 1;
                            let mut n = ((piece as usize).max(1) + (k * 7) % 5).min(data.len() - pos);
                            if let Some(f) = c3.fail_after {
                                n = n.min(f - pos).max(if f > pos { 1 } else { 0 });
                            }
                            w.write_all(&data[pos..pos + n])?;
                            pos += n;
                        }
                        Ok(())
                    }
                })
            },
            o,
        ),
    }
}

fn req(path: &str, id: u64, body: Vec<u8>) -> Message {
    Message::builder()
        .id(id)
        .query_str(path)
        .query_format(QueryFormat::JsonPointer)
        .body_bytes(body)
        .body_format(BodyFormat::Beve)
        .build()
}

fn is_error(m: &Message) -> bool {
    m.header.ec != 0
}

pub fn check_raw(c: &Case) -> CheckResult {
    let router = router_for(c);
    let open_h = router.get(ROUTE_OPEN).ok_or_else(|| Fail::new("route-missing", "open"))?;
    let next_h = router.get(ROUTE_NEXT).ok_or_else(|| Fail::new("route-missing", "next"))?;
    let cancel_h = router.get(ROUTE_CANCEL).ok_or_else(|| Fail::new("route-missing", "cancel"))?;
    let l = logical(c);
    let failing = c.fail_after.is_some() && matches!(c.kind, Kind::Reader { .. } | Kind::Writer { .. });

    // unknown resource is an error
    let r = open_h
        .handle(&req(ROUTE_OPEN, 1, beve::to_vec(&OpenRequest { resource: "nope".into() }).unwrap()))
        .map_err(|e| Fail::new("open-handler-error", e.to_string()))?;
    ensure!(is_error(&r), "open-unknown-resource-accepted", "open of an unknown resource succeeded");
    // unknown stream id is an error
    let r = next_h
        .handle(&req(ROUTE_NEXT, 2, beve::to_vec(&NextRequest { stream_id: 987_654 }).unwrap()))
        .map_err(|e| Fail::new("next-handler-error", e.to_string()))?;
    ensure!(is_error(&r), "next-unknown-id-accepted", "next with an unknown stream id succeeded");

    let r = open_h
        .handle(&req(ROUTE_OPEN, 3, beve::to_vec(&OpenRequest { resource: "res".into() }).unwrap()))
        .map_err(|e| Fail::new("open-handler-error", e.to_string()))?;
    ensure!(!is_error(&r), "open-failed", "open failed: {}", String::from_utf8_lossy(&r.body));
    let open: OpenResponse = r.beve_body().map_err(|e| Fail::new("open-response-decode", e.to_string()))?;
    ensure!(
        open.compression == c.zstd as u8,
        "open-compression-tag",
        "open reports compression {} for zstd={}",
        open.compression,
        c.zstd
    );
    let want_format = match c.kind {
        Kind::Reader { .. } | Kind::Writer { .. } => BodyFormat::RawBinary as u16,
        _ => BodyFormat::Beve as u16,
    };
    ensure!(open.format == want_format, "open-format-tag", "open reports format {}", open.format);
    let next_body = beve::to_vec(&NextRequest { stream_id: open.stream_id }).unwrap();

    let mut chunks: Vec<Vec<u8>> = Vec::new();
    let mut last_seen = false;
    let mut errored = false;
    let mut cancelled = false;
    let mut id = 10u64;
    loop {
        if let Some(k) = c.cancel_after
            && chunks.len() == k as usize
        {
            let r = cancel_h
                .handle(&req(
                    ROUTE_CANCEL,
                    id,
                    beve::to_vec(&CancelRequest { stream_id: open.stream_id, reason: "harness".into() }).unwrap(),
                ))
                .map_err(|e| Fail::new("cancel-handler-error", e.to_string()))?;
            ensure!(!is_error(&r), "cancel-failed", "cancel answered an error");
            cancelled = true;
            break;
        }
        for _ in 0..c.pace {
            std::thread::yield_now();
        }
        id += 1;
        let r = next_h
            .handle(&req(ROUTE_NEXT, id, next_body.clone()))
            .map_err(|e| Fail::new("next-handler-error", e.to_string()))?;
        ensure!(r.header.id == id, "next-response-id", "response id {} for request {id}", r.header.id);
        if is_error(&r) {
            errored = true;
            break;
        }
        ensure!(
            r.query.len() == 1 && r.query[0] <= 1,
            "next-flag-shape",
            "next response query is {:?}, expected one byte 0/1",
            r.query
        );
        let last = r.query[0] == 1;
        chunks.push(r.body);
        if last {
            last_seen = true;
            break;
        }
        ensure!(chunks.len() < 4 * (l.len() / c.chunk.max(1) + 64), "stream-does-not-end", "far more chunks than the payload can need");
    }
    // after the end / failure / cancel, another `next` is an error
    for _ in 0..2 {
        id += 1;
        let r = next_h
            .handle(&req(ROUTE_NEXT, id, next_body.clone()))
            .map_err(|e| Fail::new("next-handler-error", e.to_string()))?;
        ensure!(
            is_error(&r),
            if cancelled { "next-after-cancel-accepted" } else { "next-past-end-accepted" },
            "a next after the stream {} returned a chunk (flag {:?}, {} bytes)",
            if cancelled { "was cancelled" } else if errored { "failed" } else { "ended" },
            r.query,
            r.body.len()
        );
    }

    // A later stream on the same producer: the finished/cancelled stream's id must
    // stay dead (next -> error) and a late cancel for it must not disturb the new one.
    if !failing {
        let r = open_h
            .handle(&req(ROUTE_OPEN, 500, beve::to_vec(&OpenRequest { resource: "res".into() }).unwrap()))
            .map_err(|e| Fail::new("open-handler-error", e.to_string()))?;
        ensure!(!is_error(&r), "open-failed", "second open failed");
        let open2: OpenResponse = r.beve_body().map_err(|e| Fail::new("open-response-decode", e.to_string()))?;
        let r = next_h
            .handle(&req(ROUTE_NEXT, 501, next_body.clone()))
            .map_err(|e| Fail::new("next-handler-error", e.to_string()))?;
        ensure!(
            is_error(&r),
            "stale-id-revived",
            "after a later open (id {}), next on the finished/released stream id {} returned a chunk of {} bytes",
            open2.stream_id,
            open.stream_id,
            r.body.len()
        );
        let _ = cancel_h.handle(&req(
            ROUTE_CANCEL,
            502,
            beve::to_vec(&CancelRequest { stream_id: open.stream_id, reason: "late".into() }).unwrap(),
        ));
        let nb2 = beve::to_vec(&NextRequest { stream_id: open2.stream_id }).unwrap();
        let mut got2: Vec<u8> = Vec::new();
        let mut n2 = 0usize;
        loop {
            n2 += 1;
            let r = next_h
                .handle(&req(ROUTE_NEXT, 510 + n2 as u64, nb2.clone()))
                .map_err(|e| Fail::new("next-handler-error", e.to_string()))?;
            ensure!(
                !is_error(&r),
                "late-cancel-kills-new-stream",
                "the second stream (id {}) failed after a late cancel of the first (id {}): {}",
                open2.stream_id,
                open.stream_id,
                String::from_utf8_lossy(&r.body)
            );
            got2.extend_from_slice(&r.body);
            if r.query.first() == Some(&1) {
                break;
            }
            ensure!(n2 < 4 * (l.len() / c.chunk.max(1) + 64), "stream-does-not-end", "second stream does not end");
        }
        let content2 = if c.zstd {
            zstd::stream::decode_all(&got2[..]).map_err(|e| Fail::new("zstd-decode", format!("second stream: {e}")))?
        } else {
            got2
        };
        if !matches!(c.kind, Kind::Value) {
            ensure!(content2 == l, "second-stream-bytes-differ", "the second stream's bytes differ from the producer's");
        }
    }

    let delivered: Vec<u8> = chunks.concat();
    let nchunks = chunks.len();
    if cancelled {
        // prefix only
        if !c.zstd {
            ensure!(l.starts_with(&delivered), "cancelled-not-prefix", "bytes delivered before cancel are not a prefix of the producer's bytes");
        }
    } else if failing && !errored {
        // The injected failure point is strictly inside the payload, so the producer
        // cannot have finished: an end marker here means the failure was masked.
        return Err(Fail::new(
            "producer-failure-masked",
            format!(
                "the producer failed after {} of {} bytes but the stream ended with an end marker ({} bytes delivered)",
                c.fail_after.unwrap(),
                c.len,
                delivered.len()
            ),
        ));
    } else if errored {
        ensure!(
            failing,
            "unexpected-stream-error",
            "next returned an error although no failure was injected (after {nchunks} chunks)"
        );
        ensure!(!last_seen, "end-marker-and-error", "both an end marker and an error");
        if !c.zstd {
            ensure!(
                l.starts_with(&delivered),
                "failure-not-prefix",
                "bytes delivered before the failure are not a prefix of the producer's bytes"
            );
        }
    } else {
        ensure!(last_seen, "no-end-marker", "stream ended without an end marker");
        let content = if c.zstd {
            zstd::stream::decode_all(&delivered[..]).map_err(|e| {
                Fail::new("zstd-decode", format!("delivered bytes are not a complete zstd frame: {e}"))
            })?
        } else {
            delivered.clone()
        };
        match c.kind {
            Kind::Value => {
                let got: Doc = beve::from_slice(&content)
                    .map_err(|e| Fail::new("value-decode", format!("pulled bytes do not decode: {e}")))?;
                ensure!(got == doc(c.len, c.seed), "value-differs", "decoded value differs from the producer's");
            }
            _ => {
                ensure!(
                    content == l,
                    "bytes-differ",
                    "{}",
                    crate::util::diff_msg("pulled bytes vs producer bytes", &content, &l)
                );
            }
        }
        if l.is_empty() && !c.zstd {
            ensure!(
                nchunks == 1 && chunks[0].is_empty(),
                "empty-payload-shape",
                "an empty payload produced {nchunks} chunks (sizes {:?})",
                chunks.iter().map(|c| c.len()).collect::<Vec<_>>()
            );
        }
    }

    let exact_multiple = !l.is_empty() && l.len() % c.chunk == 0;
    let nontrivial = nchunks > 1 || exact_multiple || l.is_empty() || failing || c.depth == 0;
    Ok(CaseInfo::new(nontrivial)
        .class(match c.kind {
            Kind::Value => "value",
            Kind::Typed => "typed",
            Kind::Complex => "complex",
            Kind::Reader { .. } => "reader",
            Kind::Writer { .. } => "writer",
        })
        .class(if c.zstd { "zstd" } else { "none" })
        .class(match nchunks {
            0 => "chunks=0",
            1 => "chunks=1",
            2..=5 => "chunks=2-5",
            _ => "chunks>5",
        })
        .class(if exact_multiple { "exact-multiple" } else { "ragged" })
        .class(if errored { "failed" } else if cancelled { "cancelled" } else { "clean" })
        .class(format!("depth={}", c.depth.min(3))))
}

fn chunk_size() -> BoxedStrategy<usize> {
    prop_oneof![
        6 => prop::sample::select(vec![1usize, 2, 3, 7, 8, 64, 1000, 4096]),
        1 => prop::sample::select(vec![65536usize, 1 << 20]),
    ]
    .boxed()
}

pub fn case() -> BoxedStrategy<Case> {
    (chunk_size(), 0usize..9, any::<bool>(), any::<u64>())
        .prop_flat_map(|(chunk, depth, zstd, seed)| {
            // payload length at every boundary residue
            let byte_len = prop_oneof![
                1 => Just(0usize),
                1 => Just(1usize),
                6 => (1usize..=5, 0usize..3).prop_map(move |(k, d)| (k * chunk + d).saturating_sub(1).min(3 << 20)),
                2 => 0usize..(4 * chunk.min(4096) + 2),
            ];
            let kind = prop_oneof![
                1 => Just(Kind::Value),
                1 => Just(Kind::Typed),
                1 => Just(Kind::Complex),
                3 => (0u8..9).prop_map(|short| Kind::Reader { short }),
                3 => (1u16..300).prop_map(|piece| Kind::Writer { piece }),
            ];
            (Just(chunk), Just(depth), Just(zstd), Just(seed), byte_len, kind, any::<u32>(), 0u8..3, prop::option::weighted(0.1, 0u8..4))
        })
        .prop_map(|(chunk, depth, zstd, seed, byte_len, kind, fsel, pace, cancel_after)| {
            let len = match kind {
                Kind::Reader { .. } | Kind::Writer { .. } => byte_len,
                Kind::Typed => byte_len / 8,
                Kind::Complex => byte_len / 8,
                Kind::Value => byte_len.min(200_000),
            };
            let fail_after = match kind {
                Kind::Reader { .. } | Kind::Writer { .. } if fsel % 4 == 0 && len > 0 => {
                    // at a chunk boundary +-1, or anywhere
                    let at = match (fsel >> 2) % 3 {
                        0 => ((fsel as usize >> 4) % (len / chunk.max(1) + 1)) * chunk,
                        1 => (((fsel as usize >> 4) % (len / chunk.max(1) + 1)) * chunk).saturating_sub(1),
                        _ => (fsel as usize >> 4) % len,
                    };
                    Some(at.min(len - 1))
                }
                _ => None,
            };
            Case {
                kind,
                chunk,
                len,
                seed,
                depth,
                zstd,
                fail_after,
                fail_by_panic: fail_after.is_some() && (fsel >> 12) % 3 == 0,
                pace,
                cancel_after: if fail_after.is_some() { None } else { cancel_after },
            }
        })
        .boxed()
}

pub fn run(ctx: &Ctx, rep: &Report) {
    run_prop(ctx, rep, "raw", ctx.tier.pick(5_000, 300_000), &|| case(), &check_raw);
    super::c09_net::run(ctx, rep);
}

pub fn replay(sub: &str, case: &Value) -> Result<(), Fail> {
    match sub {
        "raw" => replay_case::<Case>(case, &check_raw),
        s if s.starts_with("pull") => super::c09_net::replay(s, case),
        _ => Err(Fail::new("replay-unknown-sub", sub.to_string())),
    }
}
