//! C05 WebSocket-server sub-check: inline and off-reader responses, notifies pushed
//! by handlers and broadcasts from another thread all go through one connection
//! while the peer stalls; every WebSocket message the peer receives must be exactly
//! one whole frame, byte-for-byte the image of one message the server side issued.

use crate::engine::*;
use crate::ensure;
use crate::oracle::codec::{self, OHeader};
use crate::peers::dws;
use crate::peers::net::frame_with;
use crate::util::block_on_mt as block_on;
use futures_util::{SinkExt, StreamExt};
use proptest::prelude::*;
use repe::tokio_tungstenite::tungstenite::Message as WsMessage;
use repe::websocket_server::WebSocketServer;
use repe::server::{Execution, HandlerErased};
use repe::{BodyFormat, CallContext, Message, NotifyBody, PeerRegistry, RepeError, Router};
use serde::{Deserialize, Serialize};
use serde_json::Value;
use std::sync::{Arc, Mutex};
use std::time::Duration;

const SIZES: [usize; 10] = [0, 1, 100, 4095, 4096, 4097, 65_536, 70_001, 1 << 20, 3 << 20];

#[derive(Debug, Clone, Serialize, Deserialize, Hash, PartialEq, Eq)]
pub struct Req {
    pub off_reader: bool,
    pub size: u8,
    /// notifies the handler pushes to its caller before answering
    pub pushes: Vec<u8>,
}

#[derive(Debug, Clone, Serialize, Deserialize, Hash, PartialEq, Eq)]
pub struct WsCase {
    pub reqs: Vec<Req>,
    /// broadcasts issued from another thread while the requests are in flight
    pub broadcasts: Vec<u8>,
    /// the peer stops reading for this long after the first message
    pub stall_ms: u8,
    /// duplex pipe size selector
    pub buf: u8,
    /// outbound queue capacity selector
    pub capacity: u8,
    /// assumed peer frame limit: 0 = the default (16 MiB), otherwise 60 000 bytes, so
    /// that some responses are replaced by the server's own error reply
    #[serde(default)]
    pub low_limit: bool,
}

/// (path, body length, fill byte, queued successfully)
type Pushed = Arc<Mutex<Vec<(&'static str, usize, u8, bool)>>>;

struct Work {
    off_reader: bool,
    pushed: Pushed,
}

impl HandlerErased for Work {
    fn handle(&self, req: &Message) -> Result<Message, RepeError> {
        let len = u32::from_le_bytes(req.body[..4].try_into().unwrap()) as usize;
        Ok(Message::builder()
            .id(req.header.id)
            .query_format(repe::QueryFormat::JsonPointer)
            .body_bytes(vec![req.body[4]; len])
            .body_format_code(0x7005)
            .build())
    }
    fn handle_with_ctx(&self, req: &Message, ctx: &CallContext) -> Result<Message, RepeError> {
        let n = req.body[5] as usize;
        for k in 0..n {
            let at = 6 + k * 5;
            let len = u32::from_le_bytes(req.body[at..at + 4].try_into().unwrap()) as usize;
            let f = req.body[at + 4];
            let ok = match ctx.peer() {
                Some(p) => p.send_notify("/pushed", NotifyBody::Raw(vec![f; len], BodyFormat::RawBinary)).is_ok(),
                None => false,
            };
            self.pushed.lock().unwrap().push(("/pushed", len, f, ok));
        }
        self.handle(req)
    }
    fn execution(&self) -> Execution {
        if self.off_reader { Execution::OffReader } else { Execution::Inline }
    }
}

fn image(id: u64, notify: u8, path: &str, body_format: u16, len: usize, fill: u8) -> Vec<u8> {
    let h = OHeader {
        spec: codec::MAGIC,
        version: 1,
        notify,
        id,
        query_format: 1,
        body_format,
        ..OHeader::default()
    };
    codec::encode_frame(&h, path.as_bytes(), &vec![fill; len])
}

/// What the raw peer saw for one generated scenario.
pub struct Observed {
    /// every binary message, in arrival order
    pub messages: Vec<Vec<u8>>,
    /// the byte image of the response expected for request i (id i+1)
    pub expected_responses: Vec<Vec<u8>>,
    /// notifies the server side issued: (path, body length, fill, queued successfully)
    pub issued: Vec<(&'static str, usize, u8, bool)>,
    /// did the connection end (server closed) before the peer stopped listening?
    pub ended: bool,
    /// the server's assumed peer frame limit, if lowered
    pub limit: Option<usize>,
}

pub fn observe(c: &WsCase) -> Result<Observed, Fail> {
    let pushed: Pushed = Arc::new(Mutex::new(Vec::new()));
    let router = Router::new()
        .with_erased_handler(
            "/inline",
            Arc::new(Work {
                off_reader: false,
                pushed: pushed.clone(),
            }),
        )
        .with_erased_handler(
            "/off",
            Arc::new(Work {
                off_reader: true,
                pushed: pushed.clone(),
            }),
        );
    let peers = PeerRegistry::new();
    let capacity = [1usize, 2, 8, 64, 1024][c.capacity as usize % 5];
    let buf = [1usize << 10, 1 << 14, 1 << 16, 1 << 20][c.buf as usize % 4];
    let limit: Option<usize> = c.low_limit.then_some(60_000);
    let mut server = WebSocketServer::new(router);
    if let Some(l) = limit {
        server = server.with_limits(repe::WebSocketLimits::default().with_assumed_peer_frame_limit(Some(l)));
    }
    let shared = server
        .with_outbound_capacity(capacity)
        // no cap on off-reader handlers: a handler keeps its slot until its response is
        // queued, so a stalled peer could otherwise turn the 17th request into a
        // (legitimate) ResourceExhausted answer that is no issued image
        .with_offreader_limit(0)
        .with_peer_registry(peers.clone())
        .on_error(|_| {})
        .into_shared();
    // request frames and the response images expected for them
    let mut requests = Vec::new();
    let mut expected_responses = Vec::new();
    for (i, r) in c.reqs.iter().enumerate() {
        let id = i as u64 + 1;
        let len = SIZES[r.size as usize % SIZES.len()];
        let fill = 0x20 + i as u8;
        let mut body = (len as u32).to_le_bytes().to_vec();
        body.push(fill);
        body.push(r.pushes.len() as u8);
        for (k, p) in r.pushes.iter().enumerate() {
            body.extend_from_slice(&(SIZES[*p as usize % SIZES.len()] as u32).to_le_bytes());
            body.push(0x80 + (i * 4 + k) as u8);
        }
        let path = if r.off_reader { "/off" } else { "/inline" };
        requests.push(frame_with(id, 0, path.as_bytes(), 1, &body, 0, 0));
        expected_responses.push(image(id, 0, path, 0x7005, len, fill));
    }
    let n_req = requests.len();
    let bcasts: Vec<(usize, u8)> = c
        .broadcasts
        .iter()
        .enumerate()
        .map(|(i, s)| (SIZES[*s as usize % SIZES.len()], 0xE0 + i as u8))
        .collect();
    let stall = Duration::from_millis(c.stall_ms as u64);
    let waits = if failure_seen() { Duration::from_millis(1500) } else { Duration::from_secs(20) };

    let (messages, ended): (Vec<Vec<u8>>, bool) = block_on(async {
        let conn = dws::connect(&shared, buf).await;
        let (mut sink, mut stream) = conn.io.ws.split();
        let sender = tokio::spawn(async move {
            for r in requests {
                if sink.send(WsMessage::Binary(r)).await.is_err() {
                    break;
                }
            }
            sink
        });
        let pushed_b = pushed.clone();
        let peers_b = peers.clone();
        let broadcaster = tokio::task::spawn_blocking(move || {
            for (len, f) in bcasts {
                let res = peers_b.broadcast_notify_raw("/bcast", BodyFormat::RawBinary, &vec![f; len]);
                let ok = res.len() == 1 && res.values().all(|r| r.is_ok());
                pushed_b.lock().unwrap().push(("/bcast", len, f, ok));
                std::thread::yield_now();
            }
        });
        let mut msgs: Vec<Vec<u8>> = Vec::new();
        let mut responses = 0usize;
        let mut notifies = 0usize;
        let mut bdone = false;
        let mut broadcaster = Some(broadcaster);
        let deadline = tokio::time::Instant::now() + waits;
        let mut stalled = false;
        let mut ended = false;
        loop {
            if responses >= n_req && !bdone {
                if let Some(b) = broadcaster.take() {
                    let _ = b.await;
                }
                bdone = true;
            }
            if responses >= n_req && bdone {
                let want = pushed.lock().unwrap().iter().filter(|p| p.3).count();
                if notifies >= want {
                    break;
                }
            }
            // once everything was issued, what is still queued arrives promptly
            let idle = if responses >= n_req && bdone { Duration::from_millis(400) } else { waits };
            let next = tokio::time::timeout_at(deadline.min(tokio::time::Instant::now() + idle), stream.next()).await;
            match next {
                Err(_) => break,
                Ok(None) | Ok(Some(Err(_))) => {
                    ended = true;
                    break;
                }
                Ok(Some(Ok(WsMessage::Binary(b)))) => {
                    if b.len() >= 48 && b[11] == 0 {
                        responses += 1;
                    } else {
                        notifies += 1;
                    }
                    msgs.push(b);
                    if !stalled {
                        stalled = true;
                        tokio::time::sleep(stall).await;
                    }
                }
                Ok(Some(Ok(_))) => {}
            }
        }
        if let Some(b) = broadcaster.take() {
            let _ = b.await;
        }
        sender.abort();
        conn.server.abort();
        (msgs, ended)
    });
    let issued = pushed.lock().unwrap().clone();
    Ok(Observed {
        messages,
        expected_responses,
        issued,
        ended,
        limit,
    })
}

pub fn check(c: &WsCase) -> CheckResult {
    let Observed {
        messages,
        expected_responses,
        issued,
        limit,
        ..
    } = observe(c)?;
    let n_req = expected_responses.len();
    // the oracle: every message is exactly one frame and the image of one issued message
    let mut used_resp = vec![false; expected_responses.len()];
    let mut used_push = vec![false; issued.len()];
    let mut duplicates = 0usize;
    for (k, m) in messages.iter().enumerate() {
        match codec::parse(m) {
            codec::Parse::Frame { trailing: 0, .. } => {}
            other => {
                return Err(Fail::new(
                    "ws-message-not-one-frame",
                    format!("message {k} ({} bytes) is not exactly one frame: {other:?}", m.len()),
                ));
            }
        }
        let h = OHeader::raw(m);
        if h.notify == 0 {
            let idx = h.id.wrapping_sub(1) as usize;
            // a response over the server's assumed peer limit is replaced by the server's
            // own (whole, well-formed) error reply with the same id
            if let (Some(l), Some(e)) = (limit, expected_responses.get(idx))
                && e.len() > l
            {
                ensure!(
                    h.ec != 0 && m.len() <= l,
                    "ws-frame-content-foreign",
                    "message {k}: the response to request {} would be {} bytes (limit {l}); what arrived is {} bytes with ec {}",
                    h.id,
                    e.len(),
                    m.len(),
                    h.ec
                );
                if used_resp[idx] {
                    duplicates += 1;
                }
                used_resp[idx] = true;
                continue;
            }
            ensure!(
                idx < expected_responses.len() && *m == expected_responses[idx],
                "ws-frame-content-foreign",
                "message {k} is a well-formed response (id {}, {} bytes) but not the image of the response issued for that request: {}",
                h.id,
                m.len(),
                expected_responses.get(idx).map(|e| crate::util::diff_msg("message vs issued response", m, e)).unwrap_or_else(|| "no such request".into())
            );
            if used_resp[idx] {
                duplicates += 1;
            }
            used_resp[idx] = true;
        } else {
            // match an issued notify (queued or reported as refused: only content matters here)
            let hit = issued.iter().enumerate().position(|(i, (path, len, f, _))| {
                !used_push[i] && m.len() == 48 + path.len() + len && *m == image(0, 1, path, BodyFormat::RawBinary as u16, *len, *f)
            });
            match hit {
                Some(i) => used_push[i] = true,
                None => {
                    let again = issued
                        .iter()
                        .any(|(path, len, f, _)| m.len() == 48 + path.len() + len && *m == image(0, 1, path, BodyFormat::RawBinary as u16, *len, *f));
                    ensure!(
                        again,
                        "ws-frame-content-foreign",
                        "message {k} is a well-formed notify ({} bytes, body starts {}) but not the image of any notify the server side issued",
                        m.len(),
                        crate::util::hex(&m[48.min(m.len())..m.len().min(72)])
                    );
                    duplicates += 1;
                }
            }
        }
    }
    let whole_responses = used_resp.iter().filter(|u| **u).count();
    let refused = issued.iter().filter(|p| !p.3).count();
    let concurrent_sources = (c.reqs.iter().any(|r| r.off_reader) as usize) + (c.reqs.iter().any(|r| !r.pushes.is_empty()) as usize) + (!c.broadcasts.is_empty()) as usize;
    Ok(CaseInfo::new(concurrent_sources >= 2 && messages.len() >= 3)
        .class(format!("sources={concurrent_sources}"))
        .class(if whole_responses == n_req { "all-responses-seen" } else { "responses-outstanding-at-end" })
        .class(if refused > 0 { "queue-full-refusals" } else { "no-refusals" })
        .class(if duplicates > 0 { "duplicates-seen" } else { "no-duplicates" })
        .class(if c.stall_ms > 0 { "peer-stalled" } else { "peer-prompt" }))
}

pub fn ws_case() -> BoxedStrategy<WsCase> {
    let req = (any::<bool>(), 0u8..10, prop::collection::vec(0u8..10, 0..4)).prop_map(|(off_reader, size, pushes)| Req { off_reader, size, pushes });
    (
        prop::collection::vec(req, 1..=24),
        prop::collection::vec(0u8..10, 0..6),
        prop_oneof![1 => Just(0u8), 2 => 1u8..60],
        0u8..4,
        0u8..5,
        prop::bool::weighted(0.3),
    )
        .prop_map(|(mut reqs, mut broadcasts, stall_ms, buf, capacity, low_limit)| {
            // bound the volume: at most 5 MiB-sized payloads per case
            let mut big = 0;
            let mut cap = |s: &mut u8| {
                if *s >= 8 {
                    big += 1;
                    if big > 5 {
                        *s %= 8;
                    }
                }
            };
            for r in reqs.iter_mut() {
                cap(&mut r.size);
                for p in r.pushes.iter_mut() {
                    cap(p);
                }
            }
            for b in broadcasts.iter_mut() {
                cap(b);
            }
            WsCase {
                reqs,
                broadcasts,
                stall_ms,
                buf,
                capacity,
                low_limit,
            }
        })
        .boxed()
}

pub fn run(ctx: &Ctx, rep: &Report) {
    run_prop(ctx, rep, "ws-server-writers", ctx.tier.pick(250, 6_000), &|| ws_case(), &check);
}

pub fn replay(sub: &str, case: &Value) -> Result<(), Fail> {
    match sub {
        "ws-server-writers" => replay_case::<WsCase>(case, &check),
        _ => Err(Fail::new("replay-unknown-sub", sub.to_string())),
    }
}
