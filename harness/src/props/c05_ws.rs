//! C05 WebSocket-server sub-checks (filled in with the WebSocket server driver).
use crate::engine::*;
use serde_json::Value;

pub fn run(_ctx: &Ctx, _rep: &Report) {}
pub fn replay(sub: &str, _case: &Value) -> Result<(), Fail> {
    Err(Fail::new("replay-unknown-sub", sub.to_string()))
}
