//! C03 — every request gets exactly one matching response; notifies get none.

use super::routerkit::*;
use crate::engine::*;
use crate::ensure;
use crate::oracle::codec::{self, OHeader};
use crate::peers::dws;
use crate::peers::net::*;
use crate::util::block_on_mt as block_on;
use proptest::prelude::*;
use repe::message::Message;
use repe::{AsyncServer, QueryFormat, RepeError, Server, WebSocketServer};
use serde::{Deserialize, Serialize};
use std::collections::HashMap;
use std::time::Duration;
use tokio::io::{AsyncReadExt, AsyncWriteExt};

pub const RULE: &str = "pipelined request sequences (1..64, written in generated segmentations) drawn from version {1,0,2,255} x query-format {1,0,2,4095,0xFFFF} x query {registered path of every built-in handler kind, unregistered, non-UTF-8, empty} x body-format {0,1,2,3,4,0xFFFF} x body {well-formed for that handler, truncated, random, empty} x notify {0,1}, distinct ids, random reserved bits, sent to four dispatch paths built from one router factory: Server::serve and AsyncServer::serve over loopback TCP, the WebSocket server in-process (duplex) for inline routes and for the _blocking (off-reader) routes; oracle: (a) an envelope model gives the exact code for version / query-format / non-UTF-8 / unknown-path rejections and 'no response' for notifies, dispatched requests are predicted by an in-process twin router through the documented echo rule, handler observation logs must equal the twin's (exactly once if dispatched, never if rejected); (b) completeness without timing: wait for the predicted number of responses, then half-close and read to end of stream: any extra frame is a violation; (c) inline responses arrive in request order; (d) the response fields are identical on all four paths; (ws-backpressure) a pipelined burst of inline and off-reader requests with handler-pushed notifies and concurrent broadcasts against outbound capacities 1..1024, pipe sizes 1 KiB..1 MiB and a peer that stops reading for up to 60 ms: every request must still get exactly one response (byte image of the handler answer with its id and query), inline ones in order; non-trivial = sequence contains >=1 rejected, >=1 dispatched and >=1 notify request; distinct = case hash";

#[derive(Debug, Clone, Serialize, Deserialize, Hash, PartialEq, Eq)]
pub enum QuerySel {
    Kind(Kind),
    Unregistered(u8),
    NonUtf8,
    Empty,
}

#[derive(Debug, Clone, Serialize, Deserialize, Hash, PartialEq, Eq)]
pub struct Req {
    pub version: u8,
    pub query_format: u16,
    pub query: QuerySel,
    pub body_format: u16,
    pub shape: BodyShape,
    pub notify: bool,
    pub reserved: u32,
    pub seed: u64,
}

#[derive(Debug, Clone, Serialize, Deserialize, Hash, PartialEq, Eq)]
pub struct Case {
    pub reqs: Vec<Req>,
    pub segments: Vec<u16>,
}

#[derive(Debug, Clone, PartialEq, Eq)]
pub struct Resp {
    pub id: u64,
    pub ec: u32,
    pub query: Vec<u8>,
    pub query_format: u16,
    pub body_format: u16,
    pub body: Vec<u8>,
}

fn query_bytes(q: &QuerySel) -> Vec<u8> {
    match q {
        QuerySel::Kind(k) => k.path().as_bytes().to_vec(),
        QuerySel::Unregistered(i) => match i % 4 {
            0 => b"/nope".to_vec(),
            1 => b"/jsonX".to_vec(),
            2 => b"/regX/counter".to_vec(),
            _ => b"json".to_vec(),
        },
        QuerySel::NonUtf8 => vec![b'/', 0xff, 0xfe, b'j'],
        QuerySel::Empty => Vec::new(),
    }
}

fn frame_of(r: &Req, id: u64) -> (Vec<u8>, Message) {
    let kind = match &r.query {
        QuerySel::Kind(k) => *k,
        _ => Kind::Json,
    };
    let body = make_body(kind, r.body_format, r.shape, r.seed);
    let q = query_bytes(&r.query);
    let h = OHeader {
        spec: codec::MAGIC,
        version: r.version,
        notify: r.notify as u8,
        reserved: r.reserved,
        id,
        query_format: r.query_format,
        body_format: r.body_format,
        ..OHeader::default()
    };
    let bytes = codec::encode_frame(&h, &q, &body);
    let msg = Message::from_slice_exact(&bytes).expect("harness frame parses");
    (bytes, msg)
}

/// Expected outcome of one request per the documented envelope contract; for a
/// dispatched request the handler's own answer comes from the in-process twin.
enum Expect {
    None,
    /// (ec exact, response) — body text of envelope rejections is not pinned
    Reject(u32),
    Dispatched(Resp),
    ContractBroken(String),
}

fn normalise(res: Result<Message, RepeError>, req: &Message) -> Resp {
    match res {
        Ok(m) => Resp {
            id: m.header.id,
            ec: m.header.ec,
            query: if m.query.is_empty() { req.query.clone() } else { m.query },
            query_format: m.header.query_format,
            body_format: m.header.body_format,
            body: m.body,
        },
        Err(e) => Resp {
            id: req.header.id,
            ec: e.to_error_code() as u32,
            query: req.query.clone(),
            query_format: 0,
            body_format: repe::BodyFormat::Utf8 as u16,
            body: e.to_string().into_bytes(),
        },
    }
}

fn predict(twin: &Built, r: &Req, msg: &Message) -> Expect {
    let respond = !r.notify;
    if r.version != 1 {
        return if respond { Expect::Reject(1) } else { Expect::None };
    }
    if r.query_format != QueryFormat::JsonPointer as u16 {
        return if respond { Expect::Reject(3) } else { Expect::None };
    }
    let Ok(path) = std::str::from_utf8(&msg.query) else {
        return if respond { Expect::Reject(3) } else { Expect::None };
    };
    let Some(h) = twin.router.get(path) else {
        return if respond { Expect::Reject(6) } else { Expect::None };
    };
    // dispatched: the handler runs exactly once, notify or not
    let seen_before = twin.probe.seen.lock().unwrap().len();
    let res = h.handle(msg);
    // Independent statement of the decode contract: an undecodable body / unacceptable
    // format must be answered with the specified code and must not reach the handler
    // closure (the twin shares the implementation, so it alone could not tell).
    if let QuerySel::Kind(k) = &r.query
        && let Some(Err(code)) = decode_contract(*k, r.body_format, &msg.body)
    {
        let ran = twin.probe.seen.lock().unwrap().len() > seen_before;
        let got = match &res {
            Ok(m) => m.header.ec,
            Err(e) => e.to_error_code() as u32,
        };
        if ran || got != code {
            return Expect::ContractBroken(format!(
                "kind {k:?} body_format {} body {:?}: the documented contract demands code {code} without running the handler; the in-process dispatch gave code {got}, handler ran: {ran}",
                r.body_format,
                String::from_utf8_lossy(&msg.body)
            ));
        }
    }
    if respond {
        Expect::Dispatched(normalise(res, msg))
    } else {
        Expect::None
    }
}

fn to_resp(f: &Frame) -> Resp {
    Resp {
        id: f.header.id,
        ec: f.header.ec,
        query: f.query.clone(),
        query_format: f.header.query_format,
        body_format: f.header.body_format,
        body: f.body.clone(),
    }
}

fn watchdog() -> Duration {
    if failure_seen() {
        Duration::from_millis(700)
    } else {
        Duration::from_secs(10)
    }
}

/// Send all frames (in the generated segmentation) over TCP and collect responses:
/// first exactly `expect_n`, then half-close and read to EOF.
async fn drive_tcp(addr: std::net::SocketAddr, wire: Vec<u8>, segments: Vec<u16>, expect_n: usize) -> Result<Vec<Frame>, Fail> {
    let s = tokio::net::TcpStream::connect(addr).await.map_err(|e| Fail::new("harness-connect", e.to_string()))?;
    let _ = s.set_nodelay(true);
    let (mut rd, mut wr) = s.into_split();
    let writer = tokio::spawn(async move {
        let mut pos = 0;
        let mut i = 0;
        while pos < wire.len() {
            let n = (*segments.get(i % segments.len().max(1)).unwrap_or(&4096) as usize).max(1).min(wire.len() - pos);
            if wr.write_all(&wire[pos..pos + n]).await.is_err() {
                break;
            }
            let _ = wr.flush().await;
            pos += n;
            i += 1;
            if i % 7 == 0 {
                tokio::task::yield_now().await;
            }
        }
        wr
    });
    let mut buf: Vec<u8> = Vec::new();
    let mut frames = Vec::new();
    let mut chunk = vec![0u8; 65536];
    let deadline = tokio::time::Instant::now() + watchdog();
    // phase 1: until the predicted number of responses arrived
    while frames.len() < expect_n {
        let n = match tokio::time::timeout_at(deadline, rd.read(&mut chunk)).await {
            Ok(Ok(0)) => break,
            Ok(Ok(n)) => n,
            Ok(Err(_)) => break,
            Err(_) => break,
        };
        buf.extend_from_slice(&chunk[..n]);
        let (fs, tail) = codec::split_stream(&buf);
        frames = fs
            .into_iter()
            .map(|(h, q, b)| Frame { header: h, query: q, body: b, raw: Vec::new() })
            .collect();
        let _ = tail;
    }
    // phase 2: half-close, then read to end of stream
    let mut wr = writer.await.map_err(|_| Fail::new("panic", "writer task"))?;
    let _ = wr.shutdown().await;
    loop {
        match tokio::time::timeout(watchdog(), rd.read(&mut chunk)).await {
            Ok(Ok(0)) | Ok(Err(_)) => break,
            Ok(Ok(n)) => buf.extend_from_slice(&chunk[..n]),
            Err(_) => {
                return Err(Fail::new(
                    "connection-not-closed",
                    "the server did not close the connection after the client half-closed",
                ));
            }
        }
    }
    let (fs, tail) = codec::split_stream(&buf);
    ensure!(tail.is_empty(), "garbage-on-wire", "{} trailing bytes on the response stream do not form a frame", tail.len());
    Ok(fs
        .into_iter()
        .map(|(h, q, b)| Frame { header: h, query: q, body: b, raw: Vec::new() })
        .collect())
}

async fn drive_ws(shared: &repe::SharedWebSocketServer, frames_out: Vec<Vec<u8>>, expect_n: usize) -> Result<Vec<Frame>, Fail> {
    let conn = dws::connect(shared, 1 << 16).await;
    let mut io = conn.io;
    let server = conn.server;
    let mut got = Vec::new();
    // interleave sending and receiving so neither side's buffer can fill up
    let mut pending_out = frames_out.into_iter();
    let deadline = tokio::time::Instant::now() + watchdog();
    let mut all_sent = false;
    while got.len() < expect_n || !all_sent {
        if !all_sent {
            match pending_out.next() {
                Some(f) => io.send(&f).await.map_err(|e| Fail::new("harness-send", e.to_string()))?,
                None => all_sent = true,
            }
        }
        // drain whatever is ready (non-blocking-ish)
        loop {
            let wait = if all_sent && got.len() < expect_n {
                match deadline.checked_duration_since(tokio::time::Instant::now()) {
                    Some(d) => d,
                    None => break,
                }
            } else {
                Duration::from_millis(0)
            };
            match tokio::time::timeout(wait, io.recv()).await {
                Ok(Ok(Some(f))) => got.push(f),
                Ok(Ok(None)) | Ok(Err(_)) => {
                    all_sent = true;
                    break;
                }
                Err(_) => break,
            }
            if all_sent && got.len() >= expect_n {
                break;
            }
        }
        if all_sent && tokio::time::Instant::now() >= deadline {
            break;
        }
    }
    // close and read to end of stream
    io.close().await;
    loop {
        match tokio::time::timeout(watchdog(), io.recv()).await {
            Ok(Ok(Some(f))) => got.push(f),
            Ok(Ok(None)) | Ok(Err(_)) => break,
            Err(_) => {
                return Err(Fail::new("connection-not-closed", "the WebSocket server did not finish after Close"));
            }
        }
    }
    let _ = tokio::time::timeout(watchdog(), server).await;
    Ok(got)
}

pub fn check(c: &Case) -> CheckResult {
    // With a middleware every route takes the owned dispatch path on TCP; without one the
    // built-in handlers take their borrowed (view) path. Cover both.
    let nmw = (c.reqs.len() % 2) as u8;
    let program = default_program(nmw);
    // ids: distinct, generated from position
    let frames: Vec<(Vec<u8>, Message)> = c
        .reqs
        .iter()
        .enumerate()
        .map(|(i, r)| frame_of(r, 0x1000 + (i as u64) * 3 + (r.seed & 1) * 0x1_0000_0000))
        .collect();
    // ---- prediction on the in-process twin (also defines which requests dispatch)
    let twin = build(&program);
    let mut expected: Vec<Option<(u64, Expect)>> = Vec::new();
    for (r, (_, msg)) in c.reqs.iter().zip(&frames) {
        let e = predict(&twin, r, msg);
        expected.push(Some((msg.header.id, e)));
    }
    for e in expected.iter().flatten() {
        if let (_, Expect::ContractBroken(msg)) = e {
            return Err(Fail::new("decode-contract", msg.clone()));
        }
    }
    let twin_seen = twin.probe.take();
    let mwc = |b: &Built| if nmw > 0 { b.probe.mw(0) } else { 0 };
    let twin_mw = mwc(&twin);
    let expect_n = expected.iter().filter(|e| !matches!(e, Some((_, Expect::None)))).count();
    let has_reject = expected.iter().any(|e| matches!(e, Some((_, Expect::Reject(_)))));
    let has_dispatch = expected.iter().any(|e| matches!(e, Some((_, Expect::Dispatched(_)))));
    let has_notify = c.reqs.iter().any(|r| r.notify);

    let wire: Vec<u8> = frames.iter().flat_map(|(b, _)| b.clone()).collect();
    let frames_out: Vec<Vec<u8>> = frames.iter().map(|(b, _)| b.clone()).collect();

    // Handlers of notifies on off-reader routes finish on their own schedule (there is
    // no response to wait for): give the observation log time to reach the twin's size
    // before it is compared. Too many observations still fail at once; too few fail
    // after the wait.
    let want_seen = twin_seen.len();
    let settle = |b: &Built| {
        let deadline = std::time::Instant::now() + if failure_seen() { std::time::Duration::from_millis(600) } else { std::time::Duration::from_secs(8) };
        while (b.probe.seen.lock().unwrap().len() < want_seen || mwc(b) < twin_mw) && std::time::Instant::now() < deadline {
            std::thread::sleep(std::time::Duration::from_millis(1));
        }
    };

    // ---- four dispatch paths
    let mut per_transport: Vec<(&'static str, Vec<Frame>, Vec<Seen>, u64, bool)> = Vec::new();
    {
        let b = build(&program);
        let server = Server::new(b.router.clone());
        let l = server.listen(crate::util::lo0().as_str()).map_err(|e| Fail::new("harness-listen", e.to_string()))?;
        let addr = l.local_addr().unwrap();
        crate::peers::net::stop_at_end_of_case(&l);
        std::thread::spawn(move || {
            let _ = server.serve(l);
        });
        let got = block_on(drive_tcp(addr, wire.clone(), c.segments.clone(), expect_n))?;
        settle(&b);
        per_transport.push(("Server", got, b.probe.take(), mwc(&b), true));
    }
    {
        let b = build(&program);
        let router = b.router.clone();
        let (wire2, segs) = (wire.clone(), c.segments.clone());
        let with_write_timeout = c.reqs.len() % 2 == 1;
        let got = block_on(async move {
            let l = AsyncServer::listen(crate::util::lo0().as_str()).await.map_err(|e| Fail::new("harness-listen", e.to_string()))?;
            let addr = l.local_addr().unwrap();
            let srv = tokio::spawn(async move {
                // (with and without a write timeout: the two write paths must frame alike)
                let srv = AsyncServer::new(router);
                let srv = if with_write_timeout { srv.write_timeout(Some(Duration::from_secs(20))) } else { srv };
                let _ = srv.serve(l).await;
            });
            let r = drive_tcp(addr, wire2, segs, expect_n).await;
            srv.abort();
            r
        })?;
        settle(&b);
        per_transport.push(("AsyncServer", got, b.probe.take(), mwc(&b), true));
    }
    {
        let b = build(&program);
        let shared = WebSocketServer::new(b.router.clone()).with_offreader_limit(0).into_shared();
        let fo = frames_out.clone();
        let got = block_on(async move { drive_ws(&shared, fo, expect_n).await })?;
        settle(&b);
        per_transport.push(("WebSocket", got, b.probe.take(), mwc(&b), false));
    }

    // ---- oracle
    let off_reader_ids: std::collections::HashSet<u64> = c
        .reqs
        .iter()
        .zip(&frames)
        .filter(|(r, _)| matches!(&r.query, QuerySel::Kind(k) if k.off_reader()) && r.version == 1 && r.query_format == 1)
        .map(|(_, (_, m))| m.header.id)
        .collect();
    let mut reference: Option<HashMap<u64, Resp>> = None;
    for (name, got, seen, mw, total_order) in &per_transport {
        // (b) exactly the predicted responses, each exactly once
        let mut by_id: HashMap<u64, Resp> = HashMap::new();
        for f in got {
            let r = to_resp(f);
            ensure!(
                by_id.insert(r.id, r).is_none(),
                format!("{name}:duplicate-response"),
                "{name}: two responses carry id {:#x}",
                f.header.id
            );
            ensure!(f.header.notify == 0, format!("{name}:notify-on-response"), "{name}: a response has the notify flag set");
        }
        for e in expected.iter().flatten() {
            let (id, exp) = e;
            match exp {
                Expect::None => ensure!(
                    !by_id.contains_key(id),
                    format!("{name}:response-to-notify"),
                    "{name}: request {:#x} had the notify flag set (or was a rejected notify) but got a response",
                    id
                ),
                Expect::Reject(code) => {
                    let r = by_id.get(id).ok_or_else(|| {
                        Fail::new(format!("{name}:missing-response"), format!("{name}: no response for rejected request {id:#x}"))
                    })?;
                    ensure!(
                        r.ec == *code,
                        format!("{name}:wrong-reject-code"),
                        "{name}: request {id:#x} must be rejected with code {code}, got {} ({:?})",
                        r.ec,
                        String::from_utf8_lossy(&r.body)
                    );
                }
                Expect::ContractBroken(_) => unreachable!(),
                Expect::Dispatched(want) => {
                    let r = by_id.get(id).ok_or_else(|| {
                        Fail::new(format!("{name}:missing-response"), format!("{name}: no response for dispatched request {id:#x}"))
                    })?;
                    ensure!(
                        r == want,
                        format!("{name}:response-differs"),
                        "{name}: response to {id:#x} is {:?}, the in-process dispatch gives {:?}",
                        r,
                        want
                    );
                }
            }
            // every response echoes the request's query unless the handler set its own
            if let Some(r) = by_id.get(id) {
                let req_q = &frames.iter().find(|(_, m)| m.header.id == *id).unwrap().1.query;
                let own = matches!(exp, Expect::Dispatched(w) if &w.query != req_q);
                ensure!(
                    own || &r.query == req_q,
                    format!("{name}:query-not-echoed"),
                    "{name}: response to {id:#x} carries query {:?}, request had {:?}",
                    String::from_utf8_lossy(&r.query),
                    String::from_utf8_lossy(req_q)
                );
            }
        }
        ensure!(
            by_id.len() == expect_n,
            format!("{name}:extra-response"),
            "{name}: {} responses arrived, {expect_n} predicted (unexpected ids: {:?})",
            by_id.len(),
            by_id.keys().filter(|k| !expected.iter().flatten().any(|(id, e)| id == *k && !matches!(e, Expect::None))).collect::<Vec<_>>()
        );
        // (c) order: inline responses in request order
        let order: Vec<u64> = got.iter().map(|f| f.header.id).filter(|id| *total_order || !off_reader_ids.contains(id)).collect();
        let want_order: Vec<u64> = expected
            .iter()
            .flatten()
            .filter(|(id, e)| !matches!(e, Expect::None) && (*total_order || !off_reader_ids.contains(id)))
            .map(|(id, _)| *id)
            .collect();
        ensure!(
            order == want_order,
            format!("{name}:response-order"),
            "{name}: inline responses arrived in order {:x?}, requests were in order {:x?}",
            order,
            want_order
        );
        // handler observations: exactly once if dispatched, never if rejected
        let mut a = seen.clone();
        let mut b = twin_seen.clone();
        if !total_order {
            // off-reader handlers run concurrently: compare as multisets
            a.sort_by(|x, y| (x.kind, &x.detail).cmp(&(y.kind, &y.detail)));
            b.sort_by(|x, y| (x.kind, &x.detail).cmp(&(y.kind, &y.detail)));
        }
        ensure!(
            a == b,
            format!("{name}:handler-invocations"),
            "{name}: handlers observed {:?}, the in-process twin observed {:?}",
            a,
            b
        );
        ensure!(
            *mw == twin_mw,
            format!("{name}:middleware-count"),
            "{name}: middleware ran {mw} times, twin {twin_mw}"
        );
        // (d) identical fields on every path
        match &reference {
            None => reference = Some(by_id),
            Some(r0) => {
                for (id, r) in &by_id {
                    ensure!(
                        r0.get(id) == Some(r),
                        "transports-differ",
                        "response to {id:#x} differs between {} and {name}: {:?} vs {:?}",
                        per_transport[0].0,
                        r0.get(id),
                        r
                    );
                }
            }
        }
    }

    let mut info = CaseInfo::new(has_reject && has_dispatch && has_notify)
        .class(match c.reqs.len() {
            0..=1 => "len<=1",
            2..=8 => "len=2-8",
            9..=32 => "len=9-32",
            _ => "len>32",
        })
        .class(if !off_reader_ids.is_empty() { "has-off-reader" } else { "inline-only" });
    for r in &c.reqs {
        if let QuerySel::Kind(k) = &r.query {
            info = info.class(format!("kind={k:?}"));
        }
    }
    Ok(info)
}

fn req() -> BoxedStrategy<Req> {
    (
        prop_oneof![8 => Just(1u8), 1 => Just(0u8), 1 => Just(2u8), 1 => Just(255u8)],
        prop_oneof![10 => Just(1u16), 1 => Just(0u16), 1 => Just(2u16), 1 => Just(4095u16), 1 => Just(0xFFFFu16)],
        prop_oneof![
            14 => prop::sample::select(KINDS.to_vec()).prop_map(QuerySel::Kind),
            2 => (0u8..4).prop_map(QuerySel::Unregistered),
            1 => Just(QuerySel::NonUtf8),
            1 => Just(QuerySel::Empty),
        ],
        prop::sample::select(vec![0u16, 1, 2, 2, 3, 4, 0xFFFF]),
        prop::sample::select(vec![
            BodyShape::WellFormed,
            BodyShape::WellFormed,
            BodyShape::WellFormed,
            BodyShape::Truncated,
            BodyShape::Random,
            BodyShape::Empty,
            BodyShape::BadUtf8Json,
        ]),
        prop::bool::weighted(0.25),
        prop_oneof![Just(0u32), any::<u32>()],
        any::<u64>(),
    )
        .prop_map(|(version, query_format, query, body_format, shape, notify, reserved, seed)| Req {
            version,
            query_format,
            query,
            body_format,
            shape,
            notify,
            reserved,
            seed,
        })
        .boxed()
}

pub fn case(max_len: usize) -> BoxedStrategy<Case> {
    (
        prop::collection::vec(req(), 1..=max_len),
        prop::collection::vec(prop_oneof![1u16..48, 48u16..200, 200u16..9000], 1..8),
    )
        .prop_map(|(reqs, segments)| Case { reqs, segments })
        .boxed()
}

// ------------------------------------------------ WebSocket server under backpressure

/// Exactly one response per request also when the outbound queue is full: a pipelined
/// burst of inline and off-reader requests (with handler-pushed notifies and broadcasts
/// competing for the queue), small outbound capacities, a small pipe and a peer that
/// stops reading for a while. Scenario and capture are shared with C05's WebSocket
/// check (`c05_ws::observe`); the oracle here is C03's.
pub fn check_ws_backpressure(c: &super::c05_ws::WsCase) -> CheckResult {
    let obs = super::c05_ws::observe(c)?;
    let n = obs.expected_responses.len();
    let mut seen_at: Vec<Option<usize>> = vec![None; n];
    for (pos, m) in obs.messages.iter().enumerate() {
        if m.len() < 48 || m[11] != 0 {
            continue; // a notify
        }
        let id = u64::from_le_bytes(m[16..24].try_into().unwrap());
        let idx = id.wrapping_sub(1) as usize;
        ensure!(idx < n, "WebSocket:unsolicited-response", "a response carries id {id:#x}, which no request had");
        // (a response over the server's assumed peer frame limit is answered by the server's
        // own error reply with the same id: that is C17's subject; here it counts as the response)
        let replaced = obs.limit.is_some_and(|l| obs.expected_responses[idx].len() > l);
        ensure!(
            replaced || *m == obs.expected_responses[idx],
            "WebSocket:response-differs",
            "the response to request {id} is not the handler's answer with the request's id and query: {}",
            crate::util::diff_msg("response vs expected", m, &obs.expected_responses[idx])
        );
        ensure!(seen_at[idx].is_none(), "WebSocket:duplicate-response", "two responses carry id {id}");
        seen_at[idx] = Some(pos);
    }
    let missing: Vec<usize> = (0..n).filter(|i| seen_at[*i].is_none()).map(|i| i + 1).collect();
    ensure!(
        missing.is_empty(),
        "WebSocket:missing-response",
        "{} of {n} requests were never answered (ids {:?}{}); outbound capacity selector {}, peer stalled {} ms, connection ended early: {}",
        missing.len(),
        &missing[..missing.len().min(8)],
        if missing.len() > 8 { ", …" } else { "" },
        c.capacity,
        c.stall_ms,
        obs.ended
    );
    // inline requests are answered in arrival order
    let inline_positions: Vec<usize> = c.reqs.iter().enumerate().filter(|(_, r)| !r.off_reader).map(|(i, _)| seen_at[i].unwrap()).collect();
    ensure!(
        inline_positions.windows(2).all(|w| w[0] < w[1]),
        "WebSocket:response-order",
        "inline responses did not arrive in request order (positions {inline_positions:?})"
    );
    let refused = obs.issued.iter().filter(|p| !p.3).count();
    Ok(CaseInfo::new(c.reqs.len() >= 4 && (refused > 0 || c.stall_ms > 0))
        .class(if refused > 0 { "queue-was-full" } else { "queue-never-full" })
        .class(if c.stall_ms > 0 { "peer-stalled" } else { "peer-prompt" }))
}

pub fn run(ctx: &Ctx, rep: &Report) {
    run_prop(ctx, rep, "ws-backpressure", ctx.tier.pick(200, 5_000), &|| super::c05_ws::ws_case(), &check_ws_backpressure);
    run_prop(ctx, rep, "sequences", ctx.tier.pick(3_000, 40_000), &|| case(24), &check);
    run_prop(ctx, rep, "long-sequences", ctx.tier.pick(400, 8_000), &|| case(64), &check);
}

pub fn replay(sub: &str, case: &serde_json::Value) -> Result<(), Fail> {
    match sub {
        "sequences" | "long-sequences" => replay_case::<Case>(case, &check),
        "ws-backpressure" => replay_case::<super::c05_ws::WsCase>(case, &check_ws_backpressure),
        _ => Err(Fail::new("replay-unknown-sub", sub.to_string())),
    }
}
