//! C17 — no outbound WebSocket message exceeds the assumed peer limit.

use crate::engine::*;
use crate::ensure;
use crate::oracle::codec::{self, OHeader};
use crate::peers::dws;
use crate::peers::net::*;
use crate::util::block_on_mt as block_on;
use proptest::prelude::*;
use repe::message::Message;
use repe::server::{Execution, HandlerErased};
use repe::websocket_server::{ConnectionError, proxy_connection_with_limits};
use repe::{
    AsyncClient, BodyFormat, CallContext, ErrorCode, NotifyBody, PeerRegistry, RepeError, Router, Server,
    WebSocketClient, WebSocketLimits, WebSocketServer,
};
use serde::{Deserialize, Serialize};
use serde_json::{Value, json};
use std::sync::{Arc, Mutex};
use std::time::Duration;

pub const RULE: &str = "assumed peer limit in {1 KiB, 4 KiB, 64 KiB, 1 MiB, (thorough) 16 MiB, none}; total message size (48 + query + body, the body length solved for the target) in {limit-2 .. limit+2} U uniform U {2 x limit}; outbound paths: inline response, off-reader response, handler-pushed notify, registry broadcast (all on the in-process WebSocket server), proxy-forwarded response (proxy_connection_with_limits in front of a real Server), client request and client notify (WebSocketClient::connect_with_limits against a raw WebSocket peer); oracle: every binary message the raw peer observes is <= limit; size <= limit => delivered byte-identical to the predicted frame; size > limit => a response is replaced by an InternalError response bearing the same id, a notify is dropped and reported through on_error(OutboundTooLarge), a client request/notify fails locally with MessageTooLarge and nothing reaches the peer; in every case a follow-up small request on the same connection succeeds; non-trivial = |size - limit| <= 2; distinct = case hash";

#[derive(Debug, Clone, Copy, Serialize, Deserialize, Hash, PartialEq, Eq)]
pub enum Path {
    InlineResponse,
    OffReaderResponse,
    HandlerNotify,
    Broadcast,
    Proxy,
    ClientRequest,
    ClientNotify,
    /// small notifies queued right before an oversized notify (one handler call)
    BurstNotify,
    /// small notifies queued right before an oversized response
    BurstResponse,
    /// the server's own error reply to a request whose (long) query is not valid UTF-8:
    /// the reply echoes the query, so its size is the size under test
    InvalidQueryReply,
}

const PATHS: [Path; 10] = [
    Path::InlineResponse,
    Path::OffReaderResponse,
    Path::HandlerNotify,
    Path::Broadcast,
    Path::Proxy,
    Path::ClientRequest,
    Path::ClientNotify,
    Path::BurstNotify,
    Path::BurstResponse,
    Path::InvalidQueryReply,
];

#[derive(Debug, Clone, Serialize, Deserialize, Hash, PartialEq, Eq)]
pub struct Case {
    pub path: Path,
    pub limit: Option<u32>,
    /// Total frame size of the message under test.
    pub size: u32,
    pub fill: u8,
    /// (response paths, finite limit) make the request's query this many bytes shorter
    /// than the limit allows (0 = the plain short path): the echoed query then takes up
    /// almost the whole frame budget
    #[serde(default)]
    pub query_slack: u16,
    /// (proxy path) the upstream answers with an application *error* whose message has
    /// the size under test
    #[serde(default)]
    pub upstream_error: bool,
}

/// Erased handler: request body = 4-byte LE response-body length + fill byte.
struct Sized {
    off_reader: bool,
}

impl HandlerErased for Sized {
    fn handle(&self, req: &Message) -> Result<Message, RepeError> {
        let len = u32::from_le_bytes(req.body[..4].try_into().unwrap()) as usize;
        Ok(Message::builder()
            .id(req.header.id)
            .query_format(repe::QueryFormat::JsonPointer)
            .body_bytes(vec![req.body[4]; len])
            .body_format_code(0x7005)
            .build())
    }
    fn execution(&self) -> Execution {
        if self.off_reader { Execution::OffReader } else { Execution::Inline }
    }
}

fn sized_request(id: u64, path: &str, body_len: usize, fill: u8) -> Vec<u8> {
    let mut body = (body_len as u32).to_le_bytes().to_vec();
    body.push(fill);
    frame_with(id, 0, path.as_bytes(), 1, &body, 0, 0)
}

fn expected_response(id: u64, path: &str, body_len: usize, fill: u8) -> Vec<u8> {
    let h = OHeader {
        spec: codec::MAGIC,
        version: 1,
        id,
        query_format: 1,
        body_format: 0x7005,
        ..OHeader::default()
    };
    codec::encode_frame(&h, path.as_bytes(), &vec![fill; body_len])
}

fn watchdog() -> Duration {
    if failure_seen() {
        Duration::from_millis(800)
    } else {
        Duration::from_secs(10)
    }
}

type Errors = Arc<Mutex<Vec<(String, usize, usize)>>>;

/// The response path for a case: "/sized" (or "/sizeb"), optionally padded so that the
/// query is `query_slack` bytes short of filling a frame of `limit` bytes.
fn response_path(base: &str, limit: Option<usize>, query_slack: u16) -> String {
    match (limit, query_slack) {
        (Some(l), s) if s > 0 && l <= (1 << 16) && l > 48 + base.len() + 1 + s as usize => {
            format!("{base}/{}", "q".repeat(l - 48 - base.len() - 1 - s as usize))
        }
        _ => base.to_string(),
    }
}

fn server_router(peers_for_notify: bool) -> Router {
    server_router_with(peers_for_notify, &[])
}

fn server_router_with(peers_for_notify: bool, extra_paths: &[(String, bool)]) -> Router {
    let _ = peers_for_notify;
    let mut r = Router::new();
    for (p, off_reader) in extra_paths {
        r = r.with_erased_handler(p, Arc::new(Sized { off_reader: *off_reader }));
    }
    r.with_json("/sizederr", |v: Value| -> Result<Value, (ErrorCode, String)> {
        // an application error whose message has the requested size
        let n = v.get("n").and_then(Value::as_u64).unwrap_or(0) as usize;
        let f = v.get("f").and_then(Value::as_u64).unwrap_or(b'e' as u64) as u8;
        Err((ErrorCode::ApplicationErrorBase, String::from_utf8(vec![b'a' + f % 26; n]).unwrap()))
    })
        .with_erased_handler("/sized", Arc::new(Sized { off_reader: false }))
        .with_erased_handler("/sizeb", Arc::new(Sized { off_reader: true }))
        .with_json_ctx("/push", |ctx: &CallContext, v: Value| {
            // push a notify of the requested body size back to the caller
            let n = v.get("n").and_then(Value::as_u64).unwrap_or(0) as usize;
            let f = v.get("f").and_then(Value::as_u64).unwrap_or(0) as u8;
            let sent = match ctx.peer() {
                Some(p) => p.send_notify("/pushed", NotifyBody::Raw(vec![f; n], BodyFormat::RawBinary)).is_ok(),
                None => false,
            };
            Ok(json!({"queued": sent}))
        })
        .with_json_ctx("/burst", |ctx: &CallContext, v: Value| {
            // queue `pre` small notifies, then (optionally) a notify of `n` body bytes, then
            // answer with a JSON string of `r` characters: everything is in the outbound
            // queue before the writer gets to run
            let pre = v.get("pre").and_then(Value::as_u64).unwrap_or(0);
            let n = v.get("n").and_then(Value::as_u64);
            let r = v.get("r").and_then(Value::as_u64).unwrap_or(0) as usize;
            let f = v.get("f").and_then(Value::as_u64).unwrap_or(0) as u8;
            if let Some(p) = ctx.peer() {
                for i in 0..pre {
                    let _ = p.send_notify("/tick", NotifyBody::Raw(vec![i as u8; 6], BodyFormat::RawBinary));
                }
                if let Some(n) = n {
                    let _ = p.send_notify("/pushed", NotifyBody::Raw(vec![f; n as usize], BodyFormat::RawBinary));
                }
            }
            Ok(Value::String("x".repeat(r)))
        })
        .with_json("/ping", |_v: Value| Ok(json!("pong")))
}

fn expected_notify(method: &str, body_len: usize, fill: u8) -> Vec<u8> {
    let h = OHeader {
        spec: codec::MAGIC,
        version: 1,
        notify: 1,
        id: 0,
        query_format: 1,
        body_format: 0,
        ..OHeader::default()
    };
    codec::encode_frame(&h, method.as_bytes(), &vec![fill; body_len])
}

async fn recv_frame<IO: FrameIo>(io: &mut IO, what: &str) -> Result<Frame, Fail> {
    match tokio::time::timeout(watchdog(), io.recv()).await {
        Ok(Ok(Some(f))) => Ok(f),
        Ok(Ok(None)) => Err(Fail::new("connection-lost", format!("connection ended while waiting for {what}"))),
        Ok(Err(e)) => Err(Fail::new("connection-lost", format!("error while waiting for {what}: {e}"))),
        Err(_) => Err(Fail::new("no-reply", format!("nothing arrived within the watchdog while waiting for {what}"))),
    }
}

async fn ping<IO: FrameIo>(io: &mut IO, id: u64) -> Result<(), Fail> {
    let req = frame_with(id, 0, b"/ping", 1, b"null", 2, 0);
    io.send(&req).await.map_err(|e| Fail::new("connection-unusable", format!("follow-up request could not be sent: {e}")))?;
    let f = recv_frame(io, "the follow-up response").await?;
    ensure!(
        f.header.id == id && f.header.ec == 0,
        "connection-unusable",
        "follow-up request got id {:#x} ec {}",
        f.header.id,
        f.header.ec
    );
    Ok(())
}

pub fn check(c: &Case) -> CheckResult {
    let limit = c.limit.map(|l| l as usize);
    let size = c.size as usize;
    let over = limit.is_some_and(|l| size > l);
    let limits = WebSocketLimits::default().with_assumed_peer_frame_limit(limit);
    let errors: Errors = Arc::new(Mutex::new(Vec::new()));
    let near = limit.is_some_and(|l| (size as i64 - l as i64).abs() <= 2);

    let single_thread = matches!(c.path, Path::BurstNotify | Path::BurstResponse);
    let fut = async {
        match c.path {
            Path::InlineResponse | Path::OffReaderResponse | Path::HandlerNotify | Path::Broadcast | Path::BurstNotify | Path::BurstResponse | Path::InvalidQueryReply => {
                let peers = PeerRegistry::new();
                let errs = errors.clone();
                let long_paths = [
                    (response_path("/sized", limit, c.query_slack), false),
                    (response_path("/sizeb", limit, c.query_slack), true),
                ];
                let shared = WebSocketServer::new(server_router_with(true, &long_paths))
                    .with_limits(limits)
                    .with_peer_registry(peers.clone())
                    .on_error(move |e: &ConnectionError| {
                        if let ConnectionError::OutboundTooLarge { method, size, limit } = e {
                            errs.lock().unwrap().push((method.clone(), *size, *limit));
                        }
                    })
                    .into_shared();
                let conn = dws::connect(&shared, 1 << 16).await;
                let mut io = conn.io;
                let check_sizes = |io: &crate::peers::net::WsIo<tokio::io::DuplexStream>| -> Result<(), Fail> {
                    if let Some(l) = limit {
                        for s in &io.message_sizes {
                            ensure!(*s <= l, "oversized-message-on-wire", "a {s}-byte message reached the peer, limit {l}");
                        }
                    }
                    Ok(())
                };
                match c.path {
                    Path::InlineResponse | Path::OffReaderResponse => {
                        let path_s = response_path(if c.path == Path::InlineResponse { "/sized" } else { "/sizeb" }, limit, c.query_slack);
                        let path = path_s.as_str();
                        // (with a long query the smallest possible response is the query itself)
                        let size = size.max(48 + path.len());
                        let over = limit.is_some_and(|l| size > l);
                        let body_len = size - 48 - path.len();
                        // (request ids include 0, which a raw or third-party client may use)
                        let rid: u64 = if c.fill % 4 == 0 { 0 } else { 7 };
                        io.send(&sized_request(rid, path, body_len, c.fill)).await.map_err(|e| Fail::new("harness-send", e.to_string()))?;
                        let f = recv_frame(&mut io, "the response").await?;
                        let mut raw = f.header.encode().to_vec();
                        raw.extend(&f.query);
                        raw.extend(&f.body);
                        if over {
                            ensure!(
                                f.header.id == rid && f.header.ec == ErrorCode::InternalError as u32,
                                "oversized-response-not-replaced",
                                "a {size}-byte response over the {limit:?} limit was answered with id {:#x} ec {} ({} bytes)",
                                f.header.id,
                                f.header.ec,
                                raw.len()
                            );
                            ensure!(
                                errors.lock().unwrap().iter().any(|(_, s, l)| *s == size && Some(*l) == limit),
                                "oversize-not-reported",
                                "OutboundTooLarge was not reported through on_error (got {:?})",
                                errors.lock().unwrap()
                            );
                        } else {
                            let want = expected_response(rid, path, body_len, c.fill);
                            ensure!(
                                raw == want,
                                "deliverable-response-altered",
                                "a {size}-byte response within the {limit:?} limit was not delivered unchanged: {}",
                                crate::util::diff_msg("response", &raw, &want)
                            );
                        }
                    }
                    Path::HandlerNotify => {
                        let body_len = size - 48 - "/pushed".len();
                        let req = frame_with(8, 0, b"/push", 1, serde_json::to_vec(&json!({"n": body_len, "f": c.fill})).unwrap().as_slice(), 2, 0);
                        io.send(&req).await.map_err(|e| Fail::new("harness-send", e.to_string()))?;
                        // the notify (if deliverable) is queued before the response
                        let first = recv_frame(&mut io, "the notify or response").await?;
                        if over {
                            ensure!(
                                first.header.notify == 0 && first.header.id == 8,
                                "oversized-notify-sent",
                                "an oversized notify ({size} bytes, limit {limit:?}) reached the peer ({} body bytes)",
                                first.body.len()
                            );
                            // give the writer a moment to have processed the dropped notify
                            ensure!(
                                errors.lock().unwrap().iter().any(|(m, s, _)| m == "/pushed" && *s == size),
                                "oversize-not-reported",
                                "the dropped notify was not reported through on_error"
                            );
                        } else {
                            let mut raw = first.header.encode().to_vec();
                            raw.extend(&first.query);
                            raw.extend(&first.body);
                            let want = expected_notify("/pushed", body_len, c.fill);
                            ensure!(
                                raw == want,
                                "deliverable-notify-altered",
                                "a {size}-byte notify within the limit was not delivered unchanged: {}",
                                crate::util::diff_msg("notify", &raw, &want)
                            );
                            let resp = recv_frame(&mut io, "the response after the notify").await?;
                            ensure!(resp.header.id == 8 && resp.header.ec == 0, "response-missing", "response after notify: id {:#x} ec {}", resp.header.id, resp.header.ec);
                        }
                    }
                    Path::BurstNotify | Path::BurstResponse => {
                        let pre = 1 + (c.fill % 3) as usize;
                        let req_body = if c.path == Path::BurstNotify {
                            json!({"pre": pre, "n": size - 48 - "/pushed".len(), "r": 1, "f": c.fill})
                        } else {
                            // response frame: 48 + "/burst" + JSON string of r chars (+2 quotes)
                            json!({"pre": pre, "r": size - 48 - "/burst".len() - 2, "f": c.fill})
                        };
                        io.send(&frame_with(8, 0, b"/burst", 1, serde_json::to_vec(&req_body).unwrap().as_slice(), 2, 0))
                            .await
                            .map_err(|e| Fail::new("harness-send", e.to_string()))?;
                        // the small notifies arrive first, unchanged
                        for i in 0..pre {
                            let f = recv_frame(&mut io, "a small notify of the burst").await?;
                            ensure!(
                                f.path() == "/tick" && f.header.notify == 1 && f.body == vec![i as u8; 6],
                                "burst-order",
                                "burst frame {i}: expected a /tick notify, got {:?} ({} body bytes)",
                                f.path(),
                                f.body.len()
                            );
                        }
                        let f = recv_frame(&mut io, "the frame after the small notifies").await?;
                        if c.path == Path::BurstNotify {
                            if over {
                                ensure!(
                                    f.header.notify == 0 && f.header.id == 8,
                                    "oversized-notify-sent",
                                    "an oversized notify ({size} bytes, limit {limit:?}) queued behind small ones reached the peer ({} body bytes)",
                                    f.body.len()
                                );
                            } else {
                                ensure!(f.path() == "/pushed" && f.body.len() == size - 48 - "/pushed".len(), "deliverable-notify-altered", "the in-limit notify of the burst was altered");
                                let r = recv_frame(&mut io, "the burst response").await?;
                                ensure!(r.header.id == 8 && r.header.ec == 0, "response-missing", "burst response id {:#x} ec {}", r.header.id, r.header.ec);
                            }
                        } else if over {
                            ensure!(
                                f.header.id == 8 && f.header.ec == ErrorCode::InternalError as u32,
                                "oversized-response-not-replaced",
                                "an oversized response ({size} bytes, limit {limit:?}) queued behind notifies was answered with ec {} ({} body bytes)",
                                f.header.ec,
                                f.body.len()
                            );
                        } else {
                            ensure!(
                                f.header.id == 8 && f.header.ec == 0 && 48 + f.query.len() + f.body.len() == size,
                                "deliverable-response-altered",
                                "the in-limit burst response was altered: ec {} total {}",
                                f.header.ec,
                                48 + f.query.len() + f.body.len()
                            );
                        }
                    }
                    Path::InvalidQueryReply => {
                        // a query of `size - 48 - 120` bytes that is not UTF-8: the server's
                        // InvalidQuery reply echoes it, so the reply is about `size` bytes
                        // (kept below the server's own incoming frame limit, 16 MiB)
                        let qlen = size.saturating_sub(48 + 120).clamp(1, 4 << 20);
                        let query = vec![0xFFu8; qlen];
                        io.send(&frame_with(7, 0, &query, 1, b"null", 2, 0)).await.map_err(|e| Fail::new("harness-send", e.to_string()))?;
                        let f = recv_frame(&mut io, "the reply to a request with a non-UTF-8 query").await?;
                        ensure!(f.header.id == 7 && f.header.ec != 0, "wrong-response", "non-UTF-8 query answered with id {:#x} ec {}", f.header.id, f.header.ec);
                        let got = 48 + f.query.len() + f.body.len();
                        if let Some(l) = limit {
                            ensure!(got <= l, "oversized-message-on-wire", "the error reply to a {qlen}-byte non-UTF-8 query is {got} bytes, limit {l}");
                            if 48 + qlen > l {
                                // the echoing reply cannot fit: it must have been replaced
                                ensure!(
                                    f.header.ec == ErrorCode::InternalError as u32,
                                    "oversized-response-not-replaced",
                                    "the reply echoing a {qlen}-byte query cannot fit the {l}-byte limit but arrived with ec {}",
                                    f.header.ec
                                );
                            }
                        }
                    }
                    Path::Broadcast => {
                        // make sure the connection is registered
                        ping(&mut io, 20).await?;
                        let body_len = size - 48 - "/bcast".len();
                        let results = peers.broadcast_notify_raw("/bcast", BodyFormat::RawBinary, &vec![c.fill; body_len]);
                        ensure!(results.len() == 1, "broadcast-results", "{} broadcast results for one connection", results.len());
                        if over {
                            // nothing must arrive; a follow-up ping is the next frame
                            ping(&mut io, 21).await.map_err(|f| {
                                if f.sig == "connection-unusable" {
                                    Fail::new("oversized-notify-sent", format!("after an oversized broadcast the next frame was not the follow-up response: {}", f.msg))
                                } else {
                                    f
                                }
                            })?;
                            ensure!(
                                errors.lock().unwrap().iter().any(|(m, s, _)| m == "/bcast" && *s == size),
                                "oversize-not-reported",
                                "the dropped broadcast was not reported through on_error"
                            );
                        } else {
                            let f = recv_frame(&mut io, "the broadcast notify").await?;
                            let mut raw = f.header.encode().to_vec();
                            raw.extend(&f.query);
                            raw.extend(&f.body);
                            let want = expected_notify("/bcast", body_len, c.fill);
                            ensure!(raw == want, "deliverable-notify-altered", "{}", crate::util::diff_msg("broadcast", &raw, &want));
                        }
                    }
                    _ => unreachable!(),
                }
                // the connection stays usable
                ping(&mut io, 99).await?;
                check_sizes(&io)?;
                io.close().await;
                let _ = tokio::time::timeout(watchdog(), conn.server).await;
                Ok(())
            }
            Path::Proxy => {
                // upstream: a real Server with the sized handler; the proxy sits on a duplex
                let proxy_path = response_path("/sized", limit, c.query_slack);
                let server = Server::new(server_router_with(false, &[(proxy_path.clone(), false)]));
                let l = server.listen(crate::util::lo0().as_str()).map_err(|e| Fail::new("harness-listen", e.to_string()))?;
                let addr = l.local_addr().unwrap();
                crate::peers::net::stop_at_end_of_case(&l);
                std::thread::spawn(move || {
                    let _ = server.serve(l);
                });
                let upstream = AsyncClient::connect(addr).await.map_err(|e| Fail::new("harness-connect", e.to_string()))?;
                let (client_half, server_half) = tokio::io::duplex(1 << 16);
                let ws = repe::tokio_tungstenite::WebSocketStream::from_raw_socket(
                    server_half,
                    repe::tokio_tungstenite::tungstenite::protocol::Role::Server,
                    None,
                )
                .await;
                let proxy = tokio::spawn(proxy_connection_with_limits(ws, upstream, limits));
                let cws = repe::tokio_tungstenite::WebSocketStream::from_raw_socket(
                    client_half,
                    repe::tokio_tungstenite::tungstenite::protocol::Role::Client,
                    None,
                )
                .await;
                let mut io = WsIo::new(cws);
                let (ppath, size) = if c.upstream_error { ("/sizederr".to_string(), size.max(48 + 9)) } else { (proxy_path.clone(), size.max(48 + proxy_path.len())) };
                let over = limit.is_some_and(|l| size > l);
                let body_len = size - 48 - ppath.len();
                if c.upstream_error {
                    let body = serde_json::to_vec(&json!({"n": body_len, "f": c.fill})).unwrap();
                    io.send(&frame_with(7, 0, ppath.as_bytes(), 1, &body, 2, 0)).await.map_err(|e| Fail::new("harness-send", e.to_string()))?;
                } else {
                    io.send(&sized_request(7, &ppath, body_len, c.fill)).await.map_err(|e| Fail::new("harness-send", e.to_string()))?;
                }
                let f = recv_frame(&mut io, "the proxied response").await?;
                let mut raw = f.header.encode().to_vec();
                raw.extend(&f.query);
                raw.extend(&f.body);
                if c.upstream_error && !over {
                    // the upstream's error reply fits: forwarded as it is
                    ensure!(
                        f.header.id == 7 && f.header.ec == ErrorCode::ApplicationErrorBase as u32 && f.body.len() == body_len && f.body.iter().all(|b| *b == b'a' + c.fill % 26),
                        "deliverable-response-altered",
                        "proxy: a {size}-byte upstream error reply within the {limit:?} limit arrived as id {:#x} ec {} with {} body bytes",
                        f.header.id,
                        f.header.ec,
                        f.body.len()
                    );
                } else if over {
                    ensure!(
                        f.header.id == 7 && f.header.ec == ErrorCode::InternalError as u32,
                        "oversized-response-not-replaced",
                        "proxy: a {size}-byte response over the {limit:?} limit was answered with id {:#x} ec {} ({} bytes)",
                        f.header.id,
                        f.header.ec,
                        raw.len()
                    );
                } else {
                    let want = expected_response(7, &ppath, body_len, c.fill);
                    ensure!(raw == want, "deliverable-response-altered", "proxy: {}", crate::util::diff_msg("response", &raw, &want));
                }
                ping(&mut io, 99).await?;
                if let Some(l) = limit {
                    for s in &io.message_sizes {
                        ensure!(*s <= l, "oversized-message-on-wire", "proxy: a {s}-byte message reached the peer, limit {l}");
                    }
                }
                io.close().await;
                let _ = tokio::time::timeout(watchdog(), proxy).await;
                Ok(())
            }
            Path::ClientRequest | Path::ClientNotify => {
                let (listener, addr) = listen().await.map_err(|e| Fail::new("harness-listen", e.to_string()))?;
                let url = format!("ws://{addr}");
                let (client, io) = tokio::join!(WebSocketClient::connect_with_limits(&url, limits), accept_ws(&listener));
                let client = client.map_err(|e| Fail::new("harness-connect", e.to_string()))?;
                let mut io = io.map_err(|e| Fail::new("harness-accept", e.to_string()))?;
                let path = "/up";
                let body_len = size - 48 - path.len();
                let body = vec![c.fill; body_len];
                let is_notify = c.path == Path::ClientNotify;
                let cl = client.clone();
                let call = tokio::spawn(async move {
                    if is_notify {
                        cl.notify_with_formats(path, 1, Some(&body), 0).await.map(|_| None)
                    } else {
                        cl.call_with_formats(path, 1, Some(&body), 0).await.map(Some)
                    }
                });
                if over {
                    let r = tokio::time::timeout(watchdog(), call).await.map_err(|_| Fail::new("call-hangs", "oversized client send did not return"))?;
                    match r {
                        Ok(Err(RepeError::MessageTooLarge { size: s, limit: l })) => {
                            ensure!(s == size && Some(l) == limit, "too-large-error-fields", "MessageTooLarge {{ size: {s}, limit: {l} }} for size {size} limit {limit:?}");
                        }
                        other => {
                            return Err(Fail::new(
                                "oversized-request-not-refused",
                                format!("a {size}-byte client message over the {limit:?} limit returned {:?}", other.map(|r| r.map(|m| m.map(|m| m.header.id)))),
                            ));
                        }
                    }
                } else {
                    let f = recv_frame(&mut io, "the client's message").await?;
                    let h = OHeader {
                        spec: codec::MAGIC,
                        version: 1,
                        notify: is_notify as u8,
                        id: f.header.id,
                        query_format: 1,
                        body_format: 0,
                        ..OHeader::default()
                    };
                    let want = codec::encode_frame(&h, path.as_bytes(), &vec![c.fill; body_len]);
                    ensure!(f.raw == want, "deliverable-request-altered", "{}", crate::util::diff_msg("client message", &f.raw, &want));
                    if !is_notify {
                        io.send(&response_frame(&f, 0, 2, b"1")).await.map_err(|e| Fail::new("harness-send", e.to_string()))?;
                    }
                    let r = tokio::time::timeout(watchdog(), call).await.map_err(|_| Fail::new("call-hangs", "client call did not return"))?;
                    ensure!(matches!(r, Ok(Ok(_))), "deliverable-request-failed", "a deliverable client message failed: {:?}", r.map(|r| r.map(|_| ())));
                }
                // follow-up small request on the same connection
                let cl = client.clone();
                let follow = tokio::spawn(async move { cl.call_json("/ping", &json!(null)).await });
                let f = recv_frame(&mut io, "the follow-up request").await?;
                ensure!(
                    f.path() == "/ping",
                    if over { "oversized-message-on-wire" } else { "unexpected-frame" },
                    "expected the follow-up request, the peer received {:?} ({} bytes)",
                    f.path(),
                    f.raw.len()
                );
                io.send(&response_frame(&f, 0, 2, b"\"pong\"")).await.map_err(|e| Fail::new("harness-send", e.to_string()))?;
                let r = tokio::time::timeout(watchdog(), follow).await.map_err(|_| Fail::new("call-hangs", "follow-up did not return"))?;
                ensure!(matches!(r, Ok(Ok(_))), "connection-unusable", "follow-up call failed: {:?}", r.map(|r| r.map(|_| ())));
                if let Some(l) = limit {
                    for s in &io.message_sizes {
                        ensure!(*s <= l, "oversized-message-on-wire", "client: a {s}-byte message reached the peer, limit {l}");
                    }
                }
                io.close().await;
                Ok(())
            }
        }
    };
    let res: Result<(), Fail> = if single_thread { crate::util::block_on(fut) } else { block_on(fut) };
    res?;
    Ok(CaseInfo::new(near)
        .class(format!("{:?}", c.path))
        .class(match c.limit {
            None => "limit=none".to_string(),
            Some(l) => format!("limit={l}"),
        })
        .class(if over { "over" } else { "within" }))
}

fn limits_for(tier: Tier) -> Vec<Option<u32>> {
    let mut v = vec![Some(1024), Some(4096), Some(65536), Some(1 << 20), None];
    if tier == Tier::Thorough {
        v.push(Some(16 << 20));
    }
    v
}

pub fn boundary_cases(tier: Tier) -> Vec<Case> {
    let mut v = Vec::new();
    for path in PATHS {
        for limit in limits_for(tier) {
            let base = limit.unwrap_or(70_000) as i64;
            for d in [-2i64, -1, 0, 1, 2] {
                v.push(Case {
                    path,
                    limit,
                    size: (base + d) as u32,
                    fill: 0x40 + (d + 2) as u8,
                    query_slack: 0,
                    upstream_error: false,
                });
            }
            v.push(Case {
                path,
                limit,
                size: (base * 2).min(3 << 20) as u32,
                fill: 0x50,
                query_slack: 0,
                upstream_error: false,
            });
            // the echoed query takes up almost the whole frame budget (response paths)
            if matches!(path, Path::InlineResponse | Path::OffReaderResponse | Path::Proxy) && limit.is_some_and(|l| l <= 1 << 16) {
                for (slack, d) in [(60u16, 1i64), (100, 1), (170, 1), (300, 4000), (100, 0), (100, -1)] {
                    v.push(Case {
                        path,
                        limit,
                        size: (base + d).max(200) as u32,
                        fill: 0x60,
                        query_slack: slack,
                        upstream_error: false,
                    });
                }
            }
            // upstream error replies through the proxy
            if path == Path::Proxy {
                for d in [-2i64, 0, 1, 2, base] {
                    v.push(Case {
                        path,
                        limit,
                        size: (base + d) as u32,
                        fill: 0x70,
                        query_slack: 0,
                        upstream_error: true,
                    });
                }
            }
        }
    }
    v
}

fn case(tier: Tier) -> BoxedStrategy<Case> {
    let ls = limits_for(tier);
    (
        prop::sample::select(PATHS.to_vec()),
        prop::sample::select(ls),
        any::<u32>(),
        any::<u8>(),
        0u8..4,
        prop_oneof![3 => Just(0u16), 2 => 40u16..400],
        prop::bool::weighted(0.3),
    )
        .prop_map(|(path, limit, r, fill, mode, query_slack, upstream_error)| {
            let l = limit.unwrap_or(65536) as u64;
            let size = match mode {
                0 => 200 + (r as u64 % l.max(201).saturating_sub(200)),
                1 => l + (r as u64 % 5) - 2,
                2 => l + 1 + (r as u64 % l.min(1 << 20)),
                _ => 200 + (r as u64 % 4000),
            }
            .clamp(200, 20 << 20) as u32;
            Case {
                path,
                limit,
                size,
                fill,
                query_slack: if matches!(path, Path::InlineResponse | Path::OffReaderResponse | Path::Proxy) { query_slack } else { 0 },
                upstream_error: upstream_error && path == Path::Proxy,
            }
        })
        .boxed()
}

pub fn run(ctx: &Ctx, rep: &Report) {
    run_enum(ctx, rep, "boundaries", &boundary_cases(ctx.tier), true, &check);
    let tier = ctx.tier;
    run_prop(ctx, rep, "random", ctx.tier.pick(700, 150_000), &move || case(tier), &check);
}

pub fn replay(sub: &str, case: &serde_json::Value) -> Result<(), Fail> {
    match sub {
        "boundaries" | "random" => replay_case::<Case>(case, &check),
        _ => Err(Fail::new("replay-unknown-sub", sub.to_string())),
    }
}
