//! C01 socket routes: the bytes the clients put on the wire and the bytes the
//! servers answer with, compared with the independent layout-table encoder.

use crate::engine::*;
use crate::ensure;
use crate::gens::*;
use crate::oracle::codec::{self, OHeader};
use crate::peers::dws;
use crate::peers::net::*;
use crate::util::{block_on_mt as block_on, diff_msg};
use proptest::prelude::*;
use repe::message::Message;
use repe::server::HandlerErased;
use repe::{AsyncClient, AsyncServer, Client, RepeError, Router, Server, WebSocketClient, WebSocketServer};
use serde::{Deserialize, Serialize};
use serde_json::Value;
use std::sync::Arc;
use std::time::Duration;
use tokio::io::{AsyncReadExt, AsyncWriteExt};

#[derive(Debug, Clone, Copy, Serialize, Deserialize, Hash, PartialEq, Eq)]
pub enum Endpoint {
    Client,
    AsyncClient,
    WsClient,
    Server,
    AsyncServer,
    WsServer,
}

#[derive(Debug, Clone, Serialize, Deserialize, Hash, PartialEq, Eq)]
pub struct NetCase {
    pub endpoint: Endpoint,
    pub notify: bool,
    pub qf: u16,
    pub bf: u16,
    pub qlen: usize,
    pub blen: usize,
    pub seed: u64,
    /// server side: fields the handler puts into its prepared response
    pub version: u8,
    pub resp_notify: u8,
    pub reserved: u32,
    pub resp_id: u64,
    pub ec: u32,
    /// server side: the handler sets its own response query of this length (0 = echo)
    pub own_query: usize,
}

/// Erased handler returning a response prepared from a spec carried in the request body.
struct Prepared;

#[derive(Serialize, Deserialize)]
struct Spec {
    version: u8,
    notify: u8,
    reserved: u32,
    id: u64,
    qf: u16,
    bf: u16,
    ec: u32,
    own_query: usize,
    blen: usize,
    seed: u64,
}

impl HandlerErased for Prepared {
    fn handle(&self, req: &Message) -> Result<Message, RepeError> {
        let s: Spec = serde_json::from_slice(&req.body).map_err(RepeError::from)?;
        let mut m = Message::builder().body_bytes(fill(s.blen, s.seed)).build();
        m.header.version = s.version;
        m.header.notify = s.notify;
        m.header.reserved = s.reserved;
        m.header.id = s.id;
        m.header.query_format = s.qf;
        m.header.body_format = s.bf;
        m.header.ec = s.ec;
        if s.own_query > 0 {
            m.query = fill(s.own_query, s.seed ^ 0x51);
            m.header.query_length = m.query.len() as u64;
            m.header.length = 48 + m.header.query_length + m.header.body_length;
        }
        Ok(m)
    }
}

fn wd() -> Duration {
    if failure_seen() { Duration::from_millis(800) } else { Duration::from_secs(10) }
}

fn path_of(c: &NetCase) -> String {
    let mut p = String::from("/p");
    while p.len() < c.qlen.max(2) {
        p.push((b'a' + (p.len() % 26) as u8) as char);
    }
    p
}

pub fn check(c: &NetCase) -> CheckResult {
    let body = fill(c.blen, c.seed);
    match c.endpoint {
        Endpoint::Client | Endpoint::AsyncClient | Endpoint::WsClient => {
            let path = path_of(c);
            let got: Frame = block_on(async {
                let (listener, addr) = listen().await.map_err(|e| Fail::new("harness-listen", e.to_string()))?;
                let (b2, p2, c2) = (body.clone(), path.clone(), c.clone());
                match c.endpoint {
                    Endpoint::Client => {
                        let a = addr.to_string();
                        let cl = tokio::task::spawn_blocking(move || Client::connect(a)).await.unwrap().map_err(|e| Fail::new("harness-connect", e.to_string()))?;
                        let mut io = accept_tcp(&listener).await.map_err(|e| Fail::new("harness-accept", e.to_string()))?;
                        let call = tokio::task::spawn_blocking(move || {
                            if c2.notify {
                                cl.notify_with_formats(&p2, c2.qf, Some(&b2), c2.bf).map(|_| ())
                            } else {
                                cl.call_with_formats_and_timeout(&p2, c2.qf, Some(&b2), c2.bf, Duration::from_secs(20)).map(|_| ())
                            }
                        });
                        let f = tokio::time::timeout(wd(), io.recv()).await.map_err(|_| Fail::new("no-frame", "client sent nothing"))?.map_err(|e| Fail::new("bad-frame", e.to_string()))?.ok_or_else(|| Fail::new("no-frame", "eof"))?;
                        if !c.notify {
                            let _ = io.send(&response_frame(&f, 0, 2, b"1")).await;
                        }
                        let _ = call.await;
                        Ok::<_, Fail>(f)
                    }
                    Endpoint::AsyncClient => {
                        let cl = AsyncClient::connect(addr).await.map_err(|e| Fail::new("harness-connect", e.to_string()))?;
                        let mut io = accept_tcp(&listener).await.map_err(|e| Fail::new("harness-accept", e.to_string()))?;
                        let call = tokio::spawn(async move {
                            if c2.notify {
                                cl.notify_with_formats(&p2, c2.qf, Some(&b2), c2.bf).await.map(|_| ())
                            } else {
                                cl.call_with_formats_and_timeout(&p2, c2.qf, Some(&b2), c2.bf, Duration::from_secs(20)).await.map(|_| ())
                            }
                        });
                        let f = tokio::time::timeout(wd(), io.recv()).await.map_err(|_| Fail::new("no-frame", "client sent nothing"))?.map_err(|e| Fail::new("bad-frame", e.to_string()))?.ok_or_else(|| Fail::new("no-frame", "eof"))?;
                        if !c.notify {
                            let _ = io.send(&response_frame(&f, 0, 2, b"1")).await;
                        }
                        let _ = call.await;
                        Ok(f)
                    }
                    _ => {
                        let url = format!("ws://{addr}");
                        let (cl, io) = tokio::join!(WebSocketClient::connect(&url), accept_ws(&listener));
                        let cl = cl.map_err(|e| Fail::new("harness-connect", e.to_string()))?;
                        let mut io = io.map_err(|e| Fail::new("harness-accept", e.to_string()))?;
                        let call = tokio::spawn(async move {
                            if c2.notify {
                                cl.notify_with_formats(&p2, c2.qf, Some(&b2), c2.bf).await.map(|_| ())
                            } else {
                                cl.call_with_formats_and_timeout(&p2, c2.qf, Some(&b2), c2.bf, Duration::from_secs(20)).await.map(|_| ())
                            }
                        });
                        let f = tokio::time::timeout(wd(), io.recv()).await.map_err(|_| Fail::new("no-frame", "client sent nothing"))?.map_err(|e| Fail::new("bad-frame", e.to_string()))?.ok_or_else(|| Fail::new("no-frame", "eof"))?;
                        if !c.notify {
                            let _ = io.send(&response_frame(&f, 0, 2, b"1")).await;
                        }
                        let _ = call.await;
                        Ok(f)
                    }
                }
            })?;
            let want = codec::encode_frame(
                &OHeader {
                    spec: codec::MAGIC,
                    version: 1,
                    notify: c.notify as u8,
                    id: got.header.id,
                    query_format: c.qf,
                    body_format: c.bf,
                    ..OHeader::default()
                },
                path.as_bytes(),
                &body,
            );
            ensure!(
                got.raw == want,
                format!("{:?}-request-bytes", c.endpoint),
                "{:?}: {}",
                c.endpoint,
                diff_msg("request on the wire vs layout table", &got.raw, &want)
            );
            Ok(CaseInfo::new(c.blen > 0).class(format!("{:?}", c.endpoint)).class(if c.notify { "notify" } else { "call" }))
        }
        Endpoint::Server | Endpoint::AsyncServer | Endpoint::WsServer => {
            let router = Router::new().with_erased_handler("/prep", Arc::new(Prepared));
            let spec = Spec {
                version: c.version,
                notify: c.resp_notify,
                reserved: c.reserved,
                id: c.resp_id,
                qf: c.qf,
                bf: c.bf,
                ec: c.ec,
                own_query: c.own_query,
                blen: c.blen,
                seed: c.seed,
            };
            let req = frame_with(77, 0, b"/prep", 1, &serde_json::to_vec(&spec).unwrap(), 2, 0);
            let query = if c.own_query > 0 { fill(c.own_query, c.seed ^ 0x51) } else { b"/prep".to_vec() };
            let want = codec::encode_frame(
                &OHeader {
                    spec: codec::MAGIC,
                    version: c.version,
                    notify: c.resp_notify,
                    reserved: c.reserved,
                    id: c.resp_id,
                    query_format: c.qf,
                    body_format: c.bf,
                    ec: c.ec,
                    ..OHeader::default()
                },
                &query,
                &body,
            );
            let got: Vec<u8> = match c.endpoint {
                Endpoint::Server => {
                    let server = Server::new(router);
                    let l = server.listen(crate::util::lo0().as_str()).map_err(|e| Fail::new("harness-listen", e.to_string()))?;
                    let addr = l.local_addr().unwrap();
                    crate::peers::net::stop_at_end_of_case(&l);
                    std::thread::spawn(move || {
                        let _ = server.serve(l);
                    });
                    block_on(raw_roundtrip(addr, req, want.len()))?
                }
                Endpoint::AsyncServer => block_on(async {
                    let l = AsyncServer::listen(crate::util::lo0().as_str()).await.map_err(|e| Fail::new("harness-listen", e.to_string()))?;
                    let addr = l.local_addr().unwrap();
                    let srv = tokio::spawn(async move {
                        let _ = AsyncServer::new(router).serve(l).await;
                    });
                    let r = raw_roundtrip(addr, req, want.len()).await;
                    srv.abort();
                    r
                })?,
                _ => block_on(async {
                    let shared = WebSocketServer::new(router).into_shared();
                    let conn = dws::connect(&shared, 1 << 16).await;
                    let mut io = conn.io;
                    io.send(&req).await.map_err(|e| Fail::new("harness-send", e.to_string()))?;
                    let raw = tokio::time::timeout(wd(), io.recv_raw()).await.map_err(|_| Fail::new("no-frame", "no response"))?.map_err(|e| Fail::new("bad-frame", e.to_string()))?.ok_or_else(|| Fail::new("no-frame", "eof"))?;
                    io.close().await;
                    Ok::<_, Fail>(raw)
                })?,
            };
            ensure!(
                got == want,
                format!("{:?}-response-bytes", c.endpoint),
                "{:?} (own query {} bytes): {}",
                c.endpoint,
                c.own_query,
                diff_msg("response on the wire vs layout table", &got, &want)
            );
            Ok(CaseInfo::new(c.own_query > 0 || c.blen > 0)
                .class(format!("{:?}", c.endpoint))
                .class(if c.own_query > 0 { "own-query" } else { "echo" }))
        }
    }
}

async fn raw_roundtrip(addr: std::net::SocketAddr, req: Vec<u8>, want_len: usize) -> Result<Vec<u8>, Fail> {
    let mut s = tokio::net::TcpStream::connect(addr).await.map_err(|e| Fail::new("harness-connect", e.to_string()))?;
    s.write_all(&req).await.map_err(|e| Fail::new("harness-send", e.to_string()))?;
    let _ = s.shutdown().await;
    let mut got = Vec::new();
    let _ = tokio::time::timeout(wd(), s.read_to_end(&mut got)).await;
    let _ = want_len;
    Ok(got)
}

fn net_case() -> BoxedStrategy<NetCase> {
    (
        prop::sample::select(vec![Endpoint::Client, Endpoint::AsyncClient, Endpoint::WsClient, Endpoint::Server, Endpoint::AsyncServer, Endpoint::WsServer]),
        any::<bool>(),
        (any_u16_mix(), any_u16_mix()),
        (prop_oneof![2usize..40, 40usize..300], payload_len(70_000), any::<u64>()),
        (any_u8_mix(), prop_oneof![Just(0u8), any_u8_mix()], any_u32_mix(), any_u64_mix(), any_u32_mix()),
        prop_oneof![3 => Just(0usize), 2 => 1usize..64, 1 => 64usize..5000],
    )
        .prop_map(|(endpoint, notify, (qf, bf), (qlen, blen, seed), (version, resp_notify, reserved, resp_id, ec), own_query)| NetCase {
            endpoint,
            notify,
            qf,
            bf,
            qlen,
            blen,
            seed,
            version,
            resp_notify,
            reserved,
            resp_id,
            ec,
            own_query,
        })
        .boxed()
}

pub fn run(ctx: &Ctx, rep: &Report) {
    run_prop(ctx, rep, "net-routes", ctx.tier.pick(900, 60_000), &|| net_case(), &check);
}

pub fn replay(sub: &str, case: &Value) -> Result<(), Fail> {
    match sub {
        "net-routes" => replay_case::<NetCase>(case, &check),
        _ => Err(Fail::new("replay-unknown-sub", sub.to_string())),
    }
}
