//! Shared operation language, reference model and interpreter for the
//! `TransferControl` histories of C11 (credit accounting) and C13 (replay ring).

use crate::engine::*;
use crate::ensure;
use crate::gens::fill;
use repe::stream::{CreditError, ReconnectOutcome, TransferControl};
use repe::{NotifyBody, PeerHandle, PeerId, PeerSendError, PeerSink};
use serde::{Deserialize, Serialize};
use std::sync::Arc;
use std::time::{Duration, Instant};

pub struct NullSink;
impl PeerSink for NullSink {
    fn send_notify(&self, _m: &str, _b: NotifyBody) -> Result<(), PeerSendError> {
        Ok(())
    }
}

pub fn peer(n: u64) -> PeerHandle {
    PeerHandle::new(PeerId(n), Arc::new(NullSink))
}

#[derive(Debug, Clone, Serialize, Deserialize, Hash, PartialEq, Eq)]
pub enum Op {
    /// record_sent(offset)
    Sent(u64),
    /// Push the next contiguous chunk (data_len logical bytes, data_len+overhead
    /// wire bytes) and, if `send`, record_sent(end of chunk) — the documented loop.
    Push {
        data_len: u64,
        overhead: u8,
        last: bool,
        send: bool,
    },
    Ack {
        file: u32,
        off: u64,
    },
    Advance(u32),
    Resume {
        file: u32,
        off: u64,
    },
    /// Resume at an offset chosen relative to the retained ring: index into
    /// [boundaries of R..., end of R, mid-chunk, evicted, past-end].
    ResumeAt {
        sel: u16,
    },
    Cancel(u8),
    WaitCredit(u64),
    WaitReconnect,
}

#[derive(Debug, Clone, Serialize, Deserialize, Hash, PartialEq, Eq)]
pub struct Hist {
    pub window: u64,
    pub capacity: u64,
    pub ops: Vec<Op>,
}

#[derive(Clone, Debug, PartialEq, Eq)]
struct PChunk {
    offset: u64,
    data_len: u64,
    last: bool,
    body: Vec<u8>,
}

#[derive(Default, Debug, Clone)]
pub struct Stats {
    pub ack_after_advance: bool,
    pub resume_attempts: u32,
    pub resume_accepted: u32,
    pub cancel_between_wait_and_send: bool,
    pub evictions_before_resume: bool,
    pub evictions: u32,
    pub credit_denied: u32,
    pub credit_granted: u32,
    pub hostile_ack: bool,
}

pub struct Flags {
    pub credit: bool,
    pub ring: bool,
}

fn reason(i: u8) -> String {
    format!("reason-{i}")
}

/// Run a history against a fresh `TransferControl`, checking the model after
/// every step. `flags` selects which property's obligations are asserted.
pub fn run_history(h: &Hist, flags: &Flags) -> Result<Stats, Fail> {
    let tc = TransferControl::with_replay_capacity(h.window, h.capacity);
    let mut st = Stats::default();
    // Reference model (u128 arithmetic).
    let mut sent: u128 = 0;
    let mut acked: u128 = 0;
    let mut file: u32 = 0;
    let mut cancelled: Option<String> = None;
    let mut pending: Option<u64> = None;
    let mut pushed: Vec<PChunk> = Vec::new(); // every chunk pushed for the current file
    let mut next_off: u64 = 0;
    let mut peer_seq: u64 = 100;
    let mut cur_peer: Option<u64> = None;
    let mut advanced = false;
    let mut last_was_granted_wait = false;
    let mut evicted_any = false;
    let window = h.window as u128;

    // A wait the model says must be granted returns at once; the deadline only
    // bounds the damage when the implementation is wrong.
    let grant_wait = if failure_seen() {
        Duration::from_millis(40)
    } else {
        Duration::from_secs(2)
    };
    for (step, op) in h.ops.iter().enumerate() {
        let at = |s: &str| format!("step {step} {op:?}: {s}");
        let mut granted_wait = false;
        match op {
            Op::Sent(o) => {
                tc.record_sent(*o);
                if (*o as u128) > sent {
                    sent = *o as u128;
                }
            }
            Op::Push {
                data_len,
                overhead,
                last,
                send,
            } => {
                let wire = (*data_len + *overhead as u64) as usize;
                let body = fill(wire, next_off ^ (*data_len << 8) ^ step as u64);
                tc.push_replay(next_off, *data_len, *last, body.clone());
                pushed.push(PChunk {
                    offset: next_off,
                    data_len: *data_len,
                    last: *last,
                    body,
                });
                next_off += *data_len;
                if *send {
                    if last_was_granted_wait && cancelled.is_some() {
                        st.cancel_between_wait_and_send = true;
                    }
                    tc.record_sent(next_off);
                    if (next_off as u128) > sent {
                        sent = next_off as u128;
                    }
                }
            }
            Op::Ack { file: f, off } => {
                if advanced {
                    st.ack_after_advance = true;
                }
                if *f != file || (*off as u128) > sent {
                    st.hostile_ack = true;
                }
                tc.record_ack(*f, *off);
                if *f == file {
                    let capped = (*off as u128).min(sent);
                    if capped > acked {
                        acked = capped;
                    }
                }
            }
            Op::Advance(f) => {
                tc.advance_to_file(*f);
                file = *f;
                sent = 0;
                acked = 0;
                pushed.clear();
                next_off = 0;
                pending = None;
                advanced = true;
                evicted_any = false;
            }
            Op::Resume { .. } | Op::ResumeAt { .. } => {
                let ring = tc.replay_chunks_from(0);
                let (f, off) = match op {
                    Op::Resume { file: f, off } => (*f, *off),
                    Op::ResumeAt { sel } => {
                        // Candidates: each retained boundary, the trailing edge, a
                        // mid-chunk offset, an evicted offset, past the end, zero.
                        let mut cands: Vec<u64> = ring.iter().map(|c| c.offset).collect();
                        let end = ring.last().map(|c| c.offset + c.data_len).unwrap_or(0);
                        cands.push(end);
                        cands.push(end + 1);
                        cands.push(0);
                        if let Some(c) = ring.iter().find(|c| c.data_len >= 2) {
                            cands.push(c.offset + 1);
                        }
                        if let (Some(first), Some(p0)) = (ring.first(), pushed.first())
                            && p0.offset < first.offset
                        {
                            cands.push(p0.offset);
                            cands.push(first.offset.saturating_sub(1));
                        }
                        (file, cands[pick_idx(*sel, cands.len())])
                    }
                    _ => unreachable!(),
                };
                st.resume_attempts += 1;
                if evicted_any {
                    st.evictions_before_resume = true;
                }
                peer_seq += 1;
                let res = tc.request_resume(peer(peer_seq), f, off);
                let end = ring.last().map(|c| c.offset + c.data_len);
                let covers = if ring.is_empty() {
                    off == 0
                } else {
                    ring.iter().any(|c| c.offset == off) || end == Some(off)
                };
                let expect_accept = cancelled.is_none() && f == file && covers;
                if flags.credit && cancelled.is_some() {
                    ensure!(
                        res.is_err(),
                        "resume-accepted-after-cancel",
                        "{}",
                        at("request_resume accepted although the transfer is cancelled")
                    );
                }
                if flags.ring {
                    ensure!(
                        res.is_ok() == expect_accept,
                        if expect_accept {
                            "resume-rejected-wrongly"
                        } else {
                            "resume-accepted-wrongly"
                        },
                        "{}",
                        at(&format!(
                            "request_resume(file={f}, off={off}) returned {:?}; expected accept={expect_accept} (current file {file}, cancelled={}, retained offsets {:?}, end {:?})",
                            res,
                            cancelled.is_some(),
                            ring.iter().map(|c| c.offset).collect::<Vec<_>>(),
                            end
                        ))
                    );
                }
                if let Ok(got) = res {
                    st.resume_accepted += 1;
                    pending = Some(off);
                    cur_peer = Some(peer_seq);
                    if flags.ring {
                        ensure!(got == off, "resume-returns-offset", "{}", at("Ok(offset) differs from the request"));
                        // The replay tail starts exactly at `off`, is contiguous,
                        // byte-identical to what was pushed, and ends at the last byte pushed.
                        let tail = tc.replay_chunks_from(off);
                        ensure!(
                            tail.len() <= pushed.len(),
                            "replay-tail-length",
                            "{}",
                            at(&format!(
                                "replay tail has {} chunks but only {} were pushed",
                                tail.len(),
                                pushed.len()
                            ))
                        );
                        // Byte-identical suffix of what was pushed (hence contiguous and
                        // ending at the last byte emitted) ...
                        let want = &pushed[pushed.len() - tail.len()..];
                        for (t, w) in tail.iter().zip(want.iter()) {
                            ensure!(
                                t.offset == w.offset
                                    && t.data_len == w.data_len
                                    && t.last == w.last
                                    && *t.body_bytes == w.body,
                                "replay-tail-bytes",
                                "{}",
                                at(&format!(
                                    "tail {:?} is not a byte-identical suffix of pushed {:?}",
                                    tail.iter().map(|c| (c.offset, c.data_len)).collect::<Vec<_>>(),
                                    pushed.iter().map(|c| (c.offset, c.data_len)).collect::<Vec<_>>()
                                ))
                            );
                        }
                        // ... that starts exactly at the accepted offset.
                        match tail.first() {
                            Some(t) => ensure!(
                                t.offset == off,
                                "replay-tail-gap",
                                "{}",
                                at(&format!(
                                    "accepted resume at {off} but the replay tail starts at {}",
                                    t.offset
                                ))
                            ),
                            None => ensure!(
                                off == next_off,
                                "replay-tail-short",
                                "{}",
                                at(&format!(
                                    "accepted resume at {off} offers nothing to replay, but bytes were emitted up to {next_off}"
                                ))
                            ),
                        }
                        let p = tc.peer().map(|p| p.peer_id().0);
                        ensure!(
                            p == cur_peer,
                            "resume-peer-not-installed",
                            "{}",
                            at(&format!("peer() is {:?}, expected the resuming peer {:?}", p, cur_peer))
                        );
                    }
                    // acked may be bumped to `off` (credit-freeing resume) — allowed, not required.
                    let (_, a) = tc.offsets();
                    let a = a as u128;
                    if flags.credit {
                        ensure!(
                            a == acked || (a == off as u128 && a > acked && a <= sent),
                            "resume-acked-bump",
                            "{}",
                            at(&format!("acked after resume is {a}; was {acked}, resume offset {off}, sent {sent}"))
                        );
                    }
                    acked = a;
                } else if flags.ring {
                    // A rejected resume changes nothing.
                    let p = tc.peer().map(|p| p.peer_id().0);
                    ensure!(
                        p == cur_peer,
                        "rejected-resume-changed-peer",
                        "{}",
                        at("a rejected resume replaced the peer")
                    );
                }
            }
            Op::Cancel(r) => {
                tc.cancel(reason(*r));
                if cancelled.is_none() {
                    cancelled = Some(reason(*r));
                }
            }
            Op::WaitCredit(len) => {
                let in_flight = sent - acked.min(sent);
                let fits = in_flight == 0 || in_flight + (*len as u128) <= window;
                if let Some(r) = &cancelled {
                    let res = tc.wait_for_credit(*len, Instant::now() + grant_wait);
                    if flags.credit {
                        match res {
                            Err(CreditError::Cancelled(got)) => ensure!(
                                got == *r,
                                "cancel-reason-not-first",
                                "{}",
                                at(&format!("Cancelled({got}) but the first reason was {r}"))
                            ),
                            other => {
                                return Err(Fail::new(
                                    "wait-ignores-cancel",
                                    at(&format!("wait_for_credit returned {other:?} after cancel")),
                                ));
                            }
                        }
                    }
                } else if fits {
                    let res = tc.wait_for_credit(*len, Instant::now() + grant_wait);
                    st.credit_granted += 1;
                    granted_wait = true;
                    if flags.credit {
                        ensure!(
                            res.is_ok(),
                            "credit-not-granted",
                            "{}",
                            at(&format!(
                                "wait_for_credit({len}) returned {res:?} although in_flight={in_flight} window={window} has room"
                            ))
                        );
                    }
                } else {
                    // Expired deadline: must not grant.
                    let res = tc.wait_for_credit(*len, Instant::now());
                    st.credit_denied += 1;
                    if flags.credit {
                        ensure!(
                            !res.is_ok(),
                            "credit-over-granted",
                            "{}",
                            at(&format!(
                                "wait_for_credit({len}) granted credit with in_flight={in_flight} window={window}"
                            ))
                        );
                        ensure!(
                            matches!(res, Err(CreditError::Timeout)),
                            "credit-wrong-error",
                            "{}",
                            at(&format!("expected Timeout, got {res:?}"))
                        );
                    }
                }
            }
            Op::WaitReconnect => {
                let res = tc.wait_for_reconnect(Duration::ZERO);
                if let Some(r) = &cancelled {
                    if flags.credit {
                        match &res {
                            ReconnectOutcome::Cancelled(got) => ensure!(
                                got == r,
                                "cancel-reason-not-first",
                                "{}",
                                at(&format!("Cancelled({got}) but the first reason was {r}"))
                            ),
                            other => {
                                return Err(Fail::new(
                                    "reconnect-ignores-cancel",
                                    at(&format!("wait_for_reconnect returned {other:?} after cancel")),
                                ));
                            }
                        }
                    }
                } else if flags.ring {
                    match (&res, pending) {
                        (ReconnectOutcome::ResumeReady(p), Some(o)) => ensure!(
                            p.resume_at_offset == o,
                            "reconnect-wrong-offset",
                            "{}",
                            at(&format!("ResumeReady({}) expected {o}", p.resume_at_offset))
                        ),
                        (ReconnectOutcome::Timeout, None) => {}
                        (got, want) => {
                            return Err(Fail::new(
                                "reconnect-outcome",
                                at(&format!("wait_for_reconnect returned {got:?}, pending resume was {want:?}")),
                            ));
                        }
                    }
                }
                if cancelled.is_none() && matches!(res, ReconnectOutcome::ResumeReady(_)) {
                    pending = None;
                }
            }
        }
        last_was_granted_wait = granted_wait;

        // ---- invariants after every step ----
        let (s, a) = tc.offsets();
        if flags.credit {
            ensure!(
                a <= s,
                "acked-exceeds-sent",
                "{}",
                at(&format!("offsets() = (sent {s}, acked {a})"))
            );
            ensure!(
                s as u128 == sent && a as u128 == acked,
                "offsets-diverge-from-model",
                "{}",
                at(&format!("offsets() = ({s}, {a}), model = ({sent}, {acked})"))
            );
            ensure!(
                tc.is_cancelled() == cancelled.is_some() && tc.cancel_reason() == cancelled,
                "cancel-state",
                "{}",
                at(&format!(
                    "cancel_reason() = {:?}, model = {:?}",
                    tc.cancel_reason(),
                    cancelled
                ))
            );
        } else {
            // keep the model usable for predictions even when not asserting
            sent = s as u128;
            acked = a as u128;
        }
        if flags.ring {
            let ring = tc.replay_chunks_from(0);
            if ring.len() < pushed.len() {
                evicted_any = true;
                st.evictions = (pushed.len() - ring.len()) as u32;
            }
            ensure!(
                ring.len() <= pushed.len(),
                "ring-invented-chunks",
                "{}",
                at("ring holds more chunks than were pushed")
            );
            let suffix = &pushed[pushed.len() - ring.len()..];
            for (r, p) in ring.iter().zip(suffix.iter()) {
                ensure!(
                    r.offset == p.offset
                        && r.data_len == p.data_len
                        && r.last == p.last
                        && *r.body_bytes == p.body,
                    "ring-not-suffix",
                    "{}",
                    at(&format!(
                        "retained chunks {:?} are not a byte-identical suffix of pushed {:?}",
                        ring.iter().map(|c| (c.offset, c.data_len)).collect::<Vec<_>>(),
                        pushed.iter().map(|c| (c.offset, c.data_len)).collect::<Vec<_>>()
                    ))
                );
            }
            ensure!(
                pushed.is_empty() || !ring.is_empty(),
                "ring-lost-latest",
                "{}",
                at("chunks were pushed since the last advance but the ring is empty")
            );
            let held: u128 = ring.iter().map(|c| c.body_bytes.len() as u128).sum();
            ensure!(
                held <= h.capacity as u128 || ring.len() == 1,
                "ring-over-capacity",
                "{}",
                at(&format!(
                    "ring holds {held} wire bytes in {} chunks, capacity {}",
                    ring.len(),
                    h.capacity
                ))
            );
        }
    }
    Ok(st)
}

/// Greedy delta-debugging of a failing history (used by the exhaustive drivers,
/// which bypass proptest): drop ops while the same signature still fails.
pub fn shrink_history(h: &Hist, flags: &Flags, sig: &str) -> Hist {
    let mut cur = h.clone();
    loop {
        let mut improved = false;
        let mut i = 0;
        while i < cur.ops.len() {
            let mut cand = cur.clone();
            cand.ops.remove(i);
            let still = matches!(
                std::panic::catch_unwind(std::panic::AssertUnwindSafe(|| run_history(&cand, flags))),
                Ok(Err(ref f)) if f.sig == sig
            ) || (sig == "panic"
                && std::panic::catch_unwind(std::panic::AssertUnwindSafe(|| {
                    run_history(&cand, flags)
                }))
                .is_err());
            if still {
                cur = cand;
                improved = true;
            } else {
                i += 1;
            }
        }
        if !improved {
            return cur;
        }
    }
}
