//! C12 — a parked producer is always woken by the event it waits for.

use super::stream_model::peer;
use crate::engine::*;
use crate::ensure;
use proptest::prelude::*;
use repe::stream::{CreditError, ReconnectOutcome, TransferControl};
use serde::{Deserialize, Serialize};
use serde_json::Value;
use std::sync::atomic::{AtomicBool, AtomicU64, Ordering};
use std::sync::{Arc, Barrier, mpsc};
use std::time::{Duration, Instant};

pub const RULE: &str = "generated real-thread schedules: one waiter (wait_for_credit or wait_for_reconnect, far-future deadline) against 1..3 signaller threads running generated op lists over {ack, send, cancel, advance, resume} with generated start order (parked-first: signals start >=1.5 ms after the waiter's start stamp; racing: barrier start) and inter-op spins; oracle is schedule-independent: if the final state satisfies the waiter's predicate the waiter must have returned within the watchdog, otherwise the harness cancels and the waiter must return Cancelled; result kinds limited to what the issued operations make possible; deadline cases must time out no earlier than the deadline; (entry-race) one satisfying signal issued at a swept sub-microsecond delay around the entry of the waiter, thousands of rounds per (waiter, signal) pair: the waiter always returns; (resume-frees-credit) a producer parked on a full, unacknowledged window returns with credit when the receiver resumes at any chunk boundary up to everything sent; (deadline-rearm) with another thread issuing non-satisfying wake-ups for 90% of the deadline the waiter still times out within 1.55x the deadline (confirmed twice); non-trivial = the waiter was parked (start stamp + 1 ms earlier than the first signal); distinct = case hash";

#[derive(Debug, Clone, Copy, Serialize, Deserialize, Hash, PartialEq, Eq)]
pub enum Waiter {
    Credit { len: u64 },
    Reconnect,
}

#[derive(Debug, Clone, Copy, Serialize, Deserialize, Hash, PartialEq, Eq)]
pub enum SigOp {
    Ack { file: u32, off: u64 },
    Send { len: u64 },
    Cancel(u8),
    Advance(u32),
    /// request_resume at the k-th pushed boundary (always a retained boundary).
    Resume { k: u8 },
}

#[derive(Debug, Clone, Serialize, Deserialize, Hash, PartialEq, Eq)]
pub struct Sched {
    pub waiter: Waiter,
    pub window: u64,
    /// Chunks pushed and sent before the waiter starts (each `chunk` bytes).
    pub pre_chunks: u8,
    pub chunk: u64,
    pub parked_first: bool,
    /// Each signaller: list of (spin before op in microseconds, op).
    pub signallers: Vec<Vec<(u16, SigOp)>>,
    /// Some(ms): no satisfying signal is generated; the wait must time out.
    pub deadline_ms: Option<u16>,
}

fn spin(us: u16) {
    if us == 0 {
        return;
    }
    if us >= 1000 {
        std::thread::sleep(Duration::from_micros(us as u64));
        return;
    }
    let end = Instant::now() + Duration::from_micros(us as u64);
    while Instant::now() < end {
        std::hint::spin_loop();
    }
}

fn watchdog() -> Duration {
    if failure_seen() {
        Duration::from_millis(300)
    } else {
        Duration::from_secs(10)
    }
}

#[derive(Debug)]
enum WaitResult {
    Credit(Result<(), CreditError>),
    Reconnect(ReconnectOutcome),
}

pub fn check(s: &Sched) -> CheckResult {
    let tc = TransferControl::with_replay_capacity(s.window, 1 << 30);
    tc.set_peer(peer(1));
    // Pre-fill: push + send chunks so the waiter has something in flight.
    let mut off = 0u64;
    let mut boundaries = vec![0u64];
    for _ in 0..s.pre_chunks {
        tc.push_replay(off, s.chunk, false, vec![7u8; s.chunk as usize]);
        off += s.chunk;
        tc.record_sent(off);
        boundaries.push(off);
    }
    let boundaries = Arc::new(boundaries);
    let epoch = Instant::now();
    let start_stamp = Arc::new(AtomicU64::new(0));
    let (tx, rx) = mpsc::channel::<(WaitResult, Duration)>();
    let nthreads = s.signallers.len() + 1;
    let barrier = Arc::new(Barrier::new(if s.parked_first { 1 } else { nthreads }));

    // --- waiter ---
    let far = Duration::from_secs(300);
    let dl = s.deadline_ms.map(|ms| Duration::from_millis(ms as u64));
    let waiter = {
        let tc = tc.clone();
        let start_stamp = start_stamp.clone();
        let barrier = barrier.clone();
        let w = s.waiter;
        let racing = !s.parked_first;
        std::thread::spawn(move || {
            if racing {
                barrier.wait();
            }
            start_stamp.store(epoch.elapsed().as_nanos() as u64 + 1, Ordering::SeqCst);
            let t0 = Instant::now();
            let res = match w {
                Waiter::Credit { len } => {
                    WaitResult::Credit(tc.wait_for_credit(len, t0 + dl.unwrap_or(far)))
                }
                Waiter::Reconnect => WaitResult::Reconnect(tc.wait_for_reconnect(dl.unwrap_or(far))),
            };
            let _ = tx.send((res, t0.elapsed()));
        })
    };
    if s.parked_first {
        // Signals start only after the waiter has certainly parked.
        while start_stamp.load(Ordering::SeqCst) == 0 {
            std::thread::yield_now();
        }
        std::thread::sleep(Duration::from_micros(1500));
    }

    // --- signallers ---
    let first_signal = Arc::new(AtomicU64::new(u64::MAX));
    let resume_ok: Arc<std::sync::Mutex<Vec<u64>>> = Arc::new(std::sync::Mutex::new(Vec::new()));
    let any_cancel = Arc::new(AtomicBool::new(false));
    let mut handles = Vec::new();
    for (i, ops) in s.signallers.iter().enumerate() {
        let tc = tc.clone();
        let ops = ops.clone();
        let barrier = barrier.clone();
        let first_signal = first_signal.clone();
        let resume_ok = resume_ok.clone();
        let any_cancel = any_cancel.clone();
        let boundaries = boundaries.clone();
        let racing = !s.parked_first;
        let chunk = s.chunk;
        handles.push(std::thread::spawn(move || {
            if racing {
                barrier.wait();
            }
            for (d, op) in ops {
                spin(d);
                first_signal.fetch_min(epoch.elapsed().as_nanos() as u64, Ordering::SeqCst);
                match op {
                    SigOp::Ack { file, off } => tc.record_ack(file, off),
                    SigOp::Send { len } => {
                        let (sent, _) = tc.offsets();
                        tc.record_sent(sent + len);
                    }
                    SigOp::Cancel(r) => {
                        any_cancel.store(true, Ordering::SeqCst);
                        tc.cancel(format!("sig-{r}"));
                    }
                    SigOp::Advance(f) => tc.advance_to_file(f),
                    SigOp::Resume { k } => {
                        let o = boundaries[pick_idx((k as u16) << 8, boundaries.len())];
                        let _ = chunk;
                        if tc.request_resume(peer(10 + i as u64), 0, o).is_ok() {
                            resume_ok.lock().unwrap().push(o);
                        }
                    }
                }
            }
        }));
    }
    for h in handles {
        let _ = h.join();
    }

    // --- oracle ---
    let (sent, acked) = tc.offsets();
    let cancelled = tc.is_cancelled();
    let accepted = resume_ok.lock().unwrap().clone();
    let final_pred = match s.waiter {
        Waiter::Credit { len } => {
            let in_flight = sent.saturating_sub(acked) as u128;
            cancelled || in_flight == 0 || in_flight + len as u128 <= s.window as u128
        }
        // No advance is generated for reconnect waiters, so a staged resume can
        // only be consumed by the waiter itself.
        Waiter::Reconnect => cancelled || !accepted.is_empty(),
    };
    let parked = {
        let st = start_stamp.load(Ordering::SeqCst);
        let fs = first_signal.load(Ordering::SeqCst);
        st != 0 && fs != u64::MAX && st + 1_000_000 < fs
    };

    let mut harness_cancelled = false;
    let got: (WaitResult, Duration);
    if let Some(d) = dl {
        // Deadline case: nothing satisfies; must time out, not early, not never.
        match rx.recv_timeout(d + watchdog()) {
            Ok(r) => got = r,
            Err(_) => {
                tc.cancel("harness-release");
                return Err(Fail::new(
                    "deadline-never-returned",
                    format!("wait with a {d:?} deadline had not returned {:?} after it", watchdog()),
                ));
            }
        }
        let _ = waiter.join();
        let timed_out = matches!(
            got.0,
            WaitResult::Credit(Err(CreditError::Timeout)) | WaitResult::Reconnect(ReconnectOutcome::Timeout)
        );
        if final_pred {
            // A generated op satisfied the predicate after all (e.g. the window was
            // never full): any non-timeout result is fine; skip as trivial.
            return Ok(CaseInfo::new(false).class("deadline-case-satisfied"));
        }
        ensure!(
            timed_out,
            "deadline-wrong-result",
            "wait whose condition never became true returned {:?}",
            got.0
        );
        ensure!(
            got.1 >= d,
            "deadline-early",
            "timed out after {:?}, before its {d:?} deadline",
            got.1
        );
        return Ok(CaseInfo::new(parked).class("deadline"));
    }

    if final_pred {
        match rx.recv_timeout(watchdog()) {
            Ok(r) => got = r,
            Err(_) => {
                tc.cancel("harness-release");
                return Err(Fail::new(
                    "lost-wakeup",
                    format!(
                        "final state (sent {sent}, acked {acked}, cancelled {cancelled}, accepted resumes {accepted:?}) satisfies the {:?} waiter's condition but it was still blocked {:?} after the last signal",
                        s.waiter,
                        watchdog()
                    ),
                ));
            }
        }
    } else {
        // Not satisfied: the harness cancels; that itself must wake the waiter.
        match rx.try_recv() {
            Ok(r) => got = r,
            Err(_) => {
                tc.cancel("harness-cancel");
                harness_cancelled = true;
                match rx.recv_timeout(watchdog()) {
                    Ok(r) => got = r,
                    Err(_) => {
                        return Err(Fail::new(
                            "lost-wakeup-on-cancel",
                            format!("cancel did not wake the {:?} waiter within {:?}", s.waiter, watchdog()),
                        ));
                    }
                }
            }
        }
    }
    let _ = waiter.join();

    // Result must be of a kind the issued operations make possible.
    let reason_ok = |r: &str| {
        (r.starts_with("sig-") && any_cancel.load(Ordering::SeqCst))
            || (r == "harness-cancel" && harness_cancelled)
    };
    match &got.0 {
        WaitResult::Credit(Ok(())) => {}
        WaitResult::Credit(Err(CreditError::Cancelled(r))) => ensure!(
            reason_ok(r),
            "impossible-cancel-reason",
            "Cancelled({r}) but no such cancel was issued"
        ),
        WaitResult::Credit(Err(CreditError::Timeout)) => {
            return Err(Fail::new(
                "timeout-under-far-deadline",
                "wait_for_credit returned Timeout under a far-future deadline",
            ));
        }
        WaitResult::Reconnect(ReconnectOutcome::ResumeReady(p)) => ensure!(
            accepted.contains(&p.resume_at_offset),
            "impossible-resume-offset",
            "ResumeReady({}) but accepted resumes were {:?}",
            p.resume_at_offset,
            accepted
        ),
        WaitResult::Reconnect(ReconnectOutcome::Cancelled(r)) => ensure!(
            reason_ok(r),
            "impossible-cancel-reason",
            "Cancelled({r}) but no such cancel was issued"
        ),
        WaitResult::Reconnect(ReconnectOutcome::Timeout) => {
            return Err(Fail::new(
                "timeout-under-far-deadline",
                "wait_for_reconnect returned Timeout under a far-future timeout",
            ));
        }
    }
    // A harness cancel was needed only when the state did not satisfy: then the
    // result must be Cancelled (or a legitimately caught transient grant).
    Ok(CaseInfo::new(parked)
        .class(if s.parked_first { "parked-first" } else { "racing" })
        .class(match s.waiter {
            Waiter::Credit { .. } => "credit-waiter",
            Waiter::Reconnect => "reconnect-waiter",
        })
        .class(if final_pred { "woken-by-signal" } else { "released-by-harness-cancel" }))
}

fn sig_op(for_reconnect: bool, max_off: u64) -> BoxedStrategy<SigOp> {
    if for_reconnect {
        prop_oneof![
            4 => (0u8..=255).prop_map(|k| SigOp::Resume { k }),
            1 => (0u8..3).prop_map(SigOp::Cancel),
            2 => (0u32..2, 0..=max_off).prop_map(|(file, off)| SigOp::Ack { file, off }),
            1 => (1u64..8).prop_map(|len| SigOp::Send { len }),
        ]
        .boxed()
    } else {
        prop_oneof![
            6 => (0u32..2, 0..=max_off + 4).prop_map(|(file, off)| SigOp::Ack { file, off }),
            2 => (1u64..8).prop_map(|len| SigOp::Send { len }),
            1 => (0u8..3).prop_map(SigOp::Cancel),
            1 => (0u32..2).prop_map(SigOp::Advance),
            2 => (0u8..=255).prop_map(|k| SigOp::Resume { k }),
        ]
        .boxed()
    }
}

fn delay() -> BoxedStrategy<u16> {
    prop_oneof![4 => Just(0u16), 4 => 0u16..200, 1 => 1000u16..3000].boxed()
}

pub fn sched() -> BoxedStrategy<Sched> {
    (any::<bool>(), 1u64..64, 1u8..6, 1u64..16, any::<bool>())
        .prop_flat_map(|(reconnect, window, pre_chunks, chunk, parked_first)| {
            let max_off = pre_chunks as u64 * chunk;
            let waiter = if reconnect {
                Just(Waiter::Reconnect).boxed()
            } else {
                (1u64..24).prop_map(|len| Waiter::Credit { len }).boxed()
            };
            (
                waiter,
                Just(window),
                Just(pre_chunks),
                Just(chunk),
                Just(parked_first),
                prop::collection::vec(
                    prop::collection::vec((delay(), sig_op(reconnect, max_off)), 1..6),
                    1..=3,
                ),
            )
        })
        .prop_map(|(waiter, window, pre_chunks, chunk, parked_first, signallers)| Sched {
            waiter,
            window,
            pre_chunks,
            chunk,
            parked_first,
            signallers,
            deadline_ms: None,
        })
        .boxed()
}

/// Deadline cases: only non-satisfying signals (insufficient / wrong-file acks,
/// sends), window full, deadline 20–100 ms.
pub fn sched_deadline() -> BoxedStrategy<Sched> {
    (any::<bool>(), 2u8..6, 2u64..16, 20u16..100, any::<bool>())
        .prop_flat_map(|(reconnect, pre_chunks, chunk, ms, parked_first)| {
            let total = pre_chunks as u64 * chunk;
            // window == total in flight, so a chunk of `chunk` never fits unless
            // at least `chunk` bytes are acknowledged; acks stay below that.
            let op = prop_oneof![
                2 => (0..chunk).prop_map(|off| SigOp::Ack { file: 0, off }),
                2 => (0..=total + 9).prop_map(|off| SigOp::Ack { file: 1, off }),
                1 => (1u64..4).prop_map(|len| SigOp::Send { len }),
            ];
            (
                Just(reconnect),
                Just(pre_chunks),
                Just(chunk),
                Just(ms),
                Just(parked_first),
                prop::collection::vec(prop::collection::vec((delay(), op), 0..5), 1..=2),
            )
        })
        .prop_map(|(reconnect, pre_chunks, chunk, ms, parked_first, signallers)| Sched {
            waiter: if reconnect {
                Waiter::Reconnect
            } else {
                Waiter::Credit { len: chunk }
            },
            window: pre_chunks as u64 * chunk,
            pre_chunks,
            chunk,
            parked_first,
            signallers,
            deadline_ms: Some(ms),
        })
        .boxed()
}

// ------------------------------------------------ deadlines under a stream of wake-ups

/// A waiter with a deadline, while another thread keeps issuing operations that wake
/// the condition variable without satisfying the waiter (advancing acks that free too
/// little credit). The waiter must still time out at its deadline: not earlier, and not
/// much later (each wake-up must not re-arm the full timeout).
#[derive(Debug, Clone, Serialize, Deserialize, Hash, PartialEq, Eq)]
pub struct Rearm {
    pub reconnect: bool,
    pub timeout_ms: u16,
    pub period_us: u16,
}

fn rearm_once(c: &Rearm) -> Result<Duration, Fail> {
    let tc = Arc::new(TransferControl::with_replay_capacity(1000, 1 << 20));
    // 1000 bytes in flight fill the window; a 500-byte chunk needs 500 acknowledged
    tc.push_replay(0, 1000, false, vec![7u8; 1000]);
    tc.record_sent(1000);
    let timeout = Duration::from_millis(c.timeout_ms as u64);
    let stop = Arc::new(AtomicBool::new(false));
    let (tc2, stop2) = (tc.clone(), stop.clone());
    let period = Duration::from_micros(c.period_us as u64);
    let span = timeout.mul_f32(0.9);
    let signaller = std::thread::spawn(move || {
        let t0 = Instant::now();
        let mut off = 0u64;
        while t0.elapsed() < span && !stop2.load(Ordering::SeqCst) {
            // an advancing ack (wakes waiters) that never frees enough credit
            if off < 400 {
                off += 1;
                tc2.record_ack(0, off);
            } else {
                tc2.record_ack(1, 5); // another file: ignored, may still notify
            }
            std::thread::sleep(period);
        }
    });
    let t0 = Instant::now();
    let timed_out = if c.reconnect {
        matches!(tc.wait_for_reconnect(timeout), ReconnectOutcome::Timeout)
    } else {
        matches!(tc.wait_for_credit(500, t0 + timeout), Err(CreditError::Timeout))
    };
    let elapsed = t0.elapsed();
    stop.store(true, Ordering::SeqCst);
    let _ = signaller.join();
    ensure!(timed_out, "deadline-wrong-outcome", "the waiter did not report a timeout although nothing satisfied it");
    ensure!(elapsed + Duration::from_millis(2) >= timeout, "timeout-too-early", "timed out after {elapsed:?}, deadline {timeout:?}");
    Ok(elapsed)
}

pub fn check_rearm(c: &Rearm) -> CheckResult {
    let timeout = Duration::from_millis(c.timeout_ms as u64);
    let slack = timeout.mul_f32(0.55); // re-arming on every wake-up would add ~0.9 x timeout
    let mut elapsed = rearm_once(c)?;
    if elapsed > timeout + slack {
        // lateness is a timing observation: confirm it once before reporting
        elapsed = elapsed.min(rearm_once(c)?);
    }
    ensure!(
        elapsed <= timeout + slack,
        "deadline-rearmed-by-wakeups",
        "{} with a {timeout:?} deadline returned after {elapsed:?} (twice) while another thread issued non-satisfying wake-ups for the first 90% of it",
        if c.reconnect { "wait_for_reconnect" } else { "wait_for_credit" }
    );
    Ok(CaseInfo::new(true).class(if c.reconnect { "reconnect-waiter" } else { "credit-waiter" }))
}

// ------------------------------------------------ signals racing the waiter's entry

/// The sub-microsecond window between a waiter's last look at the state and the moment
/// it parks: one satisfying signal is issued at a swept delay (0..400 spins on either side) around the
/// waiter's entry, thousands of times; the waiter must return (never sleep on to its
/// deadline). Which signal and which waiter are the case.
#[derive(Debug, Clone, Copy, Serialize, Deserialize, Hash, PartialEq, Eq)]
pub enum RaceSignal {
    Cancel,
    Ack,
    Advance,
    Resume,
}

#[derive(Debug, Clone, Serialize, Deserialize, Hash, PartialEq, Eq)]
pub struct EntryRace {
    pub reconnect: bool,
    pub signal: RaceSignal,
    pub rounds: u32,
}

pub fn check_entry_race(c: &EntryRace) -> CheckResult {
    use std::sync::atomic::AtomicUsize;
    fn rendezvous(gate: &AtomicUsize, parties: usize) {
        gate.fetch_add(1, Ordering::SeqCst);
        let mut spins = 0u32;
        while gate.load(Ordering::SeqCst) < parties {
            std::hint::spin_loop();
            spins += 1;
            // on a machine with fewer cores than spinning threads, let the others run
            if spins > 20_000 {
                std::thread::yield_now();
            }
        }
    }
    let limit = watchdog();
    let mut x: u64 = 0x9E37_79B9_7F4A_7C15 ^ (c.rounds as u64) ^ ((c.reconnect as u64) << 7) ^ ((c.signal as u64) << 9);
    let mut next = move || {
        x ^= x << 13;
        x ^= x >> 7;
        x ^= x << 17;
        x
    };
    let mut contended = 0u32;
    for round in 0..c.rounds {
        let r = next();
        // both sides leave a spin rendezvous together and then burn 0..400 spins (a few
        // nanoseconds each): the window is far below a microsecond. Three rounds in four a
        // third thread hammers the same lock, which widens it.
        let signal_spins = (r % 400) as u32;
        let waiter_spins = ((r >> 16) % 400) as u32;
        let with_reader = (r >> 40) % 4 != 0;
        let parties = if with_reader { 3 } else { 2 };
        let tc = Arc::new(TransferControl::with_replay_capacity(100, 1 << 20));
        tc.push_replay(0, 100, false, vec![7u8; 100]);
        tc.record_sent(100);
        let gate = Arc::new(AtomicUsize::new(0));
        let done = Arc::new(AtomicBool::new(false));
        let reader = with_reader.then(|| {
            let (tc, g, d) = (tc.clone(), gate.clone(), done.clone());
            std::thread::spawn(move || {
                rendezvous(&g, parties);
                while !d.load(Ordering::Relaxed) {
                    std::hint::black_box(tc.offsets());
                }
            })
        });
        if with_reader {
            contended += 1;
        }
        let (tc2, g2, reconnect) = (tc.clone(), gate.clone(), c.reconnect);
        let waiter = std::thread::spawn(move || {
            rendezvous(&g2, parties);
            for _ in 0..waiter_spins {
                std::hint::spin_loop();
            }
            let t0 = Instant::now();
            if reconnect {
                !matches!(tc2.wait_for_reconnect(Duration::from_secs(20)), ReconnectOutcome::Timeout)
            } else {
                !matches!(tc2.wait_for_credit(50, t0 + Duration::from_secs(20)), Err(CreditError::Timeout))
            }
        });
        rendezvous(&gate, parties);
        for _ in 0..signal_spins {
            std::hint::spin_loop();
        }
        match c.signal {
            RaceSignal::Cancel => tc.cancel("race"),
            RaceSignal::Ack => {
                tc.record_ack(0, 100);
            }
            RaceSignal::Advance => tc.advance_to_file(1),
            RaceSignal::Resume => {
                let _ = tc.request_resume(peer(3), 0, 100);
            }
        }
        // the waiter must come back on its own; if it does not, release it and report
        let t0 = Instant::now();
        while !waiter.is_finished() && t0.elapsed() < limit {
            std::thread::sleep(Duration::from_micros(20));
        }
        let hung = !waiter.is_finished();
        if hung {
            tc.cancel("harness release");
            tc.record_ack(0, 100);
        }
        let ok = waiter.join().map_err(|_| Fail::new("panic", "waiter panicked"))?;
        done.store(true, Ordering::Relaxed);
        if let Some(r) = reader {
            let _ = r.join();
        }
        if hung {
            return Err(Fail::new(
                "lost-wakeup",
                format!(
                    "round {round}: {} was still parked {limit:?} after {:?} was issued {signal_spins} spins after the common start (waiter entered after {waiter_spins} spins, lock contended: {with_reader}): the signal raced the waiter's entry",
                    if c.reconnect { "wait_for_reconnect" } else { "wait_for_credit" },
                    c.signal
                ),
            ));
        }
        ensure!(ok, "timeout-too-early", "round {round}: the waiter reported a timeout under a 20 s deadline");
    }
    Ok(CaseInfo::new(true)
        .class(format!("{}+{:?}", if c.reconnect { "reconnect" } else { "credit" }, c.signal))
        .class(format!("rounds-with-lock-contention={}%", contended * 100 / c.rounds.max(1) / 10 * 10)))
}

// --------------------------------------------- a resume that confirms in-flight bytes

/// A producer parked for credit on a full window (everything sent, nothing
/// acknowledged); the receiver reconnects and resumes at the k-th chunk boundary,
/// which confirms every byte up to there (up to and including everything sent). The
/// resume frees that much of the window, so the parked producer returns with credit.
#[derive(Debug, Clone, Serialize, Deserialize, Hash, PartialEq, Eq)]
pub struct ResumeFrees {
    pub chunks: u8,
    pub chunk: u64,
    pub k: u8,
}

pub fn check_resume_frees(c: &ResumeFrees) -> CheckResult {
    let n = c.chunks.max(1) as u64;
    let k = (c.k as u64).clamp(1, n);
    let tc = Arc::new(TransferControl::with_replay_capacity(n * c.chunk, 1 << 30));
    for i in 0..n {
        tc.push_replay(i * c.chunk, c.chunk, false, vec![7u8; c.chunk as usize]);
        tc.record_sent((i + 1) * c.chunk);
    }
    let parked = Arc::new(AtomicBool::new(false));
    let (tc2, p2, len) = (tc.clone(), parked.clone(), c.chunk);
    let waiter = std::thread::spawn(move || {
        p2.store(true, Ordering::SeqCst);
        let t0 = Instant::now();
        (tc2.wait_for_credit(len, t0 + watchdog()), t0.elapsed())
    });
    while !parked.load(Ordering::SeqCst) {
        std::thread::yield_now();
    }
    std::thread::sleep(Duration::from_millis(3));
    let at = k * c.chunk;
    let accepted = tc.request_resume(peer(7), 0, at);
    ensure!(accepted == Ok(at), "resume-rejected-wrongly", "a resume at the retained boundary {at} (sent {}) was answered {accepted:?}", n * c.chunk);
    let (res, elapsed) = waiter.join().map_err(|_| Fail::new("panic", "waiter panicked"))?;
    ensure!(
        res.is_ok(),
        "resume-did-not-free-credit",
        "window {w} full and unacknowledged; the receiver resumed at {at} (confirming {at} of {w} sent bytes), which leaves room for a {len}-byte chunk, but wait_for_credit returned {res:?} after {elapsed:?}",
        w = n * c.chunk,
        len = c.chunk
    );
    Ok(CaseInfo::new(true).class(if k == n { "resume-at-everything-sent" } else { "resume-inside-the-in-flight-run" }))
}

pub fn run(ctx: &Ctx, rep: &Report) {
    let rf: Vec<ResumeFrees> = [(1u8, 8u64), (3, 8), (4, 100)]
        .into_iter()
        .flat_map(|(chunks, chunk)| (1..=chunks).map(move |k| ResumeFrees { chunks, chunk, k }))
        .collect();
    run_enum(ctx, rep, "resume-frees-credit", &rf, true, &check_resume_frees);
    // (satisfying signal for each waiter: cancel for both; ack / advance for credit; resume for both)
    let rounds = ctx.tier.pick(4_000, 100_000);
    let races: Vec<EntryRace> = [
        (true, RaceSignal::Cancel),
        (true, RaceSignal::Resume),
        (false, RaceSignal::Cancel),
        (false, RaceSignal::Ack),
        (false, RaceSignal::Advance),
        (false, RaceSignal::Resume),
    ]
    .into_iter()
    .map(|(reconnect, signal)| EntryRace { reconnect, signal, rounds })
    .collect();
    run_enum(ctx, rep, "entry-race", &races, false, &check_entry_race);
    let rearm: Vec<Rearm> = [false, true]
        .into_iter()
        .flat_map(|reconnect| [(1200u16, 300u16), (1500, 5000), (2000, 40_000)].into_iter().map(move |(timeout_ms, period_us)| Rearm { reconnect, timeout_ms, period_us }))
        .collect();
    run_enum(ctx, rep, "deadline-rearm", &rearm, false, &check_rearm);
    run_prop(ctx, rep, "schedules", ctx.tier.pick(12_000, 240_000), &|| sched(), &check);
    run_prop(ctx, rep, "deadlines", ctx.tier.pick(320, 4_000), &|| sched_deadline(), &check);
}

pub fn replay(sub: &str, case: &Value) -> Result<(), Fail> {
    match sub {
        "schedules" | "deadlines" => replay_case::<Sched>(case, &check),
        "deadline-rearm" => replay_case::<Rearm>(case, &check_rearm),
        "entry-race" => replay_case::<EntryRace>(case, &check_entry_race),
        "resume-frees-credit" => replay_case::<ResumeFrees>(case, &check_resume_frees),
        _ => Err(Fail::new("replay-unknown-sub", sub.to_string())),
    }
}
