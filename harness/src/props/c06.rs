//! C06 — a dead or misbehaving connection fails calls promptly: no hang, no residue.

use crate::engine::*;
use crate::ensure;
use crate::oracle::codec::{self, OHeader};
use crate::peers::net::*;
use crate::util::block_on_mt as block_on;
use proptest::prelude::*;
use repe::{AsyncClient, Client, WebSocketClient};
use serde::{Deserialize, Serialize};
use serde_json::{Value, json};
use std::time::Duration;
use tokio::io::AsyncWriteExt;

pub const RULE: &str = "(faults) for each client (blocking, async, WebSocket): N in 0..16 calls in flight, the scripted peer reads j<=N requests, answers a<=j of them, then injects one fault from {close, RST (SO_LINGER 0), half-close while still draining, bad magic, length mismatch, truncated header then close, unallocatable declared length, partial response of r in {1,47,48,48+q,total-1} bytes then close/RST, (WS) text frame, (WS) garbage bytes}, optionally staying silent instead of closing after a malformed frame; oracle: every unanswered in-flight call returns Err and a later call returns Err, each within a 10 s watchdog, answered calls never return another call's body, a notify subscriber sees end-of-stream, and the pending map is empty afterwards; (timeouts) K calls with one victim whose response is delayed to timeout+-5ms, or whose task is aborted at a generated instant: either the own response or a timeout error is accepted for the victim, every other call gets its own response, a follow-up call succeeds and the pending map is empty; WebSocket Close frame with the TCP connection kept open; (timeouts) also through AsyncClient::forward_message_with_timeout with caller-chosen ids, where the id of a timed-out / cancelled forward must be usable again at once; non-trivial = fault landed with >=1 call in flight, or a timeout within +-5 ms of the response; distinct = case hash";

#[derive(Debug, Clone, Copy, Serialize, Deserialize, Hash, PartialEq, Eq)]
pub enum ClientKind {
    Blocking,
    Async,
    Ws,
}

#[derive(Debug, Clone, Copy, Serialize, Deserialize, Hash, PartialEq, Eq)]
pub enum Fault {
    Close,
    Rst,
    HalfClose,
    BadMagic { stay_silent: bool },
    LengthMismatch { stay_silent: bool },
    TruncatedHeader(u8),
    Unallocatable { stay_silent: bool },
    /// Send the first r bytes of a valid response, then close (or RST).
    Partial { sel: u8, rst: bool },
    WsText,
    WsGarbage,
    /// A WebSocket Close frame, after which the peer keeps the TCP connection open.
    WsCloseFrame,
}

#[derive(Debug, Clone, Serialize, Deserialize, Hash, PartialEq, Eq)]
pub struct FaultCase {
    pub client: ClientKind,
    pub inflight: u8,
    pub read_before: u8,
    pub answered_before: u8,
    pub fault: Fault,
    pub per_call_timeout: bool,
}

fn watchdog() -> Duration {
    if failure_seen() {
        Duration::from_millis(600)
    } else {
        Duration::from_secs(10)
    }
}

enum AnyClient {
    B(Client),
    A(AsyncClient),
    W(WebSocketClient),
}

impl AnyClient {
    fn pending(&self) -> usize {
        match self {
            AnyClient::B(c) => c.verif_pending_len(),
            AnyClient::A(c) => c.verif_pending_len(),
            AnyClient::W(c) => c.verif_pending_len(),
        }
    }
    fn spawn_call(&self, k: usize, timeout: Option<Duration>) -> tokio::task::JoinHandle<Result<Value, String>> {
        self.spawn_call_via(k, timeout, false)
    }
    /// `forward`: on the async client, send a caller-built message (caller-chosen id
    /// 9000+k) through `forward_message_with_timeout` instead of `call_json`.
    fn spawn_call_via(&self, k: usize, timeout: Option<Duration>, forward: bool) -> tokio::task::JoinHandle<Result<Value, String>> {
        let path = format!("/c/{k}");
        let body = json!({"k": k});
        if let (AnyClient::A(c), true) = (self, forward) {
            let c = c.clone();
            return tokio::spawn(async move {
                let msg = repe::Message::builder()
                    .id(9000 + k as u64)
                    .query_str(&path)
                    .query_format(repe::QueryFormat::JsonPointer)
                    .body_json(&body)
                    .map_err(|e| e.to_string())?
                    .build();
                let r = match timeout {
                    Some(t) => c.forward_message_with_timeout(&msg, t).await,
                    None => c.forward_message(&msg).await,
                }
                .map_err(|e| e.to_string())?;
                match r {
                    Some(m) if m.header.ec == 0 => m.json_body::<Value>().map_err(|e| e.to_string()),
                    Some(m) => Err(format!("error response ec {}", m.header.ec)),
                    None => Err("forward returned no response".to_string()),
                }
            });
        }
        match self {
            AnyClient::B(c) => {
                let c = c.clone();
                tokio::task::spawn_blocking(move || {
                    match timeout {
                        Some(t) => c.call_json_with_timeout(path, &body, t),
                        None => c.call_json(path, &body),
                    }
                    .map_err(|e| e.to_string())
                })
            }
            AnyClient::A(c) => {
                let c = c.clone();
                tokio::spawn(async move {
                    match timeout {
                        Some(t) => c.call_json_with_timeout(path, &body, t).await,
                        None => c.call_json(path, &body).await,
                    }
                    .map_err(|e| e.to_string())
                })
            }
            AnyClient::W(c) => {
                let c = c.clone();
                tokio::spawn(async move {
                    match timeout {
                        Some(t) => c.call_json_with_timeout(path, &body, t).await,
                        None => c.call_json(path, &body).await,
                    }
                    .map_err(|e| e.to_string())
                })
            }
        }
    }
}

enum AnyIo {
    T(TcpIo),
    W(WsIo<tokio::net::TcpStream>),
}

impl AnyIo {
    async fn recv(&mut self) -> std::io::Result<Option<Frame>> {
        match self {
            AnyIo::T(io) => io.recv().await,
            AnyIo::W(io) => io.recv().await,
        }
    }
    async fn send(&mut self, b: &[u8]) -> std::io::Result<()> {
        match self {
            AnyIo::T(io) => io.send(b).await,
            AnyIo::W(io) => io.send(b).await,
        }
    }
    /// Raw bytes on the underlying socket (a partial frame on TCP; for WebSocket
    /// the bytes are written below the framing layer).
    async fn send_raw(&mut self, b: &[u8]) -> std::io::Result<()> {
        match self {
            AnyIo::T(io) => {
                io.stream.write_all(b).await?;
                io.stream.flush().await
            }
            AnyIo::W(io) => {
                let s = io.ws.get_mut();
                s.write_all(b).await?;
                s.flush().await
            }
        }
    }
}

async fn connect(kind: ClientKind) -> Result<(AnyClient, AnyIo), Fail> {
    let (listener, addr) = listen().await.map_err(|e| Fail::new("harness-listen", e.to_string()))?;
    match kind {
        ClientKind::Blocking => {
            let a = addr.to_string();
            let c = tokio::task::spawn_blocking(move || Client::connect(a))
                .await
                .unwrap()
                .map_err(|e| Fail::new("harness-connect", e.to_string()))?;
            let io = accept_tcp(&listener).await.map_err(|e| Fail::new("harness-accept", e.to_string()))?;
            Ok((AnyClient::B(c), AnyIo::T(io)))
        }
        ClientKind::Async => {
            let c = AsyncClient::connect(addr).await.map_err(|e| Fail::new("harness-connect", e.to_string()))?;
            let io = accept_tcp(&listener).await.map_err(|e| Fail::new("harness-accept", e.to_string()))?;
            Ok((AnyClient::A(c), AnyIo::T(io)))
        }
        ClientKind::Ws => {
            let url = format!("ws://{addr}");
            let (c, io) = tokio::join!(WebSocketClient::connect(&url), accept_ws(&listener));
            let c = c.map_err(|e| Fail::new("harness-connect", e.to_string()))?;
            let io = io.map_err(|e| Fail::new("harness-accept", e.to_string()))?;
            Ok((AnyClient::W(c), AnyIo::W(io)))
        }
    }
}

fn k_of(f: &Frame) -> usize {
    f.path().strip_prefix("/c/").and_then(|s| s.parse().ok()).unwrap_or(usize::MAX)
}

fn ok_response(f: &Frame) -> Vec<u8> {
    response_frame(f, 0, 2, &serde_json::to_vec(&json!({"k": k_of(f)})).unwrap())
}

fn malformed_header(kind: &Fault, id: u64) -> Vec<u8> {
    let mut h = OHeader {
        length: 48,
        spec: codec::MAGIC,
        version: 1,
        id,
        ..OHeader::default()
    };
    match kind {
        Fault::BadMagic { .. } => h.spec = 0x0715,
        Fault::LengthMismatch { .. } => h.length = 49,
        Fault::Unallocatable { .. } => {
            h.body_length = 1 << 62;
            h.length = 48 + (1 << 62);
        }
        _ => {}
    }
    h.encode().to_vec()
}

pub fn check_fault(c: &FaultCase) -> CheckResult {
    let n = c.inflight as usize;
    let read_before = (c.read_before as usize).min(n);
    let answered_before = (c.answered_before as usize).min(read_before);
    let ws = c.client == ClientKind::Ws;
    if !ws && matches!(c.fault, Fault::WsText | Fault::WsGarbage | Fault::WsCloseFrame) {
        return Ok(CaseInfo::new(false).class("skipped-ws-only-fault"));
    }
    let res: Result<(Vec<(usize, Result<Value, String>)>, Vec<usize>, bool), Fail> = block_on(async {
        let (client, mut io) = connect(c.client).await?;
        let mut rx = match &client {
            AnyClient::W(w) => Some(w.subscribe_notifies().map_err(|_| Fail::new("harness-subscribe", "busy"))?),
            _ => None,
        };
        let timeout = c.per_call_timeout.then(|| Duration::from_secs(60));
        let calls: Vec<_> = (0..n).map(|k| (k, client.spawn_call(k, timeout))).collect();

        // --- peer script
        let mut received: Vec<Frame> = Vec::new();
        for _ in 0..read_before {
            match tokio::time::timeout(watchdog(), io.recv()).await {
                Ok(Ok(Some(f))) => received.push(f),
                other => {
                    return Err(Fail::new(
                        "peer-script",
                        format!("peer expected a request, got {:?}", other.map(|r| r.map(|o| o.map(|f| f.header.id)))),
                    ));
                }
            }
        }
        let mut answered: Vec<usize> = Vec::new();
        for f in received.iter().take(answered_before) {
            io.send(&ok_response(f)).await.map_err(|e| Fail::new("peer-script", e.to_string()))?;
            answered.push(k_of(f));
        }
        // --- inject the fault
        let mut keep_io: Option<AnyIo> = None;
        match c.fault {
            Fault::Close => drop(io),
            Fault::Rst => match io {
                AnyIo::T(t) => t.reset(),
                AnyIo::W(mut w) => {
                    rst_on_drop(w.ws.get_mut());
                    drop(w);
                }
            },
            Fault::HalfClose => match io {
                AnyIo::T(mut t) => {
                    t.shutdown_write().await;
                    tokio::spawn(async move { t.drain().await });
                }
                AnyIo::W(mut w) => {
                    let _ = w.ws.get_mut().shutdown().await;
                    tokio::spawn(async move {
                        use tokio::io::AsyncReadExt;
                        let mut buf = [0u8; 4096];
                        while let Ok(n) = w.ws.get_mut().read(&mut buf).await {
                            if n == 0 {
                                break;
                            }
                        }
                    });
                }
            },
            Fault::BadMagic { stay_silent } | Fault::LengthMismatch { stay_silent } | Fault::Unallocatable { stay_silent } => {
                let bytes = malformed_header(&c.fault, received.first().map(|f| f.header.id).unwrap_or(1));
                let _ = io.send(&bytes).await;
                if stay_silent {
                    // keep the connection open and keep draining, but never answer
                    keep_io = Some(io);
                } else {
                    drop(io);
                }
            }
            Fault::TruncatedHeader(nbytes) => {
                let bytes = malformed_header(&Fault::Close, 7);
                let _ = io.send_raw(&bytes[..(nbytes as usize % 47) + 1]).await;
                drop(io);
            }
            Fault::Partial { sel, rst } => {
                let frame = match received.get(answered_before) {
                    Some(f) => ok_response(f),
                    None => frame_with(424242, 0, b"/c/0", 1, b"{\"k\":0}", 2, 0),
                };
                let q = OHeader::raw(&frame).query_length as usize;
                let cuts = [1usize, 47, 48, 48 + q, frame.len() - 1];
                let r = cuts[sel as usize % cuts.len()].min(frame.len() - 1);
                match &mut io {
                    AnyIo::T(_) => {
                        let _ = io.send_raw(&frame[..r]).await;
                    }
                    AnyIo::W(w) => {
                        // a truncated REPE frame inside a complete WebSocket message
                        let _ = w.send(&frame[..r]).await;
                    }
                }
                if rst {
                    match io {
                        AnyIo::T(t) => t.reset(),
                        AnyIo::W(mut w) => {
                            rst_on_drop(w.ws.get_mut());
                            drop(w);
                        }
                    }
                } else {
                    drop(io);
                }
            }
            Fault::WsText => {
                if let AnyIo::W(w) = &mut io {
                    let _ = w.send_text("not binary").await;
                }
                keep_io = Some(io);
            }
            Fault::WsCloseFrame => {
                if let AnyIo::W(w) = &mut io {
                    use futures_util::SinkExt;
                    let _ = w.ws.send(repe::tokio_tungstenite::tungstenite::Message::Close(None)).await;
                }
                // the TCP connection stays open: only the WebSocket session was closed
                keep_io = Some(io);
            }
            Fault::WsGarbage => {
                // a complete frame with a reserved bit set and no extension negotiated: a
                // protocol violation (an incomplete frame would just be a slow peer)
                let _ = io.send_raw(&[0xC2, 0x01, 0x00]).await;
                keep_io = Some(io);
            }
        }
        // a silent peer keeps draining in the background
        if let Some(io) = keep_io {
            tokio::spawn(async move {
                let mut io = io;
                while let Ok(Some(_)) = io.recv().await {}
                tokio::time::sleep(Duration::from_secs(30)).await;
            });
        }

        // --- oracle: every call returns within the watchdog
        let mut results = Vec::new();
        for (k, h) in calls {
            match tokio::time::timeout(watchdog(), h).await {
                Ok(Ok(r)) => results.push((k, r)),
                Ok(Err(_)) => return Err(Fail::new("panic", format!("call {k} panicked"))),
                Err(_) => {
                    return Err(Fail::new(
                        "inflight-call-hangs",
                        format!(
                            "call {k} had not returned {:?} after the fault {:?} (in flight {n}, read {read_before}, answered {answered_before})",
                            watchdog(),
                            c.fault
                        ),
                    ));
                }
            }
        }
        // a later call must fail promptly too
        let later = client.spawn_call(9999, timeout);
        let later_res = match tokio::time::timeout(watchdog(), later).await {
            Ok(Ok(r)) => r,
            Ok(Err(_)) => return Err(Fail::new("panic", "later call panicked")),
            Err(_) => {
                return Err(Fail::new(
                    "later-call-hangs",
                    format!("a call issued after the fault {:?} had not returned after {:?}", c.fault, watchdog()),
                ));
            }
        };
        ensure!(
            later_res.is_err(),
            "later-call-succeeds",
            "a call issued after the fault {:?} returned Ok({:?})",
            c.fault,
            later_res
        );
        // the notify subscriber sees end-of-stream
        if let Some(rx) = rx.as_mut() {
            match tokio::time::timeout(watchdog(), async {
                while let Some(_m) = rx.recv().await {}
            })
            .await
            {
                Ok(()) => {}
                Err(_) => {
                    return Err(Fail::new(
                        "subscriber-no-eos",
                        format!("the notify subscriber did not see end-of-stream after {:?}", c.fault),
                    ));
                }
            }
        }
        let pending = client.pending();
        ensure!(
            pending == 0,
            "pending-residue",
            "{pending} entries remain in the pending map after every call returned (fault {:?})",
            c.fault
        );
        Ok((results, answered, true))
    });
    let (results, answered, _) = res?;
    for (k, r) in &results {
        match r {
            Ok(v) => {
                ensure!(
                    v.get("k").and_then(Value::as_u64) == Some(*k as u64),
                    "wrong-response",
                    "call {k} returned {v}"
                );
                ensure!(
                    answered.contains(k),
                    "unanswered-call-succeeds",
                    "call {k} returned Ok although the peer never answered it (fault {:?})",
                    c.fault
                );
            }
            Err(_) => {}
        }
    }
    let unanswered = n - answered.len();
    Ok(CaseInfo::new(unanswered >= 1)
        .class(format!("{:?}", c.client))
        .class(
            format!("{:?}", c.fault)
                .split([' ', '(', '{'])
                .next()
                .unwrap_or("")
                .to_string(),
        )
        .class(if unanswered == 0 { "none-in-flight" } else { "calls-in-flight" })
        .class(if c.per_call_timeout { "with-timeout" } else { "no-timeout" }))
}

fn fault() -> BoxedStrategy<Fault> {
    prop_oneof![
        2 => Just(Fault::Close),
        2 => Just(Fault::Rst),
        2 => Just(Fault::HalfClose),
        2 => any::<bool>().prop_map(|stay_silent| Fault::BadMagic { stay_silent }),
        2 => any::<bool>().prop_map(|stay_silent| Fault::LengthMismatch { stay_silent }),
        1 => (0u8..47).prop_map(Fault::TruncatedHeader),
        2 => any::<bool>().prop_map(|stay_silent| Fault::Unallocatable { stay_silent }),
        4 => (0u8..5, any::<bool>()).prop_map(|(sel, rst)| Fault::Partial { sel, rst }),
        1 => Just(Fault::WsText),
        1 => Just(Fault::WsGarbage),
        1 => Just(Fault::WsCloseFrame),
    ]
    .boxed()
}

fn fault_case() -> BoxedStrategy<FaultCase> {
    (
        prop::sample::select(vec![ClientKind::Blocking, ClientKind::Async, ClientKind::Ws]),
        prop_oneof![1 => Just(0u8), 4 => 1u8..5, 2 => 5u8..=16],
        any::<u8>(),
        any::<u8>(),
        fault(),
        any::<bool>(),
    )
        .prop_map(|(client, inflight, rb, ab, fault, per_call_timeout)| {
            let read_before = if inflight == 0 { 0 } else { rb % (inflight + 1) };
            let answered_before = if read_before == 0 { 0 } else { ab % (read_before + 1) };
            FaultCase {
                client,
                inflight,
                read_before,
                answered_before,
                fault,
                per_call_timeout,
            }
        })
        .boxed()
}

/// The full fault x step grid once, deterministically.
fn grid() -> Vec<FaultCase> {
    let faults = vec![
        Fault::Close,
        Fault::Rst,
        Fault::HalfClose,
        Fault::BadMagic { stay_silent: false },
        Fault::BadMagic { stay_silent: true },
        Fault::LengthMismatch { stay_silent: false },
        Fault::LengthMismatch { stay_silent: true },
        Fault::TruncatedHeader(20),
        Fault::Unallocatable { stay_silent: false },
        Fault::Unallocatable { stay_silent: true },
        Fault::Partial { sel: 0, rst: false },
        Fault::Partial { sel: 1, rst: false },
        Fault::Partial { sel: 2, rst: true },
        Fault::Partial { sel: 3, rst: false },
        Fault::Partial { sel: 4, rst: true },
        Fault::WsText,
        Fault::WsGarbage,
        Fault::WsCloseFrame,
    ];
    let mut v = Vec::new();
    for client in [ClientKind::Blocking, ClientKind::Async, ClientKind::Ws] {
        for f in &faults {
            for (inflight, read_before, answered_before) in [(0u8, 0u8, 0u8), (1, 0, 0), (1, 1, 0), (3, 3, 1), (4, 2, 2)] {
                for per_call_timeout in [false, true] {
                    v.push(FaultCase {
                        client,
                        inflight,
                        read_before,
                        answered_before,
                        fault: *f,
                        per_call_timeout,
                    });
                }
            }
        }
    }
    v
}

// --------------------------------------------- later calls after a write timed out

/// Blocking client with a write timeout: a large request times out part-way against a
/// peer that has stopped reading; the peer then reads on (and never answers). The
/// connection is unusable from then on, so a later call — made without any per-call
/// timeout — must return an error instead of waiting forever for a response.
#[derive(Debug, Clone, Serialize, Deserialize, Hash, PartialEq, Eq)]
pub struct WriteTimeoutThenCall {
    pub timeout_ms: u8,
    pub stall_extra_ms: u8,
    pub big_mib: u8,
}

pub fn check_later_call_after_write_timeout(c: &WriteTimeoutThenCall) -> CheckResult {
    let (listener, addr) = super::c05::small_rcvbuf_listener().map_err(|e| Fail::new("harness-listen", e.to_string()))?;
    let client = Client::connect(addr).map_err(|e| Fail::new("harness-connect", e.to_string()))?;
    let wt = Duration::from_millis(20 + c.timeout_ms as u64);
    client.set_write_timeout(Some(wt)).map_err(|e| Fail::new("harness-config", e.to_string()))?;
    let (mut s, _) = listener.accept().map_err(|e| Fail::new("harness-accept", e.to_string()))?;
    let stall = wt + Duration::from_millis(30 + c.stall_extra_ms as u64);
    // peer: stall, then read everything that comes, never answer
    let peer = std::thread::spawn(move || {
        use std::io::Read;
        std::thread::sleep(stall);
        let _ = s.set_read_timeout(Some(Duration::from_secs(12)));
        let mut buf = vec![0u8; 1 << 16];
        let mut total = 0usize;
        while let Ok(n) = s.read(&mut buf) {
            if n == 0 {
                break;
            }
            total += n;
        }
        total
    });
    let big = vec![0x77u8; (4 + (c.big_mib as usize % 8)) << 20];
    let first = client.notify_with_formats("/big", 1, Some(&big), 0);
    let interrupted = first.is_err();
    // let the peer start reading again
    std::thread::sleep(stall.saturating_sub(wt) + Duration::from_millis(30));
    let cl = client.clone();
    let (tx, rx) = std::sync::mpsc::channel();
    std::thread::spawn(move || {
        let _ = tx.send(cl.call_json("/later", &json!({"k": 1})).map_err(|e| e.to_string()));
    });
    let later = rx.recv_timeout(watchdog());
    drop(client);
    let _ = peer.join();
    if interrupted {
        match later {
            Ok(Err(_)) => {}
            Ok(Ok(v)) => return Err(Fail::new("unanswered-call-succeeded", format!("the later call returned {v} although nobody answered it"))),
            Err(_) => {
                return Err(Fail::new(
                    "later-call-hangs",
                    format!(
                        "blocking Client: a {} MiB request timed out part-way (write timeout {wt:?}); a later call without a timeout had not returned {:?} later",
                        big.len() >> 20,
                        watchdog()
                    ),
                ));
            }
        }
    }
    Ok(CaseInfo::new(interrupted).class(if interrupted { "write-timed-out" } else { "write-completed" }))
}

// ------------------------------------------- fault while another send is parked

/// The peer has read K requests (in flight, unanswered), then stops reading; the
/// client starts a large send, which parks on the full socket holding the writer; the
/// peer then delivers a malformed frame (or a WebSocket text / Close frame) on the
/// other direction and keeps the TCP connection open without reading. The K calls
/// in flight must still return an error (they must not wait behind the parked send).
#[derive(Debug, Clone, Serialize, Deserialize, Hash, PartialEq, Eq)]
pub struct ParkedCase {
    pub client: ClientKind,
    pub inflight: u8,
    pub fault: Fault,
    pub per_call_timeout: bool,
}

pub fn check_parked_send(c: &ParkedCase) -> CheckResult {
    let k = c.inflight.max(1) as usize;
    let ws = c.client == ClientKind::Ws;
    if !ws && matches!(c.fault, Fault::WsText | Fault::WsGarbage | Fault::WsCloseFrame) {
        return Ok(CaseInfo::new(false).class("skipped-ws-only-fault"));
    }
    block_on(async {
        let (client, mut io) = connect(c.client).await?;
        let mut rx = match &client {
            AnyClient::W(w) => Some(w.subscribe_notifies().map_err(|_| Fail::new("harness-subscribe", "busy"))?),
            _ => None,
        };
        let timeout = c.per_call_timeout.then(|| Duration::from_secs(60));
        let calls: Vec<_> = (0..k).map(|i| (i, client.spawn_call(i, timeout))).collect();
        let mut received = Vec::new();
        for _ in 0..k {
            match tokio::time::timeout(watchdog(), io.recv()).await {
                Ok(Ok(Some(f))) => received.push(f),
                _ => return Err(Fail::new("peer-script", "peer did not receive the in-flight requests")),
            }
        }
        // the peer stops reading; a large send parks on the full socket
        // (the WebSocket client refuses to send more than its assumed peer frame limit, 16 MiB)
        let big = vec![0x5Au8; if ws { 15 << 20 } else { 24 << 20 }];
        let parked = match &client {
            AnyClient::B(cl) => {
                let cl = cl.clone();
                tokio::task::spawn_blocking(move || cl.notify_with_formats("/big", 1, Some(&big), 0).map_err(|e| e.to_string()))
            }
            AnyClient::A(cl) => {
                let cl = cl.clone();
                tokio::spawn(async move { cl.notify_with_formats("/big", 1, Some(&big), 0).await.map_err(|e| e.to_string()) })
            }
            AnyClient::W(cl) => {
                let cl = cl.clone();
                tokio::spawn(async move { cl.notify_with_formats("/big", 1, Some(&big), 0).await.map_err(|e| e.to_string()) })
            }
        };
        tokio::time::sleep(Duration::from_millis(150)).await;
        let was_parked = !parked.is_finished();
        // the fault arrives on the other direction; the connection stays open and unread
        match c.fault {
            Fault::WsText => {
                if let AnyIo::W(w) = &mut io {
                    let _ = w.send_text("not binary").await;
                }
            }
            Fault::WsGarbage => {
                let _ = io.send_raw(&[0xC2, 0x01, 0x00]).await;
            }
            Fault::WsCloseFrame => {
                if let AnyIo::W(w) = &mut io {
                    use futures_util::SinkExt;
                    let _ = w.ws.feed(repe::tokio_tungstenite::tungstenite::Message::Close(None)).await;
                    let _ = tokio::time::timeout(Duration::from_millis(200), w.ws.flush()).await;
                }
            }
            _ => {
                let bytes = malformed_header(&c.fault, received.first().map(|f| f.header.id).unwrap_or(1));
                let _ = io.send(&bytes).await;
            }
        }
        let mut hung = Vec::new();
        for (i, h) in calls {
            match tokio::time::timeout(watchdog(), h).await {
                Ok(Ok(Err(_))) => {}
                Ok(Ok(Ok(v))) => return Err(Fail::new("unanswered-call-succeeded", format!("call {i} returned {v} although it was never answered"))),
                Ok(Err(_)) => return Err(Fail::new("panic", format!("call {i} panicked"))),
                Err(_) => hung.push(i),
            }
        }
        let eos = match rx.as_mut() {
            Some(rx) => matches!(tokio::time::timeout(watchdog(), async { while rx.recv().await.is_some() {} }).await, Ok(())),
            None => true,
        };
        // let everything go: the peer closes
        drop(io);
        let _ = tokio::time::timeout(Duration::from_secs(5), parked).await;
        if std::env::var_os("VERIF_DEBUG").is_some() {
            crate::engine::diag(&format!("parked-send {:?} {:?} k={k}: was_parked={was_parked} hung={hung:?} eos={eos}", c.client, c.fault));
        }
        ensure!(
            hung.is_empty(),
            "inflight-call-hangs-behind-parked-send",
            "{:?}: after {:?} was delivered while another send was parked on a peer that is not reading, call(s) {hung:?} of {k} in flight had not returned {:?} later (send parked: {was_parked})",
            c.client,
            c.fault,
            watchdog()
        );
        ensure!(eos, "subscriber-no-eos", "the notification subscriber did not see end-of-stream within {:?} (send parked: {was_parked})", watchdog());
        Ok(CaseInfo::new(was_parked).class(format!("{:?}", c.client)).class(if was_parked { "send-parked" } else { "send-not-parked" }))
    })
}

fn parked_cases() -> Vec<ParkedCase> {
    let mut v = Vec::new();
    for client in [ClientKind::Blocking, ClientKind::Async, ClientKind::Ws] {
        for fault in [
            Fault::BadMagic { stay_silent: true },
            Fault::LengthMismatch { stay_silent: true },
            Fault::WsText,
            Fault::WsCloseFrame,
        ] {
            for (inflight, per_call_timeout) in [(1u8, false), (3, true)] {
                v.push(ParkedCase {
                    client,
                    inflight,
                    fault,
                    per_call_timeout,
                });
            }
        }
    }
    v
}

// ------------------------------------------------------------------ timeouts

#[derive(Debug, Clone, Serialize, Deserialize, Hash, PartialEq, Eq)]
pub struct TimeoutCase {
    pub client: ClientKind,
    pub k: u8,
    pub victim: u8,
    pub timeout_ms: u16,
    /// Response delay relative to the timeout, in tenths of a millisecond (may be negative).
    pub delta_tenths: i16,
    /// Abort the victim's task at this instant (ms) instead of relying on its timeout.
    pub cancel_at_ms: Option<u16>,
    /// The peer never answers the victim at all (the timed-out / cancelled call
    /// must leave nothing behind on its own, without a late response cleaning up).
    pub never_answer: bool,
    /// (AsyncClient) the calls go through `forward_message_with_timeout` (caller-chosen ids).
    #[serde(default)]
    pub forward: bool,
}

pub fn check_timeout(c: &TimeoutCase) -> CheckResult {
    let k = c.k as usize;
    let victim = c.victim as usize % k;
    if c.cancel_at_ms.is_some() && c.client == ClientKind::Blocking {
        return Ok(CaseInfo::new(false).class("skipped-blocking-cancel"));
    }
    let t = Duration::from_millis(c.timeout_ms as u64);
    let delay = Duration::from_micros((c.timeout_ms as i64 * 1000 + c.delta_tenths as i64 * 100).max(0) as u64);
    block_on(async {
        let (client, mut io) = connect(c.client).await?;
        let mut handles = Vec::new();
        for i in 0..k {
            let timeout = if i == victim && c.cancel_at_ms.is_none() {
                Some(t)
            } else {
                Some(Duration::from_secs(60))
            };
            handles.push(client.spawn_call_via(i, timeout, c.forward));
        }
        // peer: read all K requests, answer the others at once, the victim late
        let mut frames = Vec::new();
        for _ in 0..k {
            match tokio::time::timeout(watchdog(), io.recv()).await {
                Ok(Ok(Some(f))) => frames.push((std::time::Instant::now(), f)),
                _ => return Err(Fail::new("peer-script", "peer did not receive all requests")),
            }
        }
        let mut victim_frame = None;
        for (at, f) in frames {
            if k_of(&f) == victim {
                victim_frame = Some((at, f));
            } else {
                io.send(&ok_response(&f)).await.map_err(|e| Fail::new("peer-script", e.to_string()))?;
            }
        }
        let (at, vf) = victim_frame.ok_or_else(|| Fail::new("peer-script", "victim request never arrived"))?;
        if let Some(ms) = c.cancel_at_ms {
            tokio::time::sleep(Duration::from_millis(ms as u64)).await;
            handles[victim].abort();
        }
        let elapsed = at.elapsed();
        if delay > elapsed {
            tokio::time::sleep(delay - elapsed).await;
        }
        // the late (or racing) response
        if c.never_answer {
            // wait out the victim's timeout instead
            tokio::time::sleep(t + Duration::from_millis(5)).await;
        } else {
            io.send(&ok_response(&vf)).await.map_err(|e| Fail::new("peer-script", e.to_string()))?;
        }

        let mut victim_timed_out = false;
        for (i, h) in handles.into_iter().enumerate() {
            let r = match tokio::time::timeout(watchdog(), h).await {
                Ok(Ok(r)) => r,
                Ok(Err(e)) if e.is_cancelled() && i == victim => Err("aborted".to_string()),
                Ok(Err(_)) => return Err(Fail::new("panic", format!("call {i} panicked"))),
                Err(_) => return Err(Fail::new("call-hangs", format!("call {i} did not return within {:?}", watchdog()))),
            };
            match r {
                Ok(v) => ensure!(
                    v.get("k").and_then(Value::as_u64) == Some(i as u64),
                    "wrong-response",
                    "call {i} returned {v} (victim {victim})"
                ),
                Err(e) => {
                    ensure!(
                        i == victim,
                        "bystander-call-failed",
                        "call {i} failed ({e}) although only call {victim} timed out / was cancelled"
                    );
                    victim_timed_out = true;
                }
            }
        }
        // a forwarded request may reuse the id of the timed-out / cancelled one at once
        if c.forward && victim_timed_out {
            let again = client.spawn_call_via(victim, Some(Duration::from_secs(60)), true);
            let f = match tokio::time::timeout(watchdog(), io.recv()).await {
                Ok(Ok(Some(f))) => f,
                _ => {
                    let why = match tokio::time::timeout(Duration::from_millis(200), again).await {
                        Ok(Ok(Err(e))) => e,
                        _ => "nothing arrived".to_string(),
                    };
                    return Err(Fail::new("id-not-released", format!("a forward reusing the id of the timed-out / cancelled forward never reached the peer: {why}")));
                }
            };
            io.send(&ok_response(&f)).await.map_err(|e| Fail::new("peer-script", e.to_string()))?;
            match tokio::time::timeout(watchdog(), again).await {
                Ok(Ok(Ok(_))) => {}
                Ok(Ok(Err(e))) => return Err(Fail::new("id-not-released", format!("a forward reusing the id of the timed-out / cancelled forward failed: {e}"))),
                _ => return Err(Fail::new("call-hangs", "re-forward did not return")),
            }
        }
        // the client keeps serving: a follow-up call succeeds with its own response
        let follow = client.spawn_call(777, Some(Duration::from_secs(60)));
        let f = match tokio::time::timeout(watchdog(), io.recv()).await {
            Ok(Ok(Some(f))) => f,
            _ => return Err(Fail::new("follow-up-not-sent", "the follow-up request never reached the peer")),
        };
        ensure!(k_of(&f) == 777, "follow-up-not-sent", "unexpected frame {:?}", f.path());
        io.send(&ok_response(&f)).await.map_err(|e| Fail::new("peer-script", e.to_string()))?;
        match tokio::time::timeout(watchdog(), follow).await {
            Ok(Ok(Ok(v))) => ensure!(
                v.get("k").and_then(Value::as_u64) == Some(777),
                "wrong-response",
                "follow-up call returned {v}"
            ),
            Ok(Ok(Err(e))) => return Err(Fail::new("follow-up-failed", format!("follow-up call failed: {e}"))),
            _ => return Err(Fail::new("call-hangs", "follow-up call did not return")),
        }
        // no residue once the late response has certainly been processed: a second
        // round trip orders it before this point on the same connection
        let follow2 = client.spawn_call(778, Some(Duration::from_secs(60)));
        if let Ok(Ok(Some(f))) = tokio::time::timeout(watchdog(), io.recv()).await {
            let _ = io.send(&ok_response(&f)).await;
        }
        let _ = tokio::time::timeout(watchdog(), follow2).await;
        let pending = client.pending();
        ensure!(
            pending == 0,
            "pending-residue",
            "{pending} entries remain in the pending map (victim {victim}, timed out: {victim_timed_out})"
        );
        Ok(CaseInfo::new(c.delta_tenths.unsigned_abs() <= 50 || c.cancel_at_ms.is_some() || c.never_answer)
            .class(format!("{:?}", c.client))
            .class(if victim_timed_out { "victim-failed" } else { "victim-got-response" })
            .class(if c.cancel_at_ms.is_some() { "cancelled" } else { "timeout-race" })
            .class(if c.never_answer { "never-answered" } else { "late-response" })
            .class(if c.forward { "forward_message" } else { "call_json" }))
    })
}

fn timeout_case() -> BoxedStrategy<TimeoutCase> {
    (
        prop::sample::select(vec![ClientKind::Blocking, ClientKind::Async, ClientKind::Ws]),
        2u8..7,
        any::<u8>(),
        10u16..40,
        prop_oneof![3 => -50i16..=50, 1 => -150i16..-50, 2 => 50i16..300],
        prop::option::weighted(0.3, 0u16..30),
        prop::bool::weighted(0.3),
        prop::bool::weighted(0.4),
    )
        .prop_map(|(client, k, victim, timeout_ms, delta_tenths, cancel_at_ms, never_answer, forward)| TimeoutCase {
            client,
            k,
            victim,
            timeout_ms,
            delta_tenths,
            cancel_at_ms,
            never_answer,
            forward: forward && client == ClientKind::Async,
        })
        .boxed()
}

// --------------------------------------------- cancellation while queued to write

#[derive(Debug, Clone, Serialize, Deserialize, Hash, PartialEq, Eq)]
pub struct QueuedCancel {
    pub ws: bool,
    pub stall_ms: u16,
    pub cancel_after_ms: u8,
    pub use_timeout_wrapper: bool,
    pub queued: u8,
}

/// A call cancelled while it is only waiting its turn to write (another call is
/// mid-write of a large frame to a slow reader) has written nothing: it must leave
/// nothing behind and the client must keep serving other calls.
pub fn check_queued_cancel(c: &QueuedCancel) -> CheckResult {
    const BIG: usize = 6 << 20;
    let phase = std::sync::Arc::new(std::sync::atomic::AtomicUsize::new(0));
    let ph = phase.clone();
    let mark = move |n: usize| ph.store(n, std::sync::atomic::Ordering::SeqCst);
    let outer = block_on(async { tokio::time::timeout(Duration::from_secs(90), async {
        let sock = socket2::Socket::new(socket2::Domain::IPV4, socket2::Type::STREAM, None)
            .map_err(|e| Fail::new("harness-listen", e.to_string()))?;
        sock.set_recv_buffer_size(4096).ok();
        sock.set_reuse_address(true).ok();
        let any: std::net::SocketAddr = crate::util::lo0().as_str().parse().unwrap();
        sock.bind(&any.into()).map_err(|e| Fail::new("harness-listen", e.to_string()))?;
        sock.listen(8).map_err(|e| Fail::new("harness-listen", e.to_string()))?;
        sock.set_nonblocking(true).ok();
        let std_l: std::net::TcpListener = sock.into();
        let addr = std_l.local_addr().unwrap();
        let listener = tokio::net::TcpListener::from_std(std_l).map_err(|e| Fail::new("harness-listen", e.to_string()))?;
        let (client, mut io) = if c.ws {
            let url = format!("ws://{addr}");
            let (cl, io) = tokio::join!(WebSocketClient::connect(&url), accept_ws(&listener));
            (
                AnyClient::W(cl.map_err(|e| Fail::new("harness-connect", e.to_string()))?),
                AnyIo::W(io.map_err(|e| Fail::new("harness-accept", e.to_string()))?),
            )
        } else {
            let cl = AsyncClient::connect(addr).await.map_err(|e| Fail::new("harness-connect", e.to_string()))?;
            let io = accept_tcp(&listener).await.map_err(|e| Fail::new("harness-accept", e.to_string()))?;
            (AnyClient::A(cl), AnyIo::T(io))
        };
        mark(1);
        // A: big call, holds the writer while the peer is not reading
        let big_body = vec![0x5Au8; BIG];
        let a = match &client {
            AnyClient::A(cl) => {
                let cl = cl.clone();
                tokio::spawn(async move { cl.call_with_formats("/c/0", 1, Some(&big_body), 0).await.map(|m| m.body).map_err(|e| e.to_string()) })
            }
            AnyClient::W(cl) => {
                let cl = cl.clone();
                tokio::spawn(async move { cl.call_with_formats("/c/0", 1, Some(&big_body), 0).await.map(|m| m.body).map_err(|e| e.to_string()) })
            }
            AnyClient::B(_) => unreachable!(),
        };
        tokio::time::sleep(Duration::from_millis(4)).await;
        // queued calls, cancelled while waiting for the writer
        let mut queued = Vec::new();
        for i in 0..c.queued.max(1) {
            let k = 100 + i as usize;
            let h = if c.use_timeout_wrapper {
                let inner = client.spawn_call(k, Some(Duration::from_millis(c.cancel_after_ms as u64 + 1)));
                inner
            } else {
                client.spawn_call(k, None)
            };
            queued.push(h);
        }
        tokio::time::sleep(Duration::from_millis(c.cancel_after_ms as u64 + 2)).await;
        let mut late: Vec<tokio::task::JoinHandle<Result<Value, String>>> = Vec::new();
        if !c.use_timeout_wrapper {
            for h in &queued {
                h.abort();
            }
            for h in queued {
                let _ = h.await;
            }
        } else {
            // a per-call timeout only bounds the wait for the response: these calls
            // stay queued behind the big write and are sent (and answered) later
            late = queued;
        }
        mark(2);
        tokio::time::sleep(Duration::from_millis(c.stall_ms as u64)).await;
        // peer drains: the big frame arrives whole, is answered; queued-but-cancelled calls
        // that did reach the wire (per-call timeout variant) are answered too
        mark(3);
        let mut answered_big = false;
        let deadline = std::time::Instant::now() + watchdog();
        while !answered_big && std::time::Instant::now() < deadline {
            match tokio::time::timeout(watchdog(), io.recv()).await {
                Ok(Ok(Some(f))) => {
                    let k = k_of(&f);
                    let _ = io.send(&ok_response(&f)).await;
                    if k == 0 {
                        answered_big = true;
                    }
                }
                other => {
                    return Err(Fail::new(
                        "big-frame-lost",
                        format!("the peer did not receive the big request whole: {:?}", other.map(|r| r.map(|o| o.map(|f| f.path())))),
                    ));
                }
            }
        }
        mark(4);
        match tokio::time::timeout(watchdog(), a).await {
            Ok(Ok(Ok(body))) => ensure!(body == br#"{"k":0}"#, "wrong-response", "big call got {:?}", String::from_utf8_lossy(&body)),
            Ok(Ok(Err(e))) => return Err(Fail::new("bystander-call-failed", format!("the big call failed although only queued calls were cancelled: {e}"))),
            _ => return Err(Fail::new("call-hangs", "the big call did not return")),
        }
        mark(5);
        // the client keeps serving
        let follow = client.spawn_call(777, Some(Duration::from_secs(60)));
        loop {
            match tokio::time::timeout(watchdog(), io.recv()).await {
                Ok(Ok(Some(f))) => {
                    let k = k_of(&f);
                    let _ = io.send(&ok_response(&f)).await;
                    if k == 777 {
                        break;
                    }
                }
                _ => break,
            }
        }
        match tokio::time::timeout(watchdog(), follow).await {
            Ok(Ok(Ok(v))) => ensure!(v.get("k").and_then(Value::as_u64) == Some(777), "wrong-response", "follow-up returned {v}"),
            Ok(Ok(Err(e))) => {
                return Err(Fail::new(
                    "follow-up-failed",
                    format!("after cancelling calls that were only queued to write, a follow-up call fails: {e}"),
                ));
            }
            _ => return Err(Fail::new("call-hangs", "follow-up did not return")),
        }
        mark(7);
        for h in late {
            match tokio::time::timeout(watchdog(), h).await {
                Ok(_) => {}
                Err(_) => return Err(Fail::new("call-hangs", "a queued call with a per-call timeout never returned")),
            }
        }
        let pending = client.pending();
        ensure!(pending == 0, "pending-residue", "{pending} entries remain in the pending map");
        Ok(CaseInfo::new(true)
            .class(if c.ws { "Ws" } else { "Async" })
            .class(if c.use_timeout_wrapper { "per-call-timeout" } else { "abort" }))
    }).await });
    match outer {
        Ok(r) => r,
        Err(_) => Err(Fail::new(
            "harness-stuck",
            format!("case did not finish within 90 s; last phase {}", phase.load(std::sync::atomic::Ordering::SeqCst)),
        )),
    }
}

fn queued_case() -> BoxedStrategy<QueuedCancel> {
    (any::<bool>(), 20u16..80, 1u8..12, any::<bool>(), 1u8..4)
        .prop_map(|(ws, stall_ms, cancel_after_ms, use_timeout_wrapper, queued)| QueuedCancel {
            ws,
            stall_ms,
            cancel_after_ms,
            use_timeout_wrapper,
            queued,
        })
        .boxed()
}

pub fn run(ctx: &Ctx, rep: &Report) {
    run_prop_threads(ctx, rep, "cancel-queued", ctx.tier.pick(48, 1_000), ctx.threads.min(8), &|| queued_case(), &check_queued_cancel);
    run_enum(ctx, rep, "parked-send", &parked_cases(), true, &check_parked_send);
    let wtc: Vec<WriteTimeoutThenCall> = [(0u8, 0u8, 0u8), (10, 40, 2), (30, 100, 4), (5, 10, 7)]
        .into_iter()
        .map(|(timeout_ms, stall_extra_ms, big_mib)| WriteTimeoutThenCall { timeout_ms, stall_extra_ms, big_mib })
        .collect();
    run_enum(ctx, rep, "later-call-after-write-timeout", &wtc, false, &check_later_call_after_write_timeout);
    run_enum(ctx, rep, "fault-grid", &grid(), true, &check_fault);
    run_prop(ctx, rep, "faults", ctx.tier.pick(1_200, 90_000), &|| fault_case(), &check_fault);
    run_prop(ctx, rep, "timeouts", ctx.tier.pick(600, 36_000), &|| timeout_case(), &check_timeout);
}

pub fn replay(sub: &str, case: &serde_json::Value) -> Result<(), Fail> {
    match sub {
        "fault-grid" | "faults" => replay_case::<FaultCase>(case, &check_fault),
        "timeouts" => replay_case::<TimeoutCase>(case, &check_timeout),
        "parked-send" => replay_case::<ParkedCase>(case, &check_parked_send),
        "later-call-after-write-timeout" => replay_case::<WriteTimeoutThenCall>(case, &check_later_call_after_write_timeout),
        "cancel-queued" => replay_case::<QueuedCancel>(case, &check_queued_cancel),
        _ => Err(Fail::new("replay-unknown-sub", sub.to_string())),
    }
}
