//! C02 — hostile bytes never crash a parser or reader; only consistent frames parse.

use crate::engine::child::{child_loop, run_in_children};
use crate::engine::*;
use crate::ensure;
use crate::gens::*;
use crate::oracle::codec::{self, OHeader, Parse};
use crate::util::*;
use proptest::prelude::*;
use repe::message::Message;
use repe::{Header, MessageView};
use serde::{Deserialize, Serialize};
use serde_json::Value;
use std::io::Cursor;

pub const RULE: &str = "inputs: (G1) arbitrary byte strings 0..4KiB with and without the magic patched in, (G2) structured mutations of small valid frames (every truncation point, bad magic, trailing bytes, splices, each length field replaced by boundary values, byte flips), (G3) 48-byte headers over the cross product of boundary values for (length, query_length, body_length) incl. sums that wrap mod 2^64 and unallocatable sizes; fed to the 5 slice parsers in-process and to the 4 stream readers (Cursor / dribble / failing reader) in child processes; oracle = u128 reference parser; (remote) a child process hosts Server, AsyncServer and the WebSocket server, receives each hostile header on a fresh connection and must then still answer a valid call; the three clients, run in child processes, receive hostile response headers from a scripted peer and must return an error; non-trivial = input has >=48 bytes and the correct magic (reaches the length logic); distinct = distinct case hash";

pub const ASSUMPTIONS: &[&str] = &[
    "stream-reader cases with a consistent header declare each payload length <= 16 MiB or >= 2^62, so no outcome depends on machine memory (the property's own restriction)",
    "any Err variant is accepted for a rejected input; variants/messages are not pinned",
    "process abort is detected as the child's signal exit and attributed to the case announced by BEGIN",
];

const MIB16: u64 = 16 << 20;

#[derive(Debug, Clone, Serialize, Deserialize, Hash, PartialEq, Eq)]
pub struct SmallFrame {
    pub version: u8,
    pub notify: u8,
    pub reserved: u32,
    pub id: u64,
    pub qf: u16,
    pub bf: u16,
    pub ec: u32,
    pub qlen: u16,
    pub blen: u16,
    pub seed: u64,
}

impl SmallFrame {
    pub fn bytes(&self) -> Vec<u8> {
        let h = OHeader {
            length: 0,
            spec: codec::MAGIC,
            version: self.version,
            notify: self.notify,
            reserved: self.reserved,
            id: self.id,
            query_length: 0,
            body_length: 0,
            query_format: self.qf,
            body_format: self.bf,
            ec: self.ec,
        };
        codec::encode_frame(
            &h,
            &fill(self.qlen as usize, self.seed),
            &fill(self.blen as usize, self.seed ^ 0xABCD),
        )
    }
}

#[derive(Debug, Clone, Serialize, Deserialize, Hash, PartialEq, Eq)]
pub enum Mutation {
    None,
    /// Keep only the first n bytes.
    Truncate(u32),
    BadMagic(u16),
    Trailing(u8),
    /// Append a second copy of the frame.
    Splice,
    /// Insert a second frame in the middle of the first at the given offset.
    SpliceAt(u16),
    SetLength(u64),
    SetQ(u64),
    SetB(u64),
    /// Replace q and b keeping q+b (moves the query/body boundary).
    ShiftBoundary(i16),
    FlipByte { pos: u16, xor: u8 },
}

#[derive(Debug, Clone, Serialize, Deserialize, Hash, PartialEq, Eq)]
pub enum Input {
    Raw {
        len: u16,
        seed: u64,
        magic: bool,
    },
    Frame {
        f: SmallFrame,
        m: Mutation,
    },
    /// A 48-byte header with the given three lengths followed by `avail` bytes.
    Hdr {
        length: u64,
        q: u64,
        b: u64,
        seed: u64,
        avail: u16,
    },
    /// Verbatim bytes (fuzzer inputs, regression files).
    Literal { hex: String },
}

fn put_u64(buf: &mut [u8], off: usize, v: u64) {
    buf[off..off + 8].copy_from_slice(&v.to_le_bytes());
}

impl Input {
    pub fn bytes(&self) -> Vec<u8> {
        match self {
            Input::Literal { hex } => (0..hex.len() / 2).filter_map(|i| u8::from_str_radix(&hex[2 * i..2 * i + 2], 16).ok()).collect(),
            Input::Raw { len, seed, magic } => {
                let mut v = fill(*len as usize, *seed);
                if *magic && v.len() >= 10 {
                    v[8] = 0x07;
                    v[9] = 0x15;
                }
                v
            }
            Input::Frame { f, m } => {
                let mut v = f.bytes();
                match m {
                    Mutation::None => {}
                    Mutation::Truncate(n) => v.truncate((*n as usize).min(v.len())),
                    Mutation::BadMagic(x) => {
                        let x = if *x == codec::MAGIC { 0 } else { *x };
                        v[8..10].copy_from_slice(&x.to_le_bytes());
                    }
                    Mutation::Trailing(n) => v.extend(fill(*n as usize, f.seed ^ 7)),
                    Mutation::Splice => {
                        let c = v.clone();
                        v.extend(c);
                    }
                    Mutation::SpliceAt(p) => {
                        let p = (*p as usize).min(v.len());
                        let c = v.clone();
                        let tail = v.split_off(p);
                        v.extend(c);
                        v.extend(tail);
                    }
                    Mutation::SetLength(x) => put_u64(&mut v, 0, *x),
                    Mutation::SetQ(x) => put_u64(&mut v, 24, *x),
                    Mutation::SetB(x) => put_u64(&mut v, 32, *x),
                    Mutation::ShiftBoundary(d) => {
                        let q = f.qlen as i64;
                        let b = f.blen as i64;
                        let d = (*d as i64).clamp(-q, b);
                        put_u64(&mut v, 24, (q + d) as u64);
                        put_u64(&mut v, 32, (b - d) as u64);
                    }
                    Mutation::FlipByte { pos, xor } => {
                        if !v.is_empty() {
                            let p = (*pos as usize) % v.len();
                            v[p] ^= *xor | 1;
                        }
                    }
                }
                v
            }
            Input::Hdr {
                length,
                q,
                b,
                seed,
                avail,
            } => {
                let mut h = OHeader::raw(&fill(48, *seed));
                h.spec = codec::MAGIC;
                h.length = *length;
                h.query_length = *q;
                h.body_length = *b;
                let mut v = h.encode().to_vec();
                v.extend(fill(*avail as usize, seed ^ 3));
                v
            }
        }
    }
}

#[derive(Debug, Clone, Copy, Serialize, Deserialize, Hash, PartialEq, Eq)]
pub enum ReaderMode {
    Cursor,
    Dribble(u8),
    FailAt(u16),
}

#[derive(Debug, Clone, Serialize, Deserialize, Hash, PartialEq, Eq)]
pub struct Case {
    pub input: Input,
    pub mode: ReaderMode,
}

// ---------------------------------------------------------------- generators

fn small_frame() -> BoxedStrategy<SmallFrame> {
    (
        (any_u8_mix(), any_u8_mix(), any_u32_mix(), any_u64_mix()),
        (any_u16_mix(), any_u16_mix(), any_u32_mix()),
        prop_oneof![Just(0u16), 1u16..16, 0u16..300],
        prop_oneof![Just(0u16), 1u16..16, 0u16..300],
        any::<u64>(),
    )
        .prop_map(
            |((version, notify, reserved, id), (qf, bf, ec), qlen, blen, seed)| SmallFrame {
                version,
                notify,
                reserved,
                id,
                qf,
                bf,
                ec,
                qlen,
                blen,
                seed,
            },
        )
        .boxed()
}

pub fn boundary_lengths() -> Vec<u64> {
    let mut v = vec![
        0u64,
        1,
        47,
        48,
        49,
        96,
        (1 << 31) - 1,
        1 << 31,
        (1 << 32) - 1,
        1 << 32,
        MIB16,
        1 << 62,
        (1 << 62) + 48,
        (1 << 63) - 1,
        1 << 63,
        (1 << 63) + 48,
    ];
    for k in [0u64, 1, 2, 46, 47, 48, 49, 50, 95, 96] {
        v.push(u64::MAX - k);
    }
    v
}

fn length_value() -> BoxedStrategy<u64> {
    prop_oneof![
        4 => prop::sample::select(boundary_lengths()),
        2 => 0u64..700,
        1 => (0u64..50).prop_map(|k| u64::MAX - k),
        1 => any::<u64>(),
    ]
    .boxed()
}

fn mutation() -> BoxedStrategy<Mutation> {
    prop_oneof![
        1 => Just(Mutation::None),
        4 => (0u32..700).prop_map(Mutation::Truncate),
        1 => any::<u16>().prop_map(Mutation::BadMagic),
        2 => (1u8..40).prop_map(Mutation::Trailing),
        1 => Just(Mutation::Splice),
        1 => (0u16..700).prop_map(Mutation::SpliceAt),
        2 => length_value().prop_map(Mutation::SetLength),
        2 => length_value().prop_map(Mutation::SetQ),
        2 => length_value().prop_map(Mutation::SetB),
        2 => (-300i16..300).prop_map(Mutation::ShiftBoundary),
        2 => (any::<u16>(), any::<u8>()).prop_map(|(pos, xor)| Mutation::FlipByte { pos, xor }),
    ]
    .boxed()
}

fn reader_mode() -> BoxedStrategy<ReaderMode> {
    prop_oneof![
        2 => Just(ReaderMode::Cursor),
        2 => (1u8..9).prop_map(ReaderMode::Dribble),
        1 => (0u16..700).prop_map(ReaderMode::FailAt),
    ]
    .boxed()
}

fn input_g1g2() -> BoxedStrategy<Input> {
    prop_oneof![
        2 => (prop_oneof![0u16..100, 0u16..4096], any::<u64>(), any::<bool>())
            .prop_map(|(len, seed, magic)| Input::Raw { len, seed, magic }),
        5 => (small_frame(), mutation()).prop_map(|(f, m)| Input::Frame { f, m }),
    ]
    .boxed()
}

/// Does a consistent header keep stream readers independent of machine memory?
fn reader_safe(h: &OHeader) -> bool {
    if !h.consistent() {
        return true;
    }
    let ok = |x: u64| x <= MIB16 || x >= (1 << 62);
    ok(h.query_length) && ok(h.body_length)
}

fn hdr_input() -> BoxedStrategy<Input> {
    (
        length_value(),
        length_value(),
        length_value(),
        any::<u64>(),
        prop_oneof![Just(0u16), Just(1), Just(48), 0u16..300],
        0u8..4,
    )
        .prop_map(|(length, q, b, seed, avail, mode)| {
            // mode 0: as drawn; 1: make consistent over Z when possible;
            // 2: make 48+q+b ≡ length (mod 2^64) by solving for b; 3: solve for length.
            let (length, q, b) = match mode {
                1 => {
                    let t = 48u128 + q as u128 + b as u128;
                    if t <= u64::MAX as u128 {
                        (t as u64, q, b)
                    } else {
                        (length, q, b)
                    }
                }
                2 => (length, q, length.wrapping_sub(48).wrapping_sub(q)),
                3 => (48u64.wrapping_add(q).wrapping_add(b), q, b),
                _ => (length, q, b),
            };
            Input::Hdr {
                length,
                q,
                b,
                seed,
                avail,
            }
        })
        .boxed()
}

fn case_g1g2() -> BoxedStrategy<Case> {
    (input_g1g2(), reader_mode())
        .prop_map(|(input, mode)| Case { input, mode })
        .boxed()
}

fn case_hdr() -> BoxedStrategy<Case> {
    (hdr_input(), reader_mode())
        .prop_map(|(input, mode)| Case { input, mode })
        .boxed()
}

/// The G3 cross product (exhaustive over the boundary set) plus constructed
/// wrap cases.
pub fn g3_cases(full: bool) -> Vec<Case> {
    let mut vals = boundary_lengths();
    if full {
        for k in 0..50u64 {
            vals.push(u64::MAX - k);
        }
        vals.extend([2, 50, 100, 255, 256, 4096, 65535, 65536, (1 << 62) - 1]);
    }
    vals.sort();
    vals.dedup();
    let mut out = Vec::new();
    let mut i = 0u64;
    for &length in &vals {
        for &q in &vals {
            for &b in &vals {
                i += 1;
                let avail = match i % 3 {
                    0 => 0u16,
                    1 => 1,
                    _ => 100,
                };
                out.push(Case {
                    input: Input::Hdr {
                        length,
                        q,
                        b,
                        seed: i,
                        avail,
                    },
                    mode: ReaderMode::Cursor,
                });
            }
        }
    }
    // Constructed wraps: 48+q+b ≡ length (mod 2^64) but not over Z.
    let smalls: Vec<u64> = if full {
        (0..200).collect()
    } else {
        vec![0, 1, 47, 48, 49, 50, 95, 96, 97, 100, 148]
    };
    for &length in &smalls {
        for &q in &vals {
            let b = length.wrapping_sub(48).wrapping_sub(q);
            for avail in [0u16, 100] {
                i += 1;
                out.push(Case {
                    input: Input::Hdr {
                        length,
                        q,
                        b,
                        seed: i,
                        avail,
                    },
                    mode: if i % 2 == 0 {
                        ReaderMode::Cursor
                    } else {
                        ReaderMode::Dribble(3)
                    },
                });
                // and the symmetric one (solve for q)
                out.push(Case {
                    input: Input::Hdr {
                        length,
                        q: b,
                        b: q,
                        seed: i,
                        avail,
                    },
                    mode: ReaderMode::Cursor,
                });
            }
        }
    }
    out
}

/// Every truncation point of small valid frames (exhaustive per frame).
pub fn truncation_cases(seed: u64, frames: usize) -> Vec<Case> {
    let fs = sample_cases(seed, frames, &small_frame());
    let mut out = Vec::new();
    for f in fs {
        let n = f.bytes().len();
        for k in 0..=n {
            out.push(Case {
                input: Input::Frame {
                    f: f.clone(),
                    m: Mutation::Truncate(k as u32),
                },
                mode: if k % 2 == 0 {
                    ReaderMode::Cursor
                } else {
                    ReaderMode::Dribble((k % 7 + 1) as u8)
                },
            });
        }
    }
    out
}

// -------------------------------------------------------------------- oracle

fn classify(buf: &[u8]) -> (bool, &'static str) {
    if buf.len() < 48 {
        return (false, "short");
    }
    let h = OHeader::raw(buf);
    if h.spec != codec::MAGIC {
        return (false, "bad-magic");
    }
    let t = h.declared_total();
    let class = if h.consistent() {
        if t >= (1u128 << 62) {
            "consistent-unallocatable"
        } else if (buf.len() as u128) < t {
            "consistent-truncated"
        } else if (buf.len() as u128) == t {
            "consistent-exact"
        } else {
            "consistent-trailing"
        }
    } else if (t & (u64::MAX as u128)) == h.length as u128 {
        "inconsistent-wrapping"
    } else {
        "inconsistent"
    };
    (true, class)
}

fn hdr_eq(route: &str, got: &Header, want: &OHeader) -> Result<(), Fail> {
    let g = OHeader::from_repe(got);
    ensure!(
        g == *want,
        format!("{route}:header-fields"),
        "{route}: header {:?} != reference {:?}",
        g,
        want
    );
    Ok(())
}

/// Slice parsers (in-process; panics are caught by the engine).
pub fn check_slices(c: &Case) -> CheckResult {
    let buf = c.input.bytes();
    let reference = codec::parse(&buf);
    let (nontrivial, class) = classify(&buf);

    // Header::decode: Ok ⇔ ≥48 bytes ∧ magic ∧ consistent.
    let hd = Header::decode(&buf);
    let hdr_ok = buf.len() >= 48 && OHeader::raw(&buf).consistent();
    match (&hd, hdr_ok) {
        (Ok(h), true) => hdr_eq("Header::decode", h, &OHeader::raw(&buf))?,
        (Err(_), false) => {}
        (Ok(h), false) => {
            return Err(Fail::new(
                "Header::decode:accepts-invalid",
                format!("accepted {:?} from {} bytes", h, buf.len()),
            ));
        }
        (Err(e), true) => {
            return Err(Fail::new(
                "Header::decode:rejects-valid",
                format!("rejected consistent header: {e}"),
            ));
        }
    }

    let m = Message::from_slice(&buf);
    let me = Message::from_slice_exact(&buf);
    let v = MessageView::from_slice(&buf);
    let ve = MessageView::from_slice_exact(&buf);
    match &reference {
        Parse::Frame {
            header,
            query,
            body,
            trailing,
        } => {
            let m = m.map_err(|e| {
                Fail::new("Message::from_slice:rejects-valid", format!("{e} ({class})"))
            })?;
            hdr_eq("Message::from_slice", &m.header, header)?;
            ensure!(
                m.query == *query && m.body == *body,
                "Message::from_slice:payload",
                "payload is not the input's bytes"
            );
            let v = v.map_err(|e| {
                Fail::new("MessageView::from_slice:rejects-valid", format!("{e} ({class})"))
            })?;
            hdr_eq("MessageView::from_slice", &v.header, header)?;
            ensure!(
                v.query == *query && v.body == *body,
                "MessageView::from_slice:payload",
                "payload is not the input's bytes"
            );
            ensure!(
                v.query.as_ptr() == query.as_ptr() && v.body.as_ptr() == body.as_ptr(),
                "MessageView::from_slice:not-borrowed",
                "view does not borrow the input at the expected offsets"
            );
            if *trailing == 0 {
                let me = me.map_err(|e| {
                    Fail::new("Message::from_slice_exact:rejects-valid", e.to_string())
                })?;
                ensure!(
                    me.query == *query && me.body == *body,
                    "Message::from_slice_exact:payload",
                    "payload mismatch"
                );
                let ve = ve.map_err(|e| {
                    Fail::new("MessageView::from_slice_exact:rejects-valid", e.to_string())
                })?;
                ensure!(
                    ve.query == *query && ve.body == *body,
                    "MessageView::from_slice_exact:payload",
                    "payload mismatch"
                );
            } else {
                ensure!(
                    me.is_err(),
                    "Message::from_slice_exact:accepts-trailing",
                    "accepted {trailing} trailing bytes"
                );
                ensure!(
                    ve.is_err(),
                    "MessageView::from_slice_exact:accepts-trailing",
                    "accepted {trailing} trailing bytes"
                );
            }
        }
        other => {
            ensure!(
                m.is_err(),
                "Message::from_slice:accepts-invalid",
                "accepted input classified {:?}/{class}",
                other
            );
            ensure!(
                me.is_err(),
                "Message::from_slice_exact:accepts-invalid",
                "accepted input classified {:?}/{class}",
                other
            );
            ensure!(
                v.is_err(),
                "MessageView::from_slice:accepts-invalid",
                "accepted input classified {:?}/{class}",
                other
            );
            ensure!(
                ve.is_err(),
                "MessageView::from_slice_exact:accepts-invalid",
                "accepted input classified {:?}/{class}",
                other
            );
        }
    }
    Ok(CaseInfo::new(nontrivial).class(class))
}

fn reader_outcome(
    route: &str,
    got: Result<(OHeader, Vec<u8>, Vec<u8>), String>,
    consumed: usize,
    reference: &Parse<'_>,
    class: &str,
) -> Result<(), Fail> {
    match reference {
        Parse::Frame {
            header,
            query,
            body,
            ..
        } => {
            let (h, q, b) = got.map_err(|e| {
                Fail::new(format!("{route}:rejects-valid"), format!("{e} ({class})"))
            })?;
            ensure!(
                h == *header,
                format!("{route}:header-fields"),
                "{route}: header {:?} != {:?}",
                h,
                header
            );
            ensure!(
                q == *query && b == *body,
                format!("{route}:payload"),
                "{route}: payload is not the stream's bytes"
            );
            let want = 48 + query.len() + body.len();
            ensure!(
                consumed == want,
                format!("{route}:consumed"),
                "{route}: consumed {consumed} bytes of a {want}-byte frame"
            );
        }
        other => {
            ensure!(
                got.is_err(),
                format!("{route}:accepts-invalid"),
                "{route}: returned Ok for a stream classified {:?}/{class}",
                other
            );
        }
    }
    Ok(())
}

fn split_frame(buf: &[u8]) -> Result<(OHeader, Vec<u8>, Vec<u8>), String> {
    // For read_message_into: the buffer must itself be exactly one whole frame.
    match codec::parse(buf) {
        Parse::Frame {
            header,
            query,
            body,
            trailing: 0,
        } => Ok((header, query.to_vec(), body.to_vec())),
        other => Err(format!("buffer after Ok is not one whole frame: {other:?}")),
    }
}

/// Stream readers (run in a child process: an abort must not take the harness down).
pub fn check_readers(c: &Case) -> CheckResult {
    let full = c.input.bytes();
    if full.len() >= 48 && !reader_safe(&OHeader::raw(&full)) {
        // Outside the quantifier for stream readers (memory-dependent).
        return Ok(CaseInfo::new(false).class("skipped-memory-dependent"));
    }
    let (k, fail_at) = match c.mode {
        ReaderMode::Cursor => (usize::MAX, None),
        ReaderMode::Dribble(k) => (k as usize, None),
        ReaderMode::FailAt(n) => (5usize, Some((n as usize).min(full.len()))),
    };
    let visible = &full[..fail_at.unwrap_or(full.len())];
    let reference = codec::parse(visible);
    let (nontrivial, class) = classify(visible);
    let mk = || {
        let mut r = DribbleReader::new(&full, k);
        r.fail_at = fail_at;
        r
    };
    let conv = |m: Message| (OHeader::from_repe(&m.header), m.query, m.body);

    // read_message
    let mut r = mk();
    let got = repe::read_message(&mut r).map(conv).map_err(|e| e.to_string());
    reader_outcome("read_message", got, r.consumed(), &reference, class)?;

    // read_message_into (dirty, reused buffer)
    let mut r = mk();
    let mut buf = vec![0xEE; 6000];
    let got = match repe::read_message_into(&mut r, &mut buf) {
        Err(e) => Err(e.to_string()),
        // Ok means "buf holds the complete frame": anything else is a wrongly accepted stream
        Ok(()) => Ok(split_frame(&buf).map_err(|e| Fail::new("read_message_into:ok-without-whole-frame", format!("returned Ok but the buffer ({} bytes) is {e} ({class})", buf.len())))?),
    };
    reader_outcome("read_message_into", got, r.consumed(), &reference, class)?;

    // plain Cursor for the blocking pair too (no dribble) when mode is Cursor
    if matches!(c.mode, ReaderMode::Cursor) {
        let mut cur = Cursor::new(&full[..]);
        let got = repe::read_message(&mut cur).map(conv).map_err(|e| e.to_string());
        reader_outcome("read_message", got, cur.position() as usize, &reference, class)?;
    }

    // async twins
    let (a, ac, b, bc) = block_on(async {
        let mut r1 = mk();
        let a = repe::async_io::read_message_async(&mut r1).await;
        let mut r2 = mk();
        let mut buf = vec![0xEE; 6000];
        let b = repe::async_io::read_message_into_async(&mut r2, &mut buf).await;
        (a, r1.consumed(), b.map(|_| buf), r2.consumed())
    });
    reader_outcome(
        "read_message_async",
        a.map(conv).map_err(|e| e.to_string()),
        ac,
        &reference,
        class,
    )?;
    let b = match b {
        Err(e) => Err(e.to_string()),
        Ok(buf) => Ok(split_frame(&buf).map_err(|e| {
            Fail::new(
                "read_message_into_async:ok-without-whole-frame",
                format!("returned Ok but the buffer ({} bytes) is {e} ({class})", buf.len()),
            )
        })?),
    };
    reader_outcome("read_message_into_async", b, bc, &reference, class)?;
    Ok(CaseInfo::new(nontrivial).class(class).class(match c.mode {
        ReaderMode::Cursor => "cursor",
        ReaderMode::Dribble(_) => "dribble",
        ReaderMode::FailAt(_) => "failing-reader",
    }))
}

pub fn child(sub: &str) -> i32 {
    match sub {
        s if s.starts_with("readers") => child_loop::<Case>(&check_readers),
        s if s.starts_with("remote") => super::c02_net::child(s),
        _ => 2,
    }
}

fn corpus_cases() -> Vec<Case> {
    // Permanent regression inputs (the inputs of fixed findings F1/F2 and friends).
    let path = verif_root().join("corpus/C02/regressions.json");
    let Ok(text) = std::fs::read_to_string(path) else {
        return Vec::new();
    };
    serde_json::from_str(&text).unwrap_or_default()
}

pub fn run(ctx: &Ctx, rep: &Report) {
    if let Err(e) = codec::self_check_against_fixtures() {
        rep.mark_inconclusive(format!("oracle self-check failed: {e}"));
    }
    let t = ctx.tier;
    let nproc = ctx.threads;

    // Regression corpus first: a returning defect is reported within seconds.
    let corpus = corpus_cases();
    run_enum(ctx, rep, "slices-corpus", &corpus, false, &check_slices);
    run_in_children(ctx, rep, "readers-corpus", &corpus, nproc.min(4), false);

    // G3: exhaustive cross product of boundary lengths.
    let g3 = g3_cases(t == Tier::Thorough);
    run_enum(ctx, rep, "slices-g3", &g3, true, &check_slices);
    run_in_children(ctx, rep, "readers-g3", &g3, nproc, true);

    // Every truncation point of sampled small frames.
    let tr = truncation_cases(ctx.sub_seed("trunc", 0), t.pick(40, 600));
    run_enum(ctx, rep, "slices-trunc", &tr, false, &check_slices);
    run_in_children(ctx, rep, "readers-trunc", &tr, nproc, false);

    // G1/G2 random + structured mutations, shrinking in-process for slices.
    run_prop(ctx, rep, "slices-g1g2", t.pick(30_000, 4_000_000), &|| case_g1g2(), &check_slices);
    run_prop(ctx, rep, "slices-hdr", t.pick(30_000, 4_000_000), &|| case_hdr(), &check_slices);
    let n = t.pick(12_000, 600_000);
    let g = sample_cases(ctx.sub_seed("readers-g1g2", 0), n, &case_g1g2());
    run_in_children(ctx, rep, "readers-g1g2", &g, nproc, false);
    let g = sample_cases(ctx.sub_seed("readers-hdr", 0), n, &case_hdr());
    run_in_children(ctx, rep, "readers-hdr", &g, nproc, false);

    super::c02_net::run(ctx, rep);
}

pub fn replay(sub: &str, case: &Value) -> Result<(), Fail> {
    match sub {
        s if s.starts_with("slices") => replay_case::<Case>(case, &check_slices),
        s if s.starts_with("readers") || s.starts_with("both") => {
            if s.starts_with("both") {
                replay_case::<Case>(case, &check_slices)?;
            }
            // Run in a child so an abort is observed, not suffered.
            let c: Case = serde_json::from_value(case.clone())
                .map_err(|e| Fail::new("replay-decode", e.to_string()))?;
            let ctx = Ctx {
                prop: "C02",
                tier: Tier::Quick,
                seed: 0,
                threads: 1,
                only: None,
            };
            let rep = Report::new("C02", "exploration", "replay");
            run_in_children(&ctx, &rep, "readers-replay", &[c], 1, false);
            if rep.violations() > 0 {
                Err(Fail::new("replay", "violation reproduced (see above)"))
            } else {
                Ok(())
            }
        }
        s if s.starts_with("remote") => super::c02_net::replay(s, case),
        _ => Err(Fail::new("replay-unknown-sub", sub.to_string())),
    }
}

/// In-process twin of the slice and reader checks for one input (the fuzz targets
/// run both in the fuzzing process: an abort or a sanitizer report is the signal).
fn check_both(c: &Case) -> CheckResult {
    let info = check_slices(c)?;
    check_readers(c)?;
    Ok(info)
}

pub fn fuzz_targets() -> Vec<crate::fuzz::Target> {
    use crate::fuzz::from_bytes;
    vec![from_bytes(
        "c02_bytes",
        "C02",
        "both-replay",
        |data: &[u8]| {
            // first byte picks the reader mode, the rest is the wire input verbatim
            let (m, rest) = data.split_first()?;
            let mode = match m % 4 {
                0 => ReaderMode::Cursor,
                1 => ReaderMode::Dribble(1 + m / 4 % 7),
                2 => ReaderMode::Dribble(48),
                _ => ReaderMode::FailAt((*m as u16 / 4) * 3),
            };
            Some(Case {
                input: Input::Literal {
                    hex: rest.iter().map(|b| format!("{b:02x}")).collect(),
                },
                mode,
            })
        },
        check_both,
    )]
}
