//! C14 — the registry behaves as a JSON tree addressed by RFC 6901 pointers.

use crate::engine::linear::{Event, SeqModel, linearize};
use crate::engine::*;
use crate::ensure;
use crate::oracle::ptr;
use proptest::prelude::*;
use repe::message::Message;
use repe::{ErrorCode, QueryFormat, Registry, Router};
use serde::{Deserialize, Serialize};
use serde_json::{Map, Value, json};
use std::collections::BTreeMap;
use std::hash::{Hash, Hasher};
use std::sync::atomic::{AtomicU64, Ordering};
use std::sync::{Arc, Mutex};

pub const RULE: &str = "operation histories over {register_value, register_function, merge_at, merge_root, request read (empty body), request write/call (non-empty body), read_value} with pointers built from tokens {a,b,\"\",0,1,2,01,x/y,m~n,~,~1} at depth 0..6 (escaped by an independent RFC 6901 escaper) plus malformed pointers, run both directly (Registry::dispatch) and through Router::with_registry(prefix) on a twin registry, against a serde_json::Value + callable-map reference model with its own resolution code: full-tree comparison after every op, exact outcome class, function invocation log (exactly once, exact body); exhaustive small scope (3 pointers x 3 values, length<=tier), random histories up to 100 ops, and concurrent 4x4 request histories searched for a linearization; parse_json_pointer/eval_json_pointer compared with the independent tokenizer; non-trivial = a write followed by a read of the same/ancestor/descendant pointer, or an escaped pointer, or a call at an escaped pointer; distinct = case hash";

const TOKENS: [&str; 11] = ["a", "b", "", "0", "1", "2", "01", "x/y", "m~n", "~", "~1"];

fn values() -> Vec<Value> {
    vec![
        Value::Null,
        json!(0),
        json!(7),
        json!("s"),
        json!([1, 2, 3]),
        json!({"a": 1}),
        json!({"b": {"c": [true, {"a": "deep"}]}}),
        json!([]),
        json!({}),
        json!({"x/y": {"m~n": 5}, "": "empty-key", "~": [10, 20]}),
        json!(false),
        json!([[1], {"a": [0]}]),
    ]
}

fn objects() -> Vec<Map<String, Value>> {
    vec![
        Map::new(),
        json!({"a": 9}).as_object().unwrap().clone(),
        json!({"n": {"k": 1}, "b": null}).as_object().unwrap().clone(),
        json!({"x/y": "slash", "~": 1}).as_object().unwrap().clone(),
    ]
}

#[derive(Debug, Clone, Serialize, Deserialize, Hash, PartialEq, Eq)]
pub enum Ptr {
    /// Token indices into TOKENS.
    Toks(Vec<u8>),
    /// A malformed pointer (index into MALFORMED).
    Malformed(u8),
    /// "/" (documented alias of the root).
    SlashRoot,
}

const MALFORMED: [&str; 6] = ["/a~2b", "/a~", "abc", "a/b", "/~", "/a/~x/b"];

impl Ptr {
    fn tokens(&self) -> Option<Vec<String>> {
        match self {
            Ptr::Toks(v) => Some(v.iter().map(|i| TOKENS[*i as usize % TOKENS.len()].to_string()).collect()),
            Ptr::SlashRoot => Some(vec![]),
            Ptr::Malformed(_) => None,
        }
    }
    fn text(&self) -> String {
        match self {
            Ptr::Toks(_) => ptr::build(&self.tokens().unwrap()),
            Ptr::SlashRoot => "/".to_string(),
            Ptr::Malformed(i) => MALFORMED[*i as usize % MALFORMED.len()].to_string(),
        }
    }
    fn escaped(&self) -> bool {
        self.text().contains('~')
    }
}

#[derive(Debug, Clone, Serialize, Deserialize, Hash, PartialEq, Eq)]
pub enum Op {
    RegValue { toks: Vec<u8>, val: u8, no_slash: bool },
    RegFunc { toks: Vec<u8>, no_slash: bool },
    MergeAt { toks: Vec<u8>, obj: u8 },
    MergeRoot { obj: u8 },
    /// Request with an empty body.
    Read { ptr: Ptr },
    /// Request with a non-empty body (write or call, decided by the target).
    Send { ptr: Ptr, val: u8 },
    ReadValue { ptr: Ptr },
}

#[derive(Debug, Clone, Serialize, Deserialize, Hash, PartialEq, Eq)]
pub struct Hist {
    pub prefix: u8,
    pub ops: Vec<Op>,
}

const PREFIXES: [&str; 6] = ["", "/", "/api", "/api/v1", "api", "/x~1y"];

// ------------------------------------------------------------ reference model

#[derive(Clone, Debug, PartialEq)]
pub struct RModel {
    pub root: Value,
    pub funcs: BTreeMap<Vec<String>, u32>,
}

impl Eq for RModel {}
impl Hash for RModel {
    fn hash<H: Hasher>(&self, h: &mut H) {
        self.root.to_string().hash(h);
        self.funcs.hash(h);
    }
}

#[derive(Clone, Debug, PartialEq, Eq, Hash)]
pub enum Outcome {
    Value(String),
    /// Read at a callable's pointer: no invocation, no mutation; the returned
    /// description is not specified.
    FunctionInfo,
    Written,
    Called(u32, String),
    NotFound,
    InvalidBody,
    /// The documentation does not define this case (e.g. a non-canonical array
    /// index such as "01"); any outcome is accepted and the model resyncs.
    Unspecified,
}

fn canonical_index(tok: &str) -> Option<Option<usize>> {
    // Some(Some(i)): canonical decimal index; Some(None): definitely not an index;
    // None: non-canonical digits ("01", "+1") — unspecified.
    if tok.is_empty() {
        return Some(None);
    }
    if tok.bytes().all(|b| b.is_ascii_digit()) {
        if tok.len() > 1 && tok.starts_with('0') {
            return None;
        }
        return Some(tok.parse().ok());
    }
    if tok.starts_with('+') && tok[1..].bytes().all(|b| b.is_ascii_digit()) && tok.len() > 1 {
        return None;
    }
    Some(None)
}

enum Res<'a> {
    Found(&'a Value),
    Missing,
    Unspec,
}

fn resolve<'a>(root: &'a Value, toks: &[String]) -> Res<'a> {
    let mut cur = root;
    for t in toks {
        match cur {
            Value::Object(m) => match m.get(t) {
                Some(v) => cur = v,
                None => return Res::Missing,
            },
            Value::Array(a) => match canonical_index(t) {
                None => return Res::Unspec,
                Some(None) => return Res::Missing,
                Some(Some(i)) => match a.get(i) {
                    Some(v) => cur = v,
                    None => return Res::Missing,
                },
            },
            _ => return Res::Missing,
        }
    }
    Res::Found(cur)
}

enum ResMut<'a> {
    Found(&'a mut Value),
    Missing,
    Unspec,
}

fn resolve_mut<'a>(root: &'a mut Value, toks: &[String]) -> ResMut<'a> {
    let mut cur = root;
    for t in toks {
        match cur {
            Value::Object(m) => match m.get_mut(t) {
                Some(v) => cur = v,
                None => return ResMut::Missing,
            },
            Value::Array(a) => match canonical_index(t) {
                None => return ResMut::Unspec,
                Some(None) => return ResMut::Missing,
                Some(Some(i)) => match a.get_mut(i) {
                    Some(v) => cur = v,
                    None => return ResMut::Missing,
                },
            },
            _ => return ResMut::Missing,
        }
    }
    ResMut::Found(cur)
}

impl RModel {
    pub fn new() -> Self {
        Self {
            root: json!({}),
            funcs: BTreeMap::new(),
        }
    }

    /// A request: `body == None` is a read; otherwise a call or a write.
    pub fn request(&mut self, toks: Option<&[String]>, body: Option<&Value>) -> Outcome {
        let Some(toks) = toks else {
            return Outcome::NotFound; // malformed pointer
        };
        match body {
            None => {
                if self.funcs.contains_key(toks) {
                    return Outcome::FunctionInfo;
                }
                match resolve(&self.root, toks) {
                    Res::Found(v) => Outcome::Value(v.to_string()),
                    Res::Missing => Outcome::NotFound,
                    Res::Unspec => Outcome::Unspecified,
                }
            }
            Some(v) => {
                if let Some(id) = self.funcs.get(toks) {
                    return Outcome::Called(*id, v.to_string());
                }
                if toks.is_empty() {
                    let Value::Object(obj) = v else {
                        return Outcome::InvalidBody;
                    };
                    let Value::Object(root) = &mut self.root else {
                        return Outcome::Unspecified;
                    };
                    for (k, val) in obj {
                        root.insert(k.clone(), val.clone());
                    }
                    return Outcome::Written;
                }
                let (last, parent) = toks.split_last().unwrap();
                match resolve_mut(&mut self.root, parent) {
                    ResMut::Missing => Outcome::NotFound,
                    ResMut::Unspec => Outcome::Unspecified,
                    ResMut::Found(p) => match p {
                        Value::Object(m) => {
                            m.insert(last.clone(), v.clone());
                            Outcome::Written
                        }
                        Value::Array(a) => match canonical_index(last) {
                            None => Outcome::Unspecified,
                            Some(None) => Outcome::NotFound,
                            Some(Some(i)) => {
                                if i < a.len() {
                                    a[i] = v.clone();
                                    Outcome::Written
                                } else {
                                    Outcome::NotFound
                                }
                            }
                        },
                        _ => Outcome::NotFound,
                    },
                }
            }
        }
    }

    /// Are all proper ancestors of `toks` either missing or objects? (The only
    /// registration shape whose outcome the documentation defines.)
    fn parents_ok(&self, toks: &[String]) -> bool {
        let mut cur = &self.root;
        if !cur.is_object() {
            return false;
        }
        for t in &toks[..toks.len().saturating_sub(1)] {
            match cur {
                Value::Object(m) => match m.get(t) {
                    Some(v) if v.is_object() => cur = v,
                    Some(_) => return false,
                    None => return true,
                },
                _ => return false,
            }
        }
        true
    }

    fn ensure_parents(&mut self, toks: &[String]) -> &mut Map<String, Value> {
        let mut cur = self.root.as_object_mut().expect("root object");
        for t in &toks[..toks.len() - 1] {
            let e = cur.entry(t.clone()).or_insert_with(|| json!({}));
            cur = e.as_object_mut().expect("parents_ok guaranteed objects");
        }
        cur
    }
}

fn err_class(code: ErrorCode) -> Outcome {
    match code {
        ErrorCode::MethodNotFound => Outcome::NotFound,
        ErrorCode::InvalidBody => Outcome::InvalidBody,
        other => Outcome::Value(format!("unexpected error code {other:?}")),
    }
}

// ------------------------------------------------------------------ fixture

type CallLog = Arc<Mutex<Vec<(u32, String)>>>;

struct Side {
    reg: Arc<Registry>,
    log: CallLog,
}

impl Side {
    fn new() -> Self {
        Self {
            reg: Arc::new(Registry::new()),
            log: Arc::new(Mutex::new(Vec::new())),
        }
    }
    fn reg_func(&self, path: &str, id: u32) -> Result<(), repe::RegistryError> {
        let log = self.log.clone();
        self.reg.register_function(path, move |params: Option<Value>| {
            log.lock().unwrap().push((id, params.map(|v| v.to_string()).unwrap_or_else(|| "<none>".into())));
            Ok(json!({"called": id}))
        })
    }
    fn take_log(&self) -> Vec<(u32, String)> {
        std::mem::take(&mut *self.log.lock().unwrap())
    }
}

/// Map an implementation result to an Outcome (shape decided by the model's
/// expectation so that function descriptions / write acknowledgements, whose
/// content is unspecified, compare equal).
fn observe_direct(res: Result<Value, repe::RegistryError>, log: &[(u32, String)], expect: &Outcome) -> Outcome {
    match res {
        Err(e) => err_class(e.code()),
        Ok(v) => match expect {
            Outcome::Called(..) => match log {
                [(id, body)] => Outcome::Called(*id, body.clone()),
                _ => Outcome::Value(format!("call log {log:?}")),
            },
            Outcome::Written => Outcome::Written,
            Outcome::FunctionInfo => Outcome::FunctionInfo,
            _ => Outcome::Value(v.to_string()),
        },
    }
}

fn request_msg(path: &str, body: Option<&Value>) -> Message {
    let b = Message::builder()
        .id(77)
        .query_str(path)
        .query_format(QueryFormat::JsonPointer);
    match body {
        Some(v) => b.body_json(v).unwrap().build(),
        None => b.build(),
    }
}

fn observe_routed(router: &Router, side: &Side, path: &str, body: Option<&Value>, expect: &Outcome, view: bool) -> (Outcome, Vec<(u32, String)>) {
    let o = observe_routed_inner(router, side, path, body, expect, view);
    (o.0, o.1)
}

fn observe_routed_inner(router: &Router, side: &Side, path: &str, body: Option<&Value>, expect: &Outcome, view: bool) -> (Outcome, Vec<(u32, String)>) {
    let Some(h) = router.get(path) else {
        return (Outcome::NotFound, side.take_log());
    };
    let req = request_msg(path, body);
    let resp = if view {
        let bytes = req.to_vec();
        let v = repe::MessageView::from_slice(&bytes).unwrap();
        h.handle_view(&v, &repe::CallContext::detached(path))
    } else {
        h.handle(&req)
    };
    let log = side.take_log();
    let resp = match resp {
        Ok(r) => r,
        Err(e) => return (err_class(e.to_error_code()), log),
    };
    if resp.header.ec != 0 {
        let o = match ErrorCode::try_from(resp.header.ec) {
            Ok(c) => err_class(c),
            Err(c) => Outcome::Value(format!("unknown ec {c}")),
        };
        return (o, log);
    }
    let o = match expect {
        Outcome::Called(..) => match &log[..] {
            [(id, b)] => Outcome::Called(*id, b.clone()),
            _ => Outcome::Value(format!("call log {log:?}")),
        },
        Outcome::Written => Outcome::Written,
        Outcome::FunctionInfo => Outcome::FunctionInfo,
        _ => match resp.json_body::<Value>() {
            Ok(v) => Outcome::Value(v.to_string()),
            Err(e) => Outcome::Value(format!("undecodable response: {e}")),
        },
    };
    (o, log)
}

fn norm_prefix(p: &str) -> String {
    // the documented mount normalisation: "" and "/" are the root; a leading
    // slash is added; trailing slashes dropped
    if p.is_empty() || p == "/" {
        return String::new();
    }
    let s = if p.starts_with('/') { p.to_string() } else { format!("/{p}") };
    s.trim_end_matches('/').to_string()
}

#[derive(Default)]
pub struct Stats {
    write_then_read: bool,
    escaped: bool,
    escaped_call: bool,
    calls: u32,
    unspecified: u32,
    malformed: u32,
    skipped_regs: u32,
}

pub fn run_hist(h: &Hist) -> Result<Stats, Fail> {
    let vals = values();
    let objs = objects();
    let direct = Side::new();
    let routed = Side::new();
    let prefix_raw = PREFIXES[h.prefix as usize % PREFIXES.len()];
    let prefix = norm_prefix(prefix_raw);
    let router = Router::new().with_registry(prefix_raw, routed.reg.clone());
    let mut m = RModel::new();
    let mut st = Stats::default();
    let mut next_fn = 1u32;
    let mut written: Vec<Vec<String>> = Vec::new();

    let toks_of = |v: &Vec<u8>| -> Vec<String> {
        v.iter().map(|i| TOKENS[*i as usize % TOKENS.len()].to_string()).collect()
    };

    for (step, op) in h.ops.iter().enumerate() {
        let at = |s: &str| format!("step {step} {op:?} (prefix {prefix_raw:?}): {s}");
        let mut resync = false;
        match op {
            Op::RegValue { toks, val, no_slash } => {
                let t = toks_of(toks);
                if t.is_empty() || t == [""] || !m.parents_ok(&t) {
                    st.skipped_regs += 1;
                    continue;
                }
                let mut path = ptr::build(&t);
                if *no_slash && !t[0].is_empty() && !t[0].starts_with('~') && !t[0].contains('/') {
                    path = path[1..].to_string();
                }
                let v = vals[*val as usize % vals.len()].clone();
                for side in [&direct, &routed] {
                    side.reg
                        .register_value(&path, v.clone())
                        .map_err(|e| Fail::new("register_value-error", at(&e.to_string())))?;
                }
                let (last, _) = t.split_last().unwrap();
                m.ensure_parents(&t).insert(last.clone(), v);
            }
            Op::RegFunc { toks, no_slash } => {
                let t = toks_of(toks);
                if t.is_empty() || t == [""] || !m.parents_ok(&t) {
                    st.skipped_regs += 1;
                    continue;
                }
                let mut path = ptr::build(&t);
                if *no_slash && !t[0].is_empty() && !t[0].starts_with('~') && !t[0].contains('/') {
                    path = path[1..].to_string();
                }
                let id = next_fn;
                next_fn += 1;
                for side in [&direct, &routed] {
                    side.reg_func(&path, id)
                        .map_err(|e| Fail::new("register_function-error", at(&e.to_string())))?;
                }
                m.ensure_parents(&t);
                m.funcs.insert(t, id);
            }
            Op::MergeAt { toks, obj } => {
                let t = toks_of(toks);
                if t == [""] {
                    continue;
                }
                let o = objs[*obj as usize % objs.len()].clone();
                let path = ptr::build(&t);
                let expect_ok = match resolve_mut(&mut m.root, &t) {
                    ResMut::Found(Value::Object(map)) => {
                        for (k, v) in &o {
                            map.insert(k.clone(), v.clone());
                        }
                        Some(true)
                    }
                    ResMut::Found(_) | ResMut::Missing => Some(false),
                    ResMut::Unspec => None,
                };
                for side in [&direct, &routed] {
                    let r = side.reg.merge_at(&path, o.clone());
                    match expect_ok {
                        Some(want) => ensure!(
                            r.is_ok() == want,
                            "merge_at-outcome",
                            "{}",
                            at(&format!("merge_at returned {r:?}, model expects ok={want}"))
                        ),
                        None => resync = true,
                    }
                }
            }
            Op::MergeRoot { obj } => {
                let o = objs[*obj as usize % objs.len()].clone();
                for side in [&direct, &routed] {
                    side.reg
                        .merge_root(o.clone())
                        .map_err(|e| Fail::new("merge_root-error", at(&e.to_string())))?;
                }
                let root = m.root.as_object_mut().unwrap();
                for (k, v) in o {
                    root.insert(k, v);
                }
            }
            Op::Read { ptr: p } | Op::Send { ptr: p, .. } | Op::ReadValue { ptr: p } => {
                let toks = p.tokens();
                let text = p.text();
                if let Some(t) = &toks
                    && t.as_slice() == [""]
                {
                    // "/" is documented as the root, so the single empty token cannot be
                    // addressed; not generated as a token list.
                    continue;
                }
                if p.escaped() {
                    st.escaped = true;
                }
                if toks.is_none() {
                    st.malformed += 1;
                }
                let body: Option<Value> = match op {
                    Op::Send { val, .. } => Some(vals[*val as usize % vals.len()].clone()),
                    _ => None,
                };
                let before = m.clone();
                let expect = if matches!(op, Op::ReadValue { .. }) {
                    // read_value reads the value tree only (callables are not values).
                    match &toks {
                        None => Outcome::NotFound,
                        Some(t) => match resolve(&m.root, t) {
                            Res::Found(v) => Outcome::Value(v.to_string()),
                            Res::Missing => Outcome::NotFound,
                            Res::Unspec => Outcome::Unspecified,
                        },
                    }
                } else {
                    m.request(toks.as_deref(), body.as_ref())
                };
                if body.is_none() {
                    ensure!(m == before, "model-self", "model mutated on read");
                    if let Some(t) = &toks
                        && written.iter().any(|w| w.starts_with(t) || t.starts_with(w))
                    {
                        st.write_then_read = true;
                    }
                }
                if let Outcome::Called(..) = expect {
                    st.calls += 1;
                    if p.escaped() {
                        st.escaped_call = true;
                    }
                }
                if expect == Outcome::Written
                    && let Some(t) = &toks
                {
                    written.push(t.clone());
                }
                // direct
                let got_direct = if matches!(op, Op::ReadValue { .. }) {
                    observe_direct(direct.reg.read_value(&text), &[], &expect)
                } else {
                    let r = direct.reg.dispatch(&text, body.clone());
                    let log = direct.take_log();
                    if !matches!(expect, Outcome::Called(..) | Outcome::Unspecified) {
                        ensure!(
                            log.is_empty(),
                            "function-invoked-wrongly",
                            "{}",
                            at(&format!("callable invoked {log:?} although the model expects {expect:?}"))
                        );
                    }
                    observe_direct(r, &log, &expect)
                };
                // routed through the mount (alternating owned / borrowed dispatch)
                let got_routed = if matches!(op, Op::ReadValue { .. }) {
                    observe_direct(routed.reg.read_value(&text), &[], &expect)
                } else if toks.is_none() && !text.starts_with('/') {
                    // A pointer without a leading slash cannot be expressed below a
                    // mount prefix; exercise it against the mounted registry directly.
                    let r = routed.reg.dispatch(&text, body.clone());
                    observe_direct(r, &routed.take_log(), &expect)
                } else {
                    let path = if text.is_empty() && prefix.is_empty() {
                        String::new()
                    } else {
                        format!("{prefix}{text}")
                    };
                    let (o, log) = observe_routed(&router, &routed, &path, body.as_ref(), &expect, step % 2 == 0);
                    if !matches!(expect, Outcome::Called(..) | Outcome::Unspecified) {
                        ensure!(
                            log.is_empty(),
                            "function-invoked-wrongly",
                            "{}",
                            at(&format!("(mounted) callable invoked {log:?} although the model expects {expect:?}"))
                        );
                    }
                    if let Outcome::Called(id, b) = &expect {
                        ensure!(
                            log == vec![(*id, b.clone())],
                            "function-invocation",
                            "{}",
                            at(&format!("(mounted) invocation log {log:?}, expected exactly one call of {id} with {b}"))
                        );
                    }
                    o
                };
                if expect == Outcome::Unspecified {
                    st.unspecified += 1;
                    resync = true;
                } else {
                    ensure!(
                        got_direct == expect,
                        "dispatch-outcome",
                        "{}",
                        at(&format!("direct dispatch of {text:?} gave {got_direct:?}, model expects {expect:?}"))
                    );
                    ensure!(
                        got_routed == expect,
                        "mounted-outcome",
                        "{}",
                        at(&format!("mounted dispatch of {text:?} gave {got_routed:?}, model expects {expect:?}"))
                    );
                }
            }
        }
        // Full-tree comparison after every op (both registries).
        let td = direct
            .reg
            .read_value("")
            .map_err(|e| Fail::new("root-read", at(&e.to_string())))?;
        let tr = routed
            .reg
            .read_value("")
            .map_err(|e| Fail::new("root-read", at(&e.to_string())))?;
        if resync {
            ensure!(td == tr, "direct-vs-mounted-tree", "{}", at("trees differ after an unspecified op"));
            m.root = td;
        } else {
            ensure!(
                td == m.root,
                "tree-diverges",
                "{}",
                at(&format!("registry tree {td} != model {}", m.root))
            );
            ensure!(
                tr == m.root,
                "mounted-tree-diverges",
                "{}",
                at(&format!("mounted registry tree {tr} != model {}", m.root))
            );
        }
    }
    Ok(st)
}

fn check_hist(h: &Hist) -> CheckResult {
    let st = run_hist(h)?;
    let mut info = CaseInfo::new(st.write_then_read || st.escaped || st.escaped_call);
    if st.write_then_read {
        info = info.class("write-then-related-read");
    }
    if st.escaped {
        info = info.class("escaped-pointer");
    }
    if st.escaped_call {
        info = info.class("call-at-escaped-pointer");
    }
    if st.calls > 0 {
        info = info.class("call");
    }
    if st.unspecified > 0 {
        info = info.class("touched-unspecified");
    }
    if st.malformed > 0 {
        info = info.class("malformed-pointer");
    }
    Ok(info)
}

fn toks_strategy() -> BoxedStrategy<Vec<u8>> {
    prop_oneof![
        3 => prop::collection::vec(0u8..2, 0..3),
        4 => prop::collection::vec(0u8..TOKENS.len() as u8, 0..4),
        1 => prop::collection::vec(0u8..TOKENS.len() as u8, 4..7),
    ]
    .boxed()
}

fn ptr_strategy() -> BoxedStrategy<Ptr> {
    prop_oneof![
        12 => toks_strategy().prop_map(Ptr::Toks),
        1 => (0u8..MALFORMED.len() as u8).prop_map(Ptr::Malformed),
        1 => Just(Ptr::SlashRoot),
    ]
    .boxed()
}

fn op_strategy() -> BoxedStrategy<Op> {
    prop_oneof![
        3 => (toks_strategy(), 0u8..12, any::<bool>()).prop_map(|(toks, val, no_slash)| Op::RegValue { toks, val, no_slash }),
        2 => (toks_strategy(), any::<bool>()).prop_map(|(toks, no_slash)| Op::RegFunc { toks, no_slash }),
        1 => (toks_strategy(), 0u8..4).prop_map(|(toks, obj)| Op::MergeAt { toks, obj }),
        1 => (0u8..4).prop_map(|obj| Op::MergeRoot { obj }),
        6 => ptr_strategy().prop_map(|ptr| Op::Read { ptr }),
        6 => (ptr_strategy(), 0u8..12).prop_map(|(ptr, val)| Op::Send { ptr, val }),
        1 => ptr_strategy().prop_map(|ptr| Op::ReadValue { ptr }),
    ]
    .boxed()
}

fn hist_strategy() -> BoxedStrategy<Hist> {
    (0u8..PREFIXES.len() as u8, prop::collection::vec(op_strategy(), 0..100))
        .prop_map(|(prefix, ops)| Hist { prefix, ops })
        .boxed()
}

/// Small scope: 3 pointers x 3 values, all sequences up to `max_len`.
fn run_exhaustive(ctx: &Ctx, rep: &Report, max_len: usize) {
    let sub = "exhaustive";
    if !ctx.want(sub) {
        return;
    }
    // pointers: /a, /a/b, /x~1y ; values: 7, {"b":..}, [1,2,3]
    let ptrs: Vec<Vec<u8>> = vec![vec![0], vec![0, 1], vec![7]];
    let vals = [2u8, 6, 4];
    let mut alpha: Vec<Op> = Vec::new();
    for p in &ptrs {
        alpha.push(Op::Read { ptr: Ptr::Toks(p.clone()) });
        for v in vals {
            alpha.push(Op::Send { ptr: Ptr::Toks(p.clone()), val: v });
        }
        alpha.push(Op::RegValue { toks: p.clone(), val: vals[0], no_slash: false });
    }
    alpha.push(Op::RegFunc { toks: vec![7], no_slash: false });
    alpha.push(Op::Send { ptr: Ptr::Toks(vec![]), val: 5 });
    let n = alpha.len() as u64;
    let evals = AtomicU64::new(0);
    let nontriv = AtomicU64::new(0);
    for len in 1..=max_len {
        let total = n.pow(len as u32);
        let threads = ctx.threads.max(1) as u64;
        std::thread::scope(|scope| {
            for w in 0..threads {
                let alpha = &alpha;
                let (evals, nontriv) = (&evals, &nontriv);
                scope.spawn(move || {
                    let (mut e, mut nt) = (0u64, 0u64);
                    let mut i = w;
                    while i < total && !failure_seen() {
                        let mut idx = i;
                        let mut ops = Vec::with_capacity(len);
                        for _ in 0..len {
                            ops.push(alpha[(idx % n) as usize].clone());
                            idx /= n;
                        }
                        let h = Hist { prefix: (i % 3) as u8 + 1, ops };
                        match std::panic::catch_unwind(std::panic::AssertUnwindSafe(|| run_hist(&h))) {
                            Ok(Ok(st)) => {
                                e += 1;
                                if st.write_then_read || st.escaped || st.escaped_call {
                                    nt += 1;
                                    if nt == 1 && w == 0 {
                                        rep.add_sample(sub, serde_json::to_value(&h).unwrap());
                                    }
                                }
                            }
                            Ok(Err(f)) => {
                                note_failure();
                                rep.fail(sub, &serde_json::to_value(&shrink(&h, &f.sig)).unwrap(), &f, ctx.seed);
                                break;
                            }
                            Err(_) => {
                                note_failure();
                                rep.fail(
                                    sub,
                                    &serde_json::to_value(&shrink(&h, "panic")).unwrap(),
                                    &Fail::new("panic", "panicked while running the history"),
                                    ctx.seed,
                                );
                                break;
                            }
                        }
                        i += threads;
                    }
                    evals.fetch_add(e, Ordering::Relaxed);
                    nontriv.fetch_add(nt, Ordering::Relaxed);
                });
            }
        });
        if rep.violations() > 0 {
            break;
        }
    }
    rep.add_evaluations(sub, evals.load(Ordering::Relaxed));
    rep.add_nontrivial_count(nontriv.load(Ordering::Relaxed));
    rep.set_exhaustive(sub, true);
    rep.set_extra(
        "exhaustive_scope",
        json!({"alphabet_size": alpha.len(), "max_len": max_len, "pointers": ["/a", "/a/b", "/x~1y", ""], "values": 3}),
    );
}

fn shrink(h: &Hist, sig: &str) -> Hist {
    let fails = |c: &Hist| match std::panic::catch_unwind(std::panic::AssertUnwindSafe(|| run_hist(c))) {
        Ok(Err(f)) => f.sig == sig,
        Err(_) => sig == "panic",
        _ => false,
    };
    let mut cur = h.clone();
    loop {
        let mut improved = false;
        let mut i = 0;
        while i < cur.ops.len() {
            let mut c = cur.clone();
            c.ops.remove(i);
            if fails(&c) {
                cur = c;
                improved = true;
            } else {
                i += 1;
            }
        }
        if !improved {
            return cur;
        }
    }
}

// -------------------------------------------- pointer parsing vs O-ptr

#[derive(Debug, Clone, Serialize, Deserialize, Hash, PartialEq, Eq)]
pub struct PtrCase {
    pub toks: Vec<u8>,
    pub doc: u8,
}

fn check_ptr(c: &PtrCase) -> CheckResult {
    let toks: Vec<String> = c.toks.iter().map(|i| TOKENS[*i as usize % TOKENS.len()].to_string()).collect();
    let text = ptr::build(&toks);
    // tokens round-trip through escaping (independent tokenizer as well as the crate's)
    ensure!(
        ptr::tokenize(&text).as_deref() == Some(&toks[..]),
        "oracle-self",
        "O-ptr round trip failed for {text:?}"
    );
    let got = repe::parse_json_pointer(&text);
    ensure!(
        got == toks,
        "parse_json_pointer",
        "parse_json_pointer({text:?}) = {got:?}, expected {toks:?}"
    );
    // evaluation against a document, compared with the model's resolver
    let vals = values();
    let doc = &vals[c.doc as usize % vals.len()];
    let want = match resolve(doc, &toks) {
        Res::Found(v) => Some(Some(v)),
        Res::Missing => Some(None),
        Res::Unspec => None,
    };
    if let Some(want) = want {
        let got = repe::eval_json_pointer(doc, &text);
        ensure!(
            got == want,
            "eval_json_pointer",
            "eval_json_pointer({doc}, {text:?}) = {got:?}, expected {want:?}"
        );
    }
    Ok(CaseInfo::new(text.contains('~') || toks.iter().any(|t| t.is_empty())).class(if text.contains('~') {
        "escaped"
    } else {
        "plain"
    }))
}

// -------------------------------------------------------------- concurrency

#[derive(Debug, Clone, Serialize, Deserialize, Hash, PartialEq, Eq)]
pub enum COp {
    Read(Vec<u8>),
    Send(Vec<u8>, u8),
}

#[derive(Debug, Clone, Serialize, Deserialize, Hash, PartialEq, Eq)]
pub struct Conc {
    pub threads: Vec<Vec<COp>>,
}

impl SeqModel for RModel {
    type Op = COp;
    type Res = Outcome;
    fn apply(&mut self, op: &COp) -> Outcome {
        let vals = values();
        match op {
            COp::Read(t) => {
                let toks: Vec<String> = t.iter().map(|i| TOKENS[*i as usize % TOKENS.len()].to_string()).collect();
                self.request(Some(&toks), None)
            }
            COp::Send(t, v) => {
                let toks: Vec<String> = t.iter().map(|i| TOKENS[*i as usize % TOKENS.len()].to_string()).collect();
                match self.request(Some(&toks), Some(&vals[*v as usize % vals.len()])) {
                    // which callable ran and with what body is checked via the result value
                    Outcome::Called(id, _) => Outcome::Value(json!({"called": id}).to_string()),
                    o => o,
                }
            }
        }
    }
}

fn conc_strategy() -> BoxedStrategy<Conc> {
    // pointers below a small pre-registered tree: /a, /a/b, /x~1y, /arr/0, /f (callable)
    let p = prop_oneof![
        Just(vec![0u8]),
        Just(vec![0u8, 1]),
        Just(vec![7u8]),
        Just(vec![1u8, 3]),
        Just(vec![8u8]),
        Just(vec![]),
    ];
    let op = prop_oneof![
        1 => p.clone().prop_map(COp::Read),
        1 => (p, prop_oneof![Just(2u8), Just(5u8), Just(6u8), Just(3u8)]).prop_map(|(t, v)| COp::Send(t, v)),
    ];
    prop::collection::vec(prop::collection::vec(op, 1..=4), 2..=4)
        .prop_map(|threads| Conc { threads })
        .boxed()
}

fn check_conc(c: &Conc) -> CheckResult {
    let vals = values();
    let side = Side::new();
    let mut init = RModel::new();
    // pre-registered tree
    let setup: Vec<(Vec<u8>, Value)> = vec![
        (vec![0], json!({"b": 1})),
        (vec![7], json!(5)),
        (vec![1], json!([10, 20])),
    ];
    for (t, v) in &setup {
        let toks: Vec<String> = t.iter().map(|i| TOKENS[*i as usize].to_string()).collect();
        side.reg.register_value(&ptr::build(&toks), v.clone()).unwrap();
        init.root.as_object_mut().unwrap().insert(toks[0].clone(), v.clone());
    }
    let ftoks = vec![TOKENS[8].to_string()];
    side.reg_func(&ptr::build(&ftoks), 1).unwrap();
    init.funcs.insert(ftoks, 1);

    let clock = Arc::new(AtomicU64::new(0));
    let barrier = Arc::new(std::sync::Barrier::new(c.threads.len()));
    let mut handles = Vec::new();
    for (t, ops) in c.threads.iter().enumerate() {
        let reg = side.reg.clone();
        let ops = ops.clone();
        let clock = clock.clone();
        let barrier = barrier.clone();
        let vals = vals.clone();
        handles.push(std::thread::spawn(move || {
            barrier.wait();
            let mut out = Vec::new();
            for op in ops {
                let (toks, body) = match &op {
                    COp::Read(t) => (t.clone(), None),
                    COp::Send(t, v) => (t.clone(), Some(vals[*v as usize % vals.len()].clone())),
                };
                let toks: Vec<String> = toks.iter().map(|i| TOKENS[*i as usize % TOKENS.len()].to_string()).collect();
                let text = ptr::build(&toks);
                let invoked = clock.fetch_add(1, Ordering::SeqCst);
                let r = reg.dispatch(&text, body.clone());
                let responded = clock.fetch_add(1, Ordering::SeqCst);
                let result = match r {
                    Err(e) => err_class(e.code()),
                    Ok(v) => {
                        // classify by shape: write acks carry {"status":"ok"}, function info {"type":"function"}
                        if body.is_some() && v.get("status") == Some(&json!("ok")) {
                            Outcome::Written
                        } else if body.is_none() && v.get("type") == Some(&json!("function")) {
                            Outcome::FunctionInfo
                        } else {
                            Outcome::Value(v.to_string())
                        }
                    }
                };
                out.push(Event { thread: t, op, result, invoked, responded });
            }
            out
        }));
    }
    let mut events = Vec::new();
    for h in handles {
        events.extend(h.join().map_err(|_| Fail::new("panic", "worker thread panicked"))?);
    }
    let overlap = events.iter().any(|a| {
        events
            .iter()
            .any(|b| a.thread != b.thread && a.invoked < b.responded && b.invoked < a.responded)
    });
    // final observation of the whole tree, after everything
    let invoked = clock.fetch_add(1, Ordering::SeqCst);
    let tree = side.reg.read_value("").map_err(|e| Fail::new("root-read", e.to_string()))?;
    let responded = clock.fetch_add(1, Ordering::SeqCst);
    events.push(Event {
        thread: usize::MAX,
        op: COp::Read(vec![]),
        result: Outcome::Value(tree.to_string()),
        invoked,
        responded,
    });
    // Ambiguity guard: a written value that itself looks like a write ack cannot occur
    // (generated values contain no "status" key).
    match linearize(&init, &events) {
        Some(_) => Ok(CaseInfo::new(overlap).class(if overlap { "overlapping" } else { "serial" })),
        None => Err(Fail::new(
            "not-linearizable",
            format!("no sequential order explains the observed results and final tree: {events:?}"),
        )),
    }
}

pub fn run(ctx: &Ctx, rep: &Report) {
    run_exhaustive(ctx, rep, ctx.tier.pick(4, 5));
    run_prop(ctx, rep, "random", ctx.tier.pick(20_000, 2_000_000), &|| hist_strategy(), &check_hist);
    run_prop(
        ctx,
        rep,
        "pointers",
        ctx.tier.pick(20_000, 1_000_000),
        &|| {
            (prop::collection::vec(0u8..TOKENS.len() as u8, 0..8), 0u8..12)
                .prop_map(|(toks, doc)| PtrCase { toks, doc })
                .boxed()
        },
        &check_ptr,
    );
    run_prop(ctx, rep, "concurrent", ctx.tier.pick(1_500, 100_000), &|| conc_strategy(), &check_conc);
}

pub fn replay(sub: &str, case: &Value) -> Result<(), Fail> {
    match sub {
        "exhaustive" | "random" => replay_case::<Hist>(case, &check_hist),
        "pointers" => replay_case::<PtrCase>(case, &check_ptr),
        "concurrent" => replay_case::<Conc>(case, &check_conc),
        _ => Err(Fail::new("replay-unknown-sub", sub.to_string())),
    }
}

pub fn fuzz_targets() -> Vec<crate::fuzz::Target> {
    use crate::fuzz::{U, from_bytes};
    fn toks(u: &mut U) -> Vec<u8> {
        match u.weighted(&[3, 4, 1]) {
            0 => u.vec(2, |u| u.below(2) as u8),
            1 => u.vec(3, |u| u.below(TOKENS.len() as u64) as u8),
            _ => u.vec(6, |u| u.below(TOKENS.len() as u64) as u8),
        }
    }
    fn ptr(u: &mut U) -> Ptr {
        match u.weighted(&[12, 1, 1]) {
            0 => Ptr::Toks(toks(u)),
            1 => Ptr::Malformed(u.below(MALFORMED.len() as u64) as u8),
            _ => Ptr::SlashRoot,
        }
    }
    fn op(u: &mut U) -> Op {
        match u.weighted(&[3, 2, 1, 1, 6, 6, 1]) {
            0 => Op::RegValue {
                toks: toks(u),
                val: u.below(12) as u8,
                no_slash: u.bool(),
            },
            1 => Op::RegFunc {
                toks: toks(u),
                no_slash: u.bool(),
            },
            2 => Op::MergeAt {
                toks: toks(u),
                obj: u.below(4) as u8,
            },
            3 => Op::MergeRoot { obj: u.below(4) as u8 },
            4 => Op::Read { ptr: ptr(u) },
            5 => Op::Send {
                ptr: ptr(u),
                val: u.below(12) as u8,
            },
            _ => Op::ReadValue { ptr: ptr(u) },
        }
    }
    vec![from_bytes(
        "c14_registry",
        "C14",
        "random",
        |data: &[u8]| {
            let mut u = U::new(data);
            Some(Hist {
                prefix: u.below(PREFIXES.len() as u64) as u8,
                ops: u.vec(100, op),
            })
        },
        check_hist,
    )]
}
