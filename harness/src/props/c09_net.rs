//! C09 puller-level sub-checks over transports (filled in with the network peers).
use crate::engine::*;
use serde_json::Value;

pub fn run(_ctx: &Ctx, _rep: &Report) {}
pub fn replay(sub: &str, _case: &Value) -> Result<(), Fail> {
    Err(Fail::new("replay-unknown-sub", sub.to_string()))
}
