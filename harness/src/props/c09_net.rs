//! C09 puller-level sub-checks: the blocking, async and WebSocket pullers against
//! the library's producers on the blocking server and the WebSocket server.

use super::c09::{self, Kind};
use crate::engine::*;
use crate::ensure;
use crate::util::block_on_mt as block_on;
use proptest::prelude::*;
use repe::value_stream::*;
use repe::{AsyncClient, AsyncServer, Client, Complex, Server, WebSocketClient, WebSocketServer};
use serde::{Deserialize, Serialize};
use serde_json::Value;

#[derive(Debug, Clone, Copy, Serialize, Deserialize, Hash, PartialEq, Eq)]
pub enum Transport {
    /// blocking Client -> Server
    Sync,
    /// AsyncClient -> AsyncServer
    AsyncTcp,
    /// WebSocketClient -> WebSocket server
    Ws,
}

#[derive(Debug, Clone, Serialize, Deserialize, Hash, PartialEq, Eq)]
pub struct Pull {
    pub base: c09::Case,
    pub transport: Transport,
}

enum Got {
    Bytes(Vec<u8>),
    Doc(c09::Doc),
    F64(Vec<u64>),
    Cplx(Vec<(u32, u32)>),
}

/// Stops the per-case server when the case ends (no listener, thread or task outlives it).
enum Stop {
    Tcp(std::net::TcpListener),
    Task(tokio::task::JoinHandle<()>),
    Ws(Option<tokio::sync::oneshot::Sender<()>>),
}

impl Drop for Stop {
    fn drop(&mut self) {
        match self {
            // shutdown(2) on the listening socket makes the blocked accept return an error, which ends `serve`
            Stop::Tcp(l) => unsafe {
                use std::os::fd::AsRawFd;
                libc::shutdown(l.as_raw_fd(), libc::SHUT_RDWR);
            },
            Stop::Task(h) => h.abort(),
            Stop::Ws(tx) => {
                if let Some(tx) = tx.take() {
                    let _ = tx.send(());
                }
            }
        }
    }
}

fn serve(base: &c09::Case, transport: Transport) -> Result<(String, Stop), Fail> {
    let router = c09::router_for(base);
    let hl = |e: std::io::Error| Fail::new("harness-listen", e.to_string());
    match transport {
        Transport::Ws => block_on(async {
            let l = WebSocketServer::listen(crate::util::lo0().as_str()).await.map_err(hl)?;
            let addr = l.local_addr().unwrap();
            let (tx, rx) = tokio::sync::oneshot::channel::<()>();
            tokio::spawn(async move {
                let _ = WebSocketServer::new(router)
                    .on_error(|_| {})
                    .serve_listener_with_shutdown(l, "/repe", async move {
                        let _ = rx.await;
                    })
                    .await;
            });
            Ok((format!("ws://{addr}/repe"), Stop::Ws(Some(tx))))
        }),
        Transport::AsyncTcp => block_on(async {
            let l = AsyncServer::listen(crate::util::lo0().as_str()).await.map_err(hl)?;
            let addr = l.local_addr().unwrap();
            let h = tokio::spawn(async move {
                let _ = AsyncServer::new(router).serve(l).await;
            });
            Ok((addr.to_string(), Stop::Task(h)))
        }),
        Transport::Sync => {
            let server = Server::new(router);
            let l = server.listen(crate::util::lo0().as_str()).map_err(hl)?;
            let keep = l.try_clone().map_err(hl)?;
            let addr = l.local_addr().unwrap();
            std::thread::spawn(move || {
                let _ = server.serve(l);
            });
            Ok((addr.to_string(), Stop::Tcp(keep)))
        }
    }
}

pub fn check(p: &Pull) -> CheckResult {
    let b = &p.base;
    let failing = b.fail_after.is_some() && matches!(b.kind, Kind::Reader { .. } | Kind::Writer { .. });
    let (addr, _stop) = serve(b, p.transport)?;
    let res: Result<Got, String> = match p.transport {
        Transport::Sync => (|| {
            let cl = Client::connect(&addr).map_err(|e| e.to_string())?;
            match b.kind {
                Kind::Value => pull_value::<c09::Doc>(&cl, "res").map(Got::Doc),
                Kind::Typed => pull_typed_slice::<f64>(&cl, "res").map(|v| Got::F64(v.iter().map(|x| x.to_bits()).collect())),
                Kind::Complex => pull_complex_slice::<f32>(&cl, "res").map(|v| Got::Cplx(v.iter().map(|z| (z.re.to_bits(), z.im.to_bits())).collect())),
                _ => pull_to_vec(&cl, "res").map(Got::Bytes),
            }
            .map_err(|e| e.to_string())
        })(),
        Transport::AsyncTcp => block_on(async {
            let cl = AsyncClient::connect(&addr).await.map_err(|e| e.to_string())?;
            match b.kind {
                Kind::Value => pull_value_async::<c09::Doc, _>(&cl, "res").await.map(Got::Doc),
                Kind::Typed => pull_typed_slice_async::<f64, _>(&cl, "res").await.map(|v| Got::F64(v.iter().map(|x| x.to_bits()).collect())),
                Kind::Complex => pull_complex_slice_async::<f32, _>(&cl, "res").await.map(|v| Got::Cplx(v.iter().map(|z| (z.re.to_bits(), z.im.to_bits())).collect())),
                _ => pull_to_vec_async(&cl, "res").await.map(Got::Bytes),
            }
            .map_err(|e| e.to_string())
        }),
        Transport::Ws => block_on(async {
            let cl = WebSocketClient::connect(&addr).await.map_err(|e| e.to_string())?;
            match b.kind {
                Kind::Value => pull_value_async::<c09::Doc, _>(&cl, "res").await.map(Got::Doc),
                Kind::Typed => pull_typed_slice_async::<f64, _>(&cl, "res").await.map(|v| Got::F64(v.iter().map(|x| x.to_bits()).collect())),
                Kind::Complex => pull_complex_slice_async::<f32, _>(&cl, "res").await.map(|v| Got::Cplx(v.iter().map(|z| (z.re.to_bits(), z.im.to_bits())).collect())),
                _ => pull_to_vec_async(&cl, "res").await.map(Got::Bytes),
            }
            .map_err(|e| e.to_string())
        }),
    };
    if failing {
        ensure!(
            res.is_err(),
            "pull-masks-producer-failure",
            "{:?} {:?}: the producer failed after {:?} of {} bytes but the pull returned a value",
            p.transport,
            b.kind,
            b.fail_after,
            b.len
        );
        return Ok(CaseInfo::new(true).class(format!("{:?}", p.transport)).class("producer-failure"));
    }
    let got = res.map_err(|e| Fail::new("pull-failed", format!("{:?} {:?} len {} chunk {} zstd {}: {e}", p.transport, b.kind, b.len, b.chunk, b.zstd)))?;
    match got {
        Got::Bytes(v) => {
            let l = c09::logical(b);
            ensure!(v == l, "pulled-bytes-differ", "{}", crate::util::diff_msg("pulled bytes vs producer bytes", &v, &l));
        }
        Got::Doc(d) => ensure!(d == c09::doc(b.len, b.seed), "pulled-value-differs", "pulled value differs from the producer's"),
        Got::F64(v) => {
            let want: Vec<u64> = (0..b.len).map(|i| b.seed.wrapping_mul(i as u64 + 1)).collect();
            ensure!(v == want, "pulled-elements-differ", "pulled f64 elements differ bit-for-bit ({} vs {})", v.len(), want.len());
        }
        Got::Cplx(v) => {
            let want: Vec<(u32, u32)> = (0..b.len)
                .map(|i| {
                    let z = Complex {
                        re: f32::from_bits((b.seed as u32).wrapping_mul(i as u32 + 1)),
                        im: i as f32,
                    };
                    (z.re.to_bits(), z.im.to_bits())
                })
                .collect();
            ensure!(v == want, "pulled-elements-differ", "pulled complex elements differ");
        }
    }
    let l = c09::logical(b).len();
    Ok(CaseInfo::new(l > b.chunk || l == 0 || (l > 0 && l % b.chunk == 0) || b.depth == 0)
        .class(format!("{:?}", p.transport))
        .class(match b.kind {
            Kind::Value => "value",
            Kind::Typed => "typed",
            Kind::Complex => "complex",
            Kind::Reader { .. } => "reader",
            Kind::Writer { .. } => "writer",
        }))
}

fn pull() -> BoxedStrategy<Pull> {
    (c09::case(), prop::sample::select(vec![Transport::Sync, Transport::AsyncTcp, Transport::Ws]))
        .prop_map(|(mut base, transport)| {
            base.cancel_after = None;
            // keep the number of round trips per case moderate
            if base.chunk < 7 && base.len > 400 {
                base.len = 400;
            }
            Pull { base, transport }
        })
        .boxed()
}

pub fn run(ctx: &Ctx, rep: &Report) {
    run_prop(ctx, rep, "pullers", ctx.tier.pick(450, 30_000), &|| pull(), &check);
}

pub fn replay(sub: &str, case: &Value) -> Result<(), Fail> {
    match sub {
        "pullers" => replay_case::<Pull>(case, &check),
        _ => Err(Fail::new("replay-unknown-sub", sub.to_string())),
    }
}
