//! C08 — bulk numeric bodies are bit-identical to the generic encoding and decode exactly.

use crate::engine::*;
use crate::ensure;
use crate::gens::fill;
use crate::util::diff_msg;
use half::{bf16, f16};
use proptest::prelude::*;
use repe::message::Message;
use repe::{BeveTypedSlice, CallContext, Complex, Header, MessageView, QueryFormat, Router};
use serde::de::DeserializeOwned;
use serde::{Deserialize, Serialize};
use serde_json::Value;
use std::sync::{Arc, Mutex};

pub const RULE: &str = "element type T in {u8..u64, i8..i64, u128, i128, f32, f64, f16, bf16} and Complex<f32|f64>, elements built from raw generated bits (all NaN payloads, +-inf, +-0, subnormals, integer extremes), lengths from {0,1,2,7,8,9,255,256,4095,4096} U uniform 0..4096 U {2^16,2^20}, query lengths 0..64, receive-buffer misalignment 0..7; oracles: bulk bytes == serde bytes (len>0), each decoder reads the other encoder's output bit-for-bit (every len incl. 0), streaming writers == buffered builders, aligned form through a borrowing route's handle_view at every (query length, misalignment) yields the same bits, a slice pointing into the receive buffer is aligned and an aligned payload is borrowed, wrong element type/format rejected; (net-e2e) bulk, aligned and generic clients (sync and async) against bulk, borrowing and generic routes on Server and AsyncServer over loopback, for every query-length residue: echoed elements bit-identical; the aligned form sent to a non-borrowing route fails or is faithful; non-trivial = len>0 with a non-finite/extreme element, or len=0, or (query mod 8, misalignment) != (0,0); distinct = case hash";

#[derive(Debug, Clone, Copy, Serialize, Deserialize, Hash, PartialEq, Eq)]
pub enum Ty {
    U8,
    U16,
    U32,
    U64,
    I8,
    I16,
    I32,
    I64,
    U128,
    I128,
    F32,
    F64,
    F16,
    BF16,
    C32,
    C64,
}

const TYS: [Ty; 16] = [
    Ty::U8,
    Ty::U16,
    Ty::U32,
    Ty::U64,
    Ty::I8,
    Ty::I16,
    Ty::I32,
    Ty::I64,
    Ty::U128,
    Ty::I128,
    Ty::F32,
    Ty::F64,
    Ty::F16,
    Ty::BF16,
    Ty::C32,
    Ty::C64,
];

#[derive(Debug, Clone, Serialize, Deserialize, Hash, PartialEq, Eq)]
pub struct Case {
    pub ty: Ty,
    pub len: usize,
    pub seed: u64,
    pub qlen: usize,
    pub misalign: usize,
    pub garbage: [u64; 3],
    pub into_wire: bool,
}

/// Element construction from raw bits, and bit extraction for exact comparison.
pub trait Elem: BeveTypedSlice + Copy + Send + Sync + 'static {
    const NAME: &'static str;
    const SERDE: bool;
    fn from_raw(bits: u128) -> Self;
    fn raw(&self) -> u128;
    fn special(i: u64) -> u128;
}

macro_rules! elem_int {
    ($t:ty, $name:expr, $serde:expr) => {
        impl Elem for $t {
            const NAME: &'static str = $name;
            const SERDE: bool = $serde;
            fn from_raw(bits: u128) -> Self {
                bits as $t
            }
            fn raw(&self) -> u128 {
                (*self as u128) & (u128::MAX >> (128 - 8 * std::mem::size_of::<$t>()))
            }
            fn special(i: u64) -> u128 {
                match i % 6 {
                    0 => 0,
                    1 => <$t>::MAX as u128,
                    2 => <$t>::MIN as u128,
                    3 => 1,
                    4 => (<$t>::MAX / 2) as u128,
                    _ => u128::MAX,
                }
            }
        }
    };
}
elem_int!(u8, "u8", true);
elem_int!(u16, "u16", true);
elem_int!(u32, "u32", true);
elem_int!(u64, "u64", true);
elem_int!(i8, "i8", true);
elem_int!(i16, "i16", true);
elem_int!(i32, "i32", true);
elem_int!(i64, "i64", true);
elem_int!(u128, "u128", false);
elem_int!(i128, "i128", false);

impl Elem for f32 {
    const NAME: &'static str = "f32";
    const SERDE: bool = true;
    fn from_raw(bits: u128) -> Self {
        f32::from_bits(bits as u32)
    }
    fn raw(&self) -> u128 {
        self.to_bits() as u128
    }
    fn special(i: u64) -> u128 {
        [
            0x7fc0_0000u32,
            0x7fc0_0001,
            0xffc1_2345,
            0x7f80_0001, // signalling NaN
            0x7f80_0000,
            0xff80_0000,
            0x8000_0000,
            0x0000_0001,
            0x007f_ffff,
            0x7f7f_ffff,
        ][(i % 10) as usize] as u128
    }
}
impl Elem for f64 {
    const NAME: &'static str = "f64";
    const SERDE: bool = true;
    fn from_raw(bits: u128) -> Self {
        f64::from_bits(bits as u64)
    }
    fn raw(&self) -> u128 {
        self.to_bits() as u128
    }
    fn special(i: u64) -> u128 {
        [
            0x7ff8_0000_0000_0000u64,
            0x7ff8_0000_0000_0001,
            0xfff8_dead_beef_0001,
            0x7ff0_0000_0000_0001,
            0x7ff0_0000_0000_0000,
            0xfff0_0000_0000_0000,
            0x8000_0000_0000_0000,
            0x0000_0000_0000_0001,
            0x000f_ffff_ffff_ffff,
            0x7fef_ffff_ffff_ffff,
        ][(i % 10) as usize] as u128
    }
}
impl Elem for f16 {
    const NAME: &'static str = "f16";
    const SERDE: bool = false;
    fn from_raw(bits: u128) -> Self {
        f16::from_bits(bits as u16)
    }
    fn raw(&self) -> u128 {
        self.to_bits() as u128
    }
    fn special(i: u64) -> u128 {
        [0x7e00u16, 0x7e01, 0xfe55, 0x7c00, 0xfc00, 0x8000, 0x0001, 0x7bff][(i % 8) as usize] as u128
    }
}
impl Elem for bf16 {
    const NAME: &'static str = "bf16";
    const SERDE: bool = false;
    fn from_raw(bits: u128) -> Self {
        bf16::from_bits(bits as u16)
    }
    fn raw(&self) -> u128 {
        self.to_bits() as u128
    }
    fn special(i: u64) -> u128 {
        [0x7fc0u16, 0x7fc1, 0xffd5, 0x7f80, 0xff80, 0x8000, 0x0001, 0x7f7f][(i % 8) as usize] as u128
    }
}

fn elems<T: Elem>(len: usize, seed: u64) -> (Vec<T>, bool) {
    let bytes = fill(len * 16, seed);
    let mut extreme = false;
    let v = (0..len)
        .map(|i| {
            let mut b = [0u8; 16];
            b.copy_from_slice(&bytes[i * 16..i * 16 + 16]);
            let r = u128::from_le_bytes(b);
            // every third element is a special pattern
            if (r >> 120) % 3 == 0 {
                extreme = true;
                T::from_raw(T::special(r as u64))
            } else {
                T::from_raw(r)
            }
        })
        .collect();
    (v, extreme)
}

fn bits<T: Elem>(v: &[T]) -> Vec<u128> {
    v.iter().map(|x| x.raw()).collect()
}

fn header_with(id: u64, garbage: [u64; 3]) -> Header {
    let mut h = Header::new();
    h.id = id;
    h.query_format = QueryFormat::JsonPointer as u16;
    h.length = garbage[0];
    h.query_length = garbage[1];
    h.body_length = garbage[2];
    // a reused header may already name another body format: the bulk writers frame a
    // BEVE body, whatever the caller's header said before
    h.body_format = [0u16, 1, 2, 3, 4, 0xFFFF][(garbage[0] ^ garbage[1] ^ garbage[2]) as usize % 6];
    h
}

/// 16-aligned backing buffer; the frame is placed at offset `m`.
fn place(frame: &[u8], m: usize) -> (Vec<u128>, usize) {
    let words = (frame.len() + m) / 16 + 2;
    let mut backing = vec![0u128; words];
    let base = backing.as_mut_ptr() as *mut u8;
    // SAFETY: `backing` owns words*16 bytes; m + frame.len() fits.
    unsafe { std::ptr::copy_nonoverlapping(frame.as_ptr(), base.add(m), frame.len()) };
    (backing, m)
}

fn check_typed<T>(c: &Case) -> CheckResult
where
    T: Elem,
{
    let (xs, extreme) = elems::<T>(c.len, c.seed);
    let want_bits = bits(&xs);
    let query = format!("/r{}", "q".repeat(c.qlen.saturating_sub(2)));
    let query = &query[..c.qlen.min(query.len())];
    let query = if c.qlen == 1 { "/" } else { query };
    let name = T::NAME;

    // --- (b) bulk encode -> bulk decode, and format guard
    let bulk = Message::builder()
        .id(9)
        .query_str(query)
        .query_format(QueryFormat::JsonPointer)
        .body_typed_slice(&xs)
        .build();
    ensure!(
        bulk.header.body_format == repe::BodyFormat::Beve as u16,
        "bulk-format",
        "{name}: body_typed_slice did not set BEVE"
    );
    let back: Vec<T> = bulk
        .decode_typed_slice()
        .map_err(|e| Fail::new("bulk-decode-own", format!("{name} len {}: {e}", c.len)))?;
    ensure!(bits(&back) == want_bits, "bulk-roundtrip-bits", "{name}: bulk round trip changed bits");

    // --- (c) streaming writer == buffered builder frames
    let mut streamed = Vec::new();
    repe::write_message_typed_slice(&mut streamed, header_with(9, c.garbage), query.as_bytes(), &xs)
        .map_err(|e| Fail::new("stream-writer-error", e.to_string()))?;
    let mut owned = Vec::new();
    repe::write_message(&mut owned, &bulk).map_err(|e| Fail::new("write_message-error", e.to_string()))?;
    ensure!(
        streamed == owned,
        "stream-vs-buffered",
        "{name} len {} q {}: {}",
        c.len,
        c.qlen,
        diff_msg("write_message_typed_slice vs write_message(builder)", &streamed, &owned)
    );
    ensure!(bulk.clone().into_wire_bytes() == owned, "into_wire_bytes-vs-write", "{name}: into_wire_bytes differs");

    // --- (e) wrong element type / wrong format is rejected, never reinterpreted
    if c.len > 0 {
        macro_rules! reject_as {
            ($u:ty) => {
                if <$u as Elem>::NAME != name {
                    let r: Result<Vec<$u>, _> = bulk.decode_typed_slice();
                    ensure!(
                        r.is_err(),
                        "wrong-type-accepted",
                        "{name} body decoded as {} without error",
                        <$u as Elem>::NAME
                    );
                }
            };
        }
        reject_as!(u8);
        reject_as!(u16);
        reject_as!(u32);
        reject_as!(u64);
        reject_as!(i8);
        reject_as!(i16);
        reject_as!(i32);
        reject_as!(i64);
        reject_as!(f32);
        reject_as!(f64);
        reject_as!(f16);
        reject_as!(bf16);
        reject_as!(u128);
        reject_as!(i128);
        let r: Result<Vec<Complex<f64>>, _> = bulk.decode_complex_slice();
        ensure!(r.is_err(), "wrong-type-accepted", "{name} body decoded as Complex<f64>");
    }
    for fmt in [0u16, 2, 3, 4, 0xFFFF] {
        let mut m = bulk.clone();
        m.header.body_format = fmt;
        let r: Result<Vec<T>, _> = m.decode_typed_slice();
        ensure!(r.is_err(), "wrong-format-accepted", "{name}: body_format {fmt} decoded as a typed slice");
    }

    // --- (d) aligned form through a borrowing route, wherever the frame lands
    let aligned = Message::builder()
        .id(11)
        .query_str(query)
        .query_format(QueryFormat::JsonPointer)
        .body_aligned_typed_slice(&xs)
        .build();
    let frame = if c.into_wire {
        aligned.clone().into_wire_bytes()
    } else {
        aligned.to_vec()
    };
    ensure!(frame == aligned.to_vec(), "aligned-into_wire_bytes", "{name}: aligned into_wire_bytes != to_vec");
    let (backing, m) = place(&frame, c.misalign);
    let base = backing.as_ptr() as usize + m;
    // SAFETY: frame bytes were copied at base; backing outlives the view.
    let buf = unsafe { std::slice::from_raw_parts(base as *const u8, frame.len()) };
    let view = MessageView::from_slice(buf).map_err(|e| Fail::new("aligned-frame-parse", e.to_string()))?;
    type SeenSlot = Arc<Mutex<Option<(usize, Vec<u128>)>>>;
    let seen: SeenSlot = Arc::new(Mutex::new(None));
    let seen2 = seen.clone();
    let router = Router::new().with_typed_slice_ref::<T, T, _>("/r", move |s: &[T]| {
        *seen2.lock().unwrap() = Some((s.as_ptr() as usize, s.iter().map(|x| x.raw()).collect()));
        Ok(s.to_vec())
    });
    let h = router.get("/r").unwrap();
    let ctx = CallContext::detached("/r");
    let resp = h
        .handle_view(&view, &ctx)
        .map_err(|e| Fail::new("aligned-route-error", format!("{name} len {} q {} m {}: {e}", c.len, c.qlen, c.misalign)))?;
    ensure!(resp.header.ec == 0, "aligned-route-error", "{name}: route answered ec {}", resp.header.ec);
    let (ptr, got_bits) = seen
        .lock()
        .unwrap()
        .take()
        .ok_or_else(|| Fail::new("aligned-route-not-invoked", "closure not invoked"))?;
    ensure!(
        got_bits == want_bits,
        "aligned-route-bits",
        "{name} len {} q {} m {}: the borrowing route saw different elements",
        c.len,
        c.qlen,
        c.misalign
    );
    let out: Vec<T> = resp
        .decode_typed_slice()
        .map_err(|e| Fail::new("aligned-route-response", e.to_string()))?;
    ensure!(bits(&out) == want_bits, "aligned-route-response", "{name}: response elements differ");
    let inside = ptr >= base && ptr < base + frame.len().max(1);
    let align = std::mem::align_of::<T>();
    let payload_addr = base + frame.len() - c.len * std::mem::size_of::<T>();
    let mut borrow_class = "copied";
    if c.len > 0 {
        if inside {
            borrow_class = "borrowed";
            ensure!(
                ptr % align == 0,
                "misaligned-borrow",
                "{name}: the route handed out a &[T] at {ptr:#x} inside the receive buffer, not {align}-aligned (undefined behaviour)"
            );
            ensure!(ptr == payload_addr, "borrow-wrong-offset", "{name}: borrowed slice starts at {ptr:#x}, payload is at {payload_addr:#x}");
        } else {
            ensure!(
                payload_addr % align != 0,
                "aligned-payload-copied",
                "{name} len {} q {} m {}: payload at {payload_addr:#x} is {align}-aligned but the route copied it instead of borrowing",
                c.len,
                c.qlen,
                c.misalign
            );
        }
    }
    // the same aligned body through the owned path (copies the body: still the same elements)
    let resp2 = h
        .handle(&view.to_message())
        .map_err(|e| Fail::new("aligned-route-owned-error", e.to_string()))?;
    let out2: Vec<T> = resp2
        .decode_typed_slice()
        .map_err(|e| Fail::new("aligned-route-owned-response", e.to_string()))?;
    ensure!(bits(&out2) == want_bits, "aligned-route-owned-response", "{name}: owned-path response differs");
    // the regular (unpadded) form is accepted by the borrowing route too
    let wire_bulk = bulk.to_vec();
    let resp3 = h
        .handle_view(&MessageView::from_slice(&wire_bulk).unwrap(), &ctx)
        .map_err(|e| Fail::new("ref-route-regular-form", e.to_string()))?;
    let out3: Vec<T> = resp3.decode_typed_slice().map_err(|e| Fail::new("ref-route-regular-form", e.to_string()))?;
    ensure!(bits(&out3) == want_bits, "ref-route-regular-form", "{name}: regular form through ref route differs");
    // wrong format through the route is an error response, not a reinterpretation
    for fmt in [0u16, 2, 3, 0xFFFF] {
        let mut bad = bulk.clone();
        bad.header.body_format = fmt;
        seen.lock().unwrap().take();
        let r = h.handle(&bad);
        let rejected = match r {
            Err(_) => true,
            Ok(m) => m.header.ec != 0,
        };
        ensure!(
            rejected && seen.lock().unwrap().is_none(),
            "route-wrong-format-accepted",
            "{name}: the slice route ran for body_format {fmt}"
        );
    }

    let nontrivial = (c.len > 0 && extreme) || c.len == 0 || (c.qlen % 8, c.misalign) != (0, 0);
    Ok(CaseInfo::new(nontrivial)
        .class(name)
        .class(match c.len {
            0 => "len=0",
            1..=9 => "len=1-9",
            10..=4096 => "len=10-4096",
            _ => "len>4096",
        })
        .class(borrow_class)
        .class(format!("qmod8={}", c.qlen % 8)))
}

/// Clauses that need the generic (serde) encoding as well.
fn check_serde<T>(c: &Case) -> CheckResult
where
    T: Elem + Serialize + DeserializeOwned,
{
    let (xs, _) = elems::<T>(c.len, c.seed);
    let want_bits = bits(&xs);
    let name = T::NAME;
    let bulk = Message::builder().body_typed_slice(&xs).build();
    let generic = Message::builder()
        .body_beve(&xs.to_vec())
        .map_err(|e| Fail::new("serde-encode-error", e.to_string()))?
        .build();
    // (a) byte identity for non-empty slices
    if c.len > 0 {
        ensure!(
            bulk.body == generic.body,
            "bulk-vs-serde-bytes",
            "{name} len {}: {}",
            c.len,
            diff_msg("body_typed_slice vs body_beve", &bulk.body, &generic.body)
        );
    }
    // (b) each decoder reads the other encoder's output, for every len incl. 0
    let via_bulk: Vec<T> = generic.decode_typed_slice().map_err(|e| {
        Fail::new(
            if c.len == 0 { "bulk-decoder-rejects-generic-empty" } else { "bulk-decoder-rejects-generic" },
            format!("{name} len {}: decode_typed_slice on the generic encoding {:02x?}: {e}", c.len, &generic.body[..generic.body.len().min(8)]),
        )
    })?;
    ensure!(bits(&via_bulk) == want_bits, "cross-decode-bits", "{name}: bulk decoder changed the generic encoding's bits");
    let via_serde: Vec<T> = bulk.beve_body().map_err(|e| {
        Fail::new(
            "serde-decoder-rejects-bulk",
            format!("{name} len {}: beve_body::<Vec<T>> on the bulk encoding: {e}", c.len),
        )
    })?;
    ensure!(bits(&via_serde) == want_bits, "cross-decode-bits", "{name}: serde decoder changed the bulk encoding's bits");
    // the bulk and borrowing routes accept the generic encoding as well
    let seen: Arc<Mutex<Vec<Vec<u128>>>> = Arc::new(Mutex::new(Vec::new()));
    let (s1, s2) = (seen.clone(), seen.clone());
    let router = Router::new()
        .with_typed_slice::<T, T, _>("/s", move |v: Vec<T>| {
            s1.lock().unwrap().push(v.iter().map(|x| x.raw()).collect());
            Ok(v)
        })
        .with_typed_slice_ref::<T, T, _>("/r", move |v: &[T]| {
            s2.lock().unwrap().push(v.iter().map(|x| x.raw()).collect());
            Ok(v.to_vec())
        });
    for path in ["/s", "/r"] {
        let req = Message::builder()
            .id(3)
            .query_str(path)
            .query_format(QueryFormat::JsonPointer)
            .body_beve(&xs.to_vec())
            .unwrap()
            .build();
        let wire = req.to_vec();
        for view in [false, true] {
            seen.lock().unwrap().clear();
            let h = router.get(path).unwrap();
            let r = if view {
                h.handle_view(&MessageView::from_slice(&wire).unwrap(), &CallContext::detached(path))
            } else {
                h.handle(&req)
            };
            let ok = matches!(&r, Ok(m) if m.header.ec == 0);
            ensure!(
                ok,
                if c.len == 0 { "slice-route-rejects-generic-empty" } else { "slice-route-rejects-generic" },
                "{name} len {}: route {path} (view={view}) rejected the generic encoding: {:?}",
                c.len,
                r.map(|m| (m.header.ec, String::from_utf8_lossy(&m.body).to_string()))
            );
            ensure!(
                *seen.lock().unwrap() == vec![want_bits.clone()],
                "slice-route-bits",
                "{name}: route {path} saw different elements"
            );
        }
    }
    Ok(CaseInfo::new(true).class(format!("serde-{name}")).class(if c.len == 0 { "len=0" } else { "len>0" }))
}

fn check_complex<T>(c: &Case) -> CheckResult
where
    T: Elem + Serialize + DeserializeOwned,
    Complex<T>: Serialize + DeserializeOwned,
{
    let (flat, extreme) = elems::<T>(c.len * 2, c.seed);
    let xs: Vec<Complex<T>> = flat.chunks(2).map(|p| Complex { re: p[0], im: p[1] }).collect();
    let want: Vec<u128> = flat.iter().map(|x| x.raw()).collect();
    let cb = |v: &[Complex<T>]| -> Vec<u128> { v.iter().flat_map(|z| [z.re.raw(), z.im.raw()]).collect() };
    let name = format!("Complex<{}>", T::NAME);
    let query = "/c".repeat(c.qlen / 2);
    let bulk = Message::builder().id(4).query_str(&query).body_complex_slice(&xs).build();
    let back = bulk.decode_complex_slice::<T>().map_err(|e| Fail::new("complex-bulk-decode-own", format!("{name}: {e}")))?;
    ensure!(cb(&back) == want, "complex-roundtrip-bits", "{name}: bulk round trip changed bits");
    let generic = Message::builder()
        .body_beve(&xs)
        .map_err(|e| Fail::new("serde-encode-error", e.to_string()))?
        .build();
    if c.len > 0 {
        ensure!(
            bulk.body == generic.body,
            "complex-bulk-vs-serde-bytes",
            "{name} len {}: {}",
            c.len,
            diff_msg("body_complex_slice vs body_beve", &bulk.body, &generic.body)
        );
    }
    let via_bulk = generic.decode_complex_slice::<T>().map_err(|e| {
        Fail::new(
            if c.len == 0 { "complex-bulk-decoder-rejects-generic-empty" } else { "complex-bulk-decoder-rejects-generic" },
            format!("{name} len {}: {e}", c.len),
        )
    })?;
    ensure!(cb(&via_bulk) == want, "complex-cross-decode-bits", "{name}: cross decode changed bits");
    let via_serde: Vec<Complex<T>> = bulk
        .beve_body()
        .map_err(|e| Fail::new("complex-serde-decoder-rejects-bulk", format!("{name} len {}: {e}", c.len)))?;
    ensure!(cb(&via_serde) == want, "complex-cross-decode-bits", "{name}: serde decode of bulk changed bits");
    // streaming writer
    let mut streamed = Vec::new();
    let mut h = header_with(4, c.garbage);
    h.query_format = 0;
    repe::write_message_complex_slice(&mut streamed, h, query.as_bytes(), &xs)
        .map_err(|e| Fail::new("complex-stream-writer-error", e.to_string()))?;
    let owned = bulk.to_vec();
    ensure!(
        streamed == owned,
        "complex-stream-vs-buffered",
        "{name}: {}",
        diff_msg("write_message_complex_slice vs builder", &streamed, &owned)
    );
    // wrong type
    if c.len > 0 {
        ensure!(bulk.decode_typed_slice::<T>().is_err(), "wrong-type-accepted", "{name} decoded as a plain typed slice");
    }
    Ok(CaseInfo::new(extreme || c.len == 0).class(name).class(if c.len == 0 { "len=0" } else { "len>0" }))
}

pub fn check(c: &Case) -> CheckResult {
    macro_rules! both {
        ($t:ty) => {{
            let a = check_typed::<$t>(c)?;
            let mut b = check_serde::<$t>(c)?;
            b.nontrivial |= a.nontrivial;
            b.classes.extend(a.classes);
            Ok(b)
        }};
    }
    match c.ty {
        Ty::U8 => both!(u8),
        Ty::U16 => both!(u16),
        Ty::U32 => both!(u32),
        Ty::U64 => both!(u64),
        Ty::I8 => both!(i8),
        Ty::I16 => both!(i16),
        Ty::I32 => both!(i32),
        Ty::I64 => both!(i64),
        Ty::F32 => both!(f32),
        Ty::F64 => both!(f64),
        Ty::U128 => check_typed::<u128>(c),
        Ty::I128 => check_typed::<i128>(c),
        Ty::F16 => check_typed::<f16>(c),
        Ty::BF16 => check_typed::<bf16>(c),
        Ty::C32 => check_complex::<f32>(c),
        Ty::C64 => check_complex::<f64>(c),
    }
}

fn case(max_len: usize) -> BoxedStrategy<Case> {
    let len = prop_oneof![
        4 => prop::sample::select(vec![0usize, 1, 2, 7, 8, 9, 255, 256, 4095, 4096].into_iter().filter(|x| *x <= max_len).collect::<Vec<_>>()),
        2 => Just(0usize),
        4 => 0usize..=64.min(max_len),
        2 => 0usize..=max_len.min(4096),
    ];
    (
        prop::sample::select(TYS.to_vec()),
        len,
        any::<u64>(),
        0usize..=64,
        0usize..8,
        [any::<u64>(), any::<u64>(), any::<u64>()],
        any::<bool>(),
    )
        .prop_map(|(ty, len, seed, qlen, misalign, garbage, into_wire)| Case {
            ty,
            len,
            seed,
            qlen,
            misalign,
            garbage,
            into_wire,
        })
        .boxed()
}

// ---------------------------------------------------------------- foreign bodies

/// BEVE bodies that are NOT a typed array of the requested element type: generic
/// arrays of every length class (rows, strings, mixed values), maps, scalars.
#[derive(Debug, Clone, Serialize, Deserialize, Hash, PartialEq, Eq)]
pub struct Foreign {
    pub shape: u8,
    pub n: usize,
    pub seed: u64,
    pub ty: Ty,
}

fn foreign_body(f: &Foreign) -> Vec<u8> {
    let n = f.n;
    match f.shape % 7 {
        0 => beve::to_vec(&(0..n).map(|i| vec![i as f64, 0.5]).collect::<Vec<Vec<f64>>>()).unwrap(),
        1 => beve::to_vec(&(0..n).map(|i| format!("s{i}")).collect::<Vec<String>>()).unwrap(),
        2 => beve::to_vec(&serde_json::Value::Array(
            (0..n)
                .map(|i| if i % 2 == 0 { serde_json::json!(i) } else { serde_json::json!("x") })
                .collect(),
        ))
        .unwrap(),
        3 => beve::to_vec(&(0..n).map(|i| (i as u8, i as f64)).collect::<Vec<(u8, f64)>>()).unwrap(),
        4 => beve::to_vec(&serde_json::json!({"a": n, "b": [1, 2, 3]})).unwrap(),
        5 => beve::to_vec(&format!("string-{n}")).unwrap(),
        _ => beve::to_vec(&(0..n).map(|_| Vec::<u8>::new()).collect::<Vec<Vec<u8>>>()).unwrap(),
    }
}

fn check_foreign_for<T>(f: &Foreign) -> CheckResult
where
    T: Elem + Serialize + DeserializeOwned,
{
    let body = foreign_body(f);
    let msg = Message::builder().body_bytes(body.clone()).body_format(repe::BodyFormat::Beve).build();
    let generic: Result<Vec<T>, _> = msg.beve_body();
    let bulk: Result<Vec<T>, _> = msg.decode_typed_slice();
    // Differential: whatever the bulk decoder accepts, the generic decoder must
    // accept with the same elements — otherwise the body was reinterpreted.
    if let Ok(v) = &bulk {
        match &generic {
            Ok(g) => ensure!(
                bits(v) == bits(g),
                "foreign-body-reinterpreted",
                "{}: bulk decoder returned {} elements that differ from the generic decoder's for body {:02x?}..",
                T::NAME,
                v.len(),
                &body[..body.len().min(12)]
            ),
            Err(e) => {
                return Err(Fail::new(
                    "foreign-body-reinterpreted",
                    format!(
                        "{}: decode_typed_slice accepted a body (shape {}, n {}) as {} elements, which the generic decoder rejects as Vec<{}>: {e}",
                        T::NAME,
                        f.shape % 7,
                        f.n,
                        v.len(),
                        T::NAME
                    ),
                ));
            }
        }
    }
    // The slice routes must agree with the message-level decoder.
    let router = Router::new()
        .with_typed_slice::<T, T, _>("/s", |v: Vec<T>| Ok(v))
        .with_typed_slice_ref::<T, T, _>("/r", |v: &[T]| Ok(v.to_vec()));
    for path in ["/s", "/r"] {
        let req = Message::builder()
            .id(1)
            .query_str(path)
            .query_format(QueryFormat::JsonPointer)
            .body_bytes(body.clone())
            .body_format(repe::BodyFormat::Beve)
            .build();
        let wire = req.to_vec();
        for view in [false, true] {
            let h = router.get(path).unwrap();
            let r = if view {
                h.handle_view(&MessageView::from_slice(&wire).unwrap(), &CallContext::detached(path))
            } else {
                h.handle(&req)
            };
            let accepted = matches!(&r, Ok(m) if m.header.ec == 0);
            ensure!(
                accepted == bulk.is_ok(),
                "route-vs-decoder-disagree",
                "{}: route {path} (view={view}) accepted={accepted} but decode_typed_slice ok={} for foreign body shape {} n {}",
                T::NAME,
                bulk.is_ok(),
                f.shape % 7,
                f.n
            );
        }
    }
    // A correct typed array of T under another body-format label is rejected too, on
    // the owned and the borrowed dispatch path of both slice routes.
    let xs: Vec<T> = (0..(f.n % 5 + 1) as u128).map(|i| T::from_raw(T::special(i as u64) ^ f.seed as u128)).collect();
    let good = Message::builder().body_typed_slice(&xs).build().body;
    for label in [0u16, 2, 3, 4, 0xFFFF] {
        for path in ["/s", "/r"] {
            let req = Message::builder()
                .id(2)
                .query_str(path)
                .query_format(QueryFormat::JsonPointer)
                .body_bytes(good.clone())
                .body_format_code(label)
                .build();
            let wire = req.to_vec();
            for view in [false, true] {
                let h = router.get(path).unwrap();
                let r = if view {
                    h.handle_view(&MessageView::from_slice(&wire).unwrap(), &CallContext::detached(path))
                } else {
                    h.handle(&req)
                };
                let accepted = matches!(&r, Ok(m) if m.header.ec == 0);
                ensure!(
                    !accepted,
                    "wrong-format-accepted-by-route",
                    "{}: route {path} (view={view}) accepted a typed array labelled body_format {label:#x}",
                    T::NAME
                );
            }
        }
    }
    Ok(CaseInfo::new(f.n % 64 == 0 || f.n == 0)
        .class(format!("shape={}", f.shape % 7))
        .class(if bulk.is_ok() { "accepted" } else { "rejected" }))
}

fn check_foreign(f: &Foreign) -> CheckResult {
    match f.ty {
        Ty::U8 => check_foreign_for::<u8>(f),
        Ty::U16 => check_foreign_for::<u16>(f),
        Ty::U32 => check_foreign_for::<u32>(f),
        Ty::U64 | Ty::U128 => check_foreign_for::<u64>(f),
        Ty::I8 => check_foreign_for::<i8>(f),
        Ty::I16 => check_foreign_for::<i16>(f),
        Ty::I32 => check_foreign_for::<i32>(f),
        Ty::I64 | Ty::I128 => check_foreign_for::<i64>(f),
        Ty::F32 | Ty::F16 | Ty::BF16 | Ty::C32 => check_foreign_for::<f32>(f),
        Ty::F64 | Ty::C64 => check_foreign_for::<f64>(f),
    }
}

fn foreign_cases() -> Vec<Foreign> {
    let mut v = Vec::new();
    for shape in 0..7u8 {
        for n in [0usize, 1, 2, 63, 64, 65, 127, 128, 129, 256, 1024, 4096, 16384] {
            for ty in [Ty::U8, Ty::I32, Ty::F32, Ty::F64, Ty::U64] {
                v.push(Foreign { shape, n, seed: 0, ty });
            }
        }
    }
    v
}

fn corpus() -> Vec<Case> {
    // Regression inputs: the empty vector in the generic encoding (finding F6).
    TYS.iter()
        .map(|ty| Case {
            ty: *ty,
            len: 0,
            seed: 1,
            qlen: 5,
            misalign: 3,
            garbage: [1, 2, 3],
            into_wire: false,
        })
        .collect()
}

pub fn run(ctx: &Ctx, rep: &Report) {
    run_enum(ctx, rep, "corpus", &corpus(), false, &check);
    // the (query length x misalignment x type) grid, exhaustively, with a small non-empty slice
    let mut grid = Vec::new();
    for ty in TYS {
        for qlen in 0..=64usize {
            for misalign in 0..8usize {
                grid.push(Case {
                    ty,
                    len: 3 + (qlen % 3),
                    seed: (qlen * 8 + misalign) as u64,
                    qlen,
                    misalign,
                    garbage: [7, 8, 9],
                    into_wire: misalign % 2 == 0,
                });
            }
        }
    }
    run_enum(ctx, rep, "grid", &grid, true, &check);
    run_enum(ctx, rep, "foreign", &foreign_cases(), false, &check_foreign);
    run_prop(
        ctx,
        rep,
        "foreign-random",
        ctx.tier.pick(3_000, 600_000),
        &|| {
            (0u8..7, prop_oneof![0usize..200, (0usize..80).prop_map(|k| k * 64), 0usize..5000], prop::sample::select(TYS.to_vec()))
                .prop_map(|(shape, n, ty)| Foreign { shape, n, seed: 0, ty })
                .boxed()
        },
        &check_foreign,
    );
    run_prop(ctx, rep, "random", ctx.tier.pick(20_000, 4_000_000), &|| case(4096), &check);
    // a few large slices
    let large: Vec<Case> = [1usize << 16, 1 << 20]
        .iter()
        .flat_map(|&len| {
            [Ty::U8, Ty::I32, Ty::F64, Ty::C64, Ty::F16].into_iter().map(move |ty| Case {
                ty,
                len: if ctx.tier == Tier::Quick && len > (1 << 16) { 1 << 18 } else { len },
                seed: len as u64,
                qlen: 13,
                misalign: 5,
                garbage: [0, 0, 0],
                into_wire: true,
            })
        })
        .collect();
    run_enum(ctx, rep, "large", &large, false, &check);
    super::c08_net::run(ctx, rep);
}

pub fn replay(sub: &str, case: &Value) -> Result<(), Fail> {
    match sub {
        "corpus" | "grid" | "random" | "large" => replay_case::<Case>(case, &check),
        "foreign" | "foreign-random" => replay_case::<Foreign>(case, &check_foreign),
        s if s.starts_with("net") => super::c08_net::replay(s, case),
        _ => Err(Fail::new("replay-unknown-sub", sub.to_string())),
    }
}

pub fn fuzz_targets() -> Vec<crate::fuzz::Target> {
    use crate::fuzz::{U, from_bytes};
    vec![from_bytes(
        "c08_slices",
        "C08",
        "random",
        |data: &[u8]| {
            let mut u = U::new(data);
            Some(Case {
                ty: TYS[u.below(TYS.len() as u64) as usize],
                len: match u.weighted(&[4, 2, 4, 2]) {
                    0 => [0usize, 1, 2, 7, 8, 9, 255, 256, 4095, 4096][u.below(10) as usize],
                    1 => 0,
                    2 => u.below(65) as usize,
                    _ => u.below(4097) as usize,
                },
                qlen: u.below(65) as usize,
                misalign: u.below(8) as usize,
                into_wire: u.bool(),
                seed: u.u64(),
                garbage: [u.u64(), u.u64(), u.u64()],
            })
        },
        check,
    )]
}
