//! C18 — the peer registry and its aliases stay mutually consistent.

use crate::engine::linear::{Event, SeqModel, linearize};
use crate::engine::*;
use crate::ensure;
use crate::peers::sink::{RecSink, SinkMode, handle};
use proptest::prelude::*;
use repe::{BodyFormat, PeerId, PeerRegistry};
use serde::{Deserialize, Serialize};
use serde_json::Value;
use std::collections::{BTreeMap, BTreeSet};
use std::sync::Arc;
use std::sync::atomic::{AtomicU64, Ordering};

pub const RULE: &str = "operation histories over {insert(p) (only when absent: the documented uniqueness precondition), remove(p), alias(p,k), broadcast(kind)} on P peers x K keys against a map model (peer->present, key->peer, peer->ordered key list); after every step get/get_by/key_for/aliases_for/len/peers for every peer and key are compared; every broadcast must deliver exactly one notify with the given path/body/format to each present peer and report one result per present peer; exhaustive over 3 peers x 3 keys up to the tier's length, random histories up to 200 ops over 5 peers x 5 keys, and concurrent 4-thread histories searched for a linearization; non-trivial = a key re-pointed to another peer, or removal of a peer that once owned a since-moved key; distinct = enumeration index / case hash";

#[derive(Debug, Clone, Copy, Serialize, Deserialize, Hash, PartialEq, Eq)]
pub enum Op {
    Insert(u8),
    Remove(u8),
    Alias(u8, u8),
    Broadcast(u8),
}

#[derive(Debug, Clone, Serialize, Deserialize, Hash, PartialEq, Eq)]
pub struct Hist {
    pub peers: u8,
    pub keys: u8,
    /// Which peers' sinks report Disconnected / Full (bitmask; rest Ok).
    pub dead_mask: u8,
    pub ops: Vec<Op>,
}

#[derive(Clone, Debug, Default, Hash, PartialEq, Eq)]
pub struct Model {
    present: BTreeSet<u8>,
    key_to_peer: BTreeMap<u8, u8>,
    peer_keys: BTreeMap<u8, Vec<u8>>,
}

impl Model {
    fn alias(&mut self, p: u8, k: u8) -> (bool, bool) {
        if !self.present.contains(&p) {
            return (false, false);
        }
        let mut repointed = false;
        match self.key_to_peer.insert(k, p) {
            Some(prev) if prev == p => return (true, false),
            Some(prev) => {
                repointed = true;
                if let Some(v) = self.peer_keys.get_mut(&prev) {
                    v.retain(|x| *x != k);
                }
            }
            None => {}
        }
        self.peer_keys.entry(p).or_default().push(k);
        (true, repointed)
    }
    fn remove(&mut self, p: u8) -> bool {
        let was = self.present.remove(&p);
        if let Some(keys) = self.peer_keys.remove(&p) {
            for k in keys {
                if self.key_to_peer.get(&k) == Some(&p) {
                    self.key_to_peer.remove(&k);
                }
            }
        }
        was
    }
}

fn key_name(k: u8) -> String {
    format!("key-{k}")
}

struct Fixture {
    reg: PeerRegistry,
    sinks: Vec<Arc<RecSink>>,
}

fn fixture(peers: u8, dead_mask: u8) -> Fixture {
    let sinks = (0..peers)
        .map(|p| {
            RecSink::new(if dead_mask & (1 << p) != 0 {
                if p % 2 == 0 {
                    SinkMode::Disconnected
                } else {
                    SinkMode::Full
                }
            } else {
                SinkMode::Ok
            })
        })
        .collect();
    Fixture {
        reg: PeerRegistry::new(),
        sinks,
    }
}

fn compare(fx: &Fixture, m: &Model, h: &Hist, at: &dyn Fn(&str) -> String) -> Result<(), Fail> {
    ensure!(
        fx.reg.len() == m.present.len(),
        "len",
        "{}",
        at(&format!("len() = {}, model {}", fx.reg.len(), m.present.len()))
    );
    ensure!(
        fx.reg.is_empty() == m.present.is_empty(),
        "is_empty",
        "{}",
        at("is_empty() disagrees with the model")
    );
    let snap: BTreeSet<u64> = fx.reg.peers().iter().map(|p| p.peer_id().0).collect();
    let want: BTreeSet<u64> = m.present.iter().map(|p| *p as u64).collect();
    ensure!(snap == want, "peers-snapshot", "{}", at(&format!("peers() = {snap:?}, model {want:?}")));
    for p in 0..h.peers {
        let got = fx.reg.get(PeerId(p as u64)).map(|x| x.peer_id().0);
        let want = m.present.contains(&p).then_some(p as u64);
        ensure!(got == want, "get", "{}", at(&format!("get({p}) = {got:?}, model {want:?}")));
        let got: Vec<String> = fx.reg.aliases_for(PeerId(p as u64));
        let want: Vec<String> = m
            .peer_keys
            .get(&p)
            .map(|v| v.iter().map(|k| key_name(*k)).collect())
            .unwrap_or_default();
        ensure!(
            got == want,
            "aliases_for",
            "{}",
            at(&format!("aliases_for({p}) = {got:?}, model {want:?}"))
        );
        let got = fx.reg.key_for(PeerId(p as u64));
        ensure!(
            got == want.first().cloned(),
            "key_for",
            "{}",
            at(&format!("key_for({p}) = {got:?}, model {:?}", want.first()))
        );
    }
    for k in 0..h.keys {
        let got = fx.reg.get_by(key_name(k).as_str()).map(|x| x.peer_id().0);
        let want = m
            .key_to_peer
            .get(&k)
            .filter(|p| m.present.contains(p))
            .map(|p| *p as u64);
        ensure!(
            got == want,
            "get_by",
            "{}",
            at(&format!("get_by({}) = {got:?}, model {want:?}", key_name(k)))
        );
    }
    Ok(())
}

#[derive(Default)]
pub struct Stats {
    repointed: bool,
    removed_former_owner: bool,
    broadcasts: u32,
}

pub fn run_hist(h: &Hist) -> Result<Stats, Fail> {
    let fx = fixture(h.peers, h.dead_mask);
    let mut m = Model::default();
    let mut st = Stats::default();
    // peers that once owned a key that has since moved elsewhere
    let mut former_owner: BTreeSet<u8> = BTreeSet::new();
    for (step, op) in h.ops.iter().enumerate() {
        let at = |s: &str| format!("step {step} {op:?}: {s}");
        match *op {
            Op::Insert(p) => {
                if m.present.contains(&p) {
                    continue; // precondition: ids are unique; skip
                }
                fx.reg.insert(handle(p as u64, &fx.sinks[p as usize]));
                m.present.insert(p);
            }
            Op::Remove(p) => {
                let got = fx.reg.remove(PeerId(p as u64)).map(|x| x.peer_id().0);
                if former_owner.contains(&p) && m.present.contains(&p) {
                    st.removed_former_owner = true;
                }
                let was = m.remove(p);
                ensure!(
                    got.is_some() == was && (got.is_none() || got == Some(p as u64)),
                    "remove-result",
                    "{}",
                    at(&format!("remove returned {got:?}, model present={was}"))
                );
            }
            Op::Alias(p, k) => {
                let prev = m.key_to_peer.get(&k).copied();
                let got = fx.reg.alias(PeerId(p as u64), key_name(k));
                let (want, repointed) = m.alias(p, k);
                if repointed {
                    st.repointed = true;
                    if let Some(prev) = prev {
                        former_owner.insert(prev);
                    }
                }
                ensure!(got == want, "alias-result", "{}", at(&format!("alias returned {got}, model {want}")));
            }
            Op::Broadcast(kind) => {
                st.broadcasts += 1;
                let path = format!("/bcast/{step}");
                let payload = serde_json::json!({"step": step, "kind": kind});
                let (res, want_fmt, want_body): (_, u16, Vec<u8>) = match kind % 4 {
                    0 => (
                        fx.reg.broadcast_notify_json(&path, &payload).map_err(|e| {
                            Fail::new("broadcast-error", at(&e.to_string()))
                        })?,
                        BodyFormat::Json as u16,
                        serde_json::to_vec(&payload).unwrap(),
                    ),
                    1 => (
                        fx.reg.broadcast_notify_beve(&path, &payload).map_err(|e| {
                            Fail::new("broadcast-error", at(&e.to_string()))
                        })?,
                        BodyFormat::Beve as u16,
                        beve::to_vec(&payload).unwrap(),
                    ),
                    2 => (
                        fx.reg.broadcast_notify_utf8(&path, format!("text-{step}")),
                        BodyFormat::Utf8 as u16,
                        format!("text-{step}").into_bytes(),
                    ),
                    _ => (
                        fx.reg.broadcast_notify_raw(&path, BodyFormat::RawBinary, &[step as u8, 0xff, 0]),
                        BodyFormat::RawBinary as u16,
                        vec![step as u8, 0xff, 0],
                    ),
                };
                let keys: BTreeSet<u64> = res.keys().map(|p| p.0).collect();
                let want: BTreeSet<u64> = m.present.iter().map(|p| *p as u64).collect();
                ensure!(
                    keys == want,
                    "broadcast-result-keys",
                    "{}",
                    at(&format!("result map keys {keys:?}, present peers {want:?}"))
                );
                for p in 0..h.peers {
                    let log = fx.sinks[p as usize].take();
                    let mode = fx.sinks[p as usize].mode;
                    if m.present.contains(&p) && mode == SinkMode::Ok {
                        ensure!(
                            log.len() == 1,
                            "broadcast-delivery-count",
                            "{}",
                            at(&format!("peer {p} received {} notifies, expected exactly 1", log.len()))
                        );
                        let (gp, gf, gb) = &log[0];
                        ensure!(
                            *gp == path && *gf == want_fmt && *gb == want_body,
                            "broadcast-delivery-content",
                            "{}",
                            at(&format!("peer {p} received ({gp}, fmt {gf}, {} bytes), expected ({path}, fmt {want_fmt}, {} bytes)", gb.len(), want_body.len()))
                        );
                        ensure!(
                            matches!(res.get(&PeerId(p as u64)), Some(Ok(()))),
                            "broadcast-result-value",
                            "{}",
                            at(&format!("peer {p} accepted the notify but its result is an error"))
                        );
                    } else {
                        ensure!(
                            log.is_empty(),
                            "broadcast-to-absent",
                            "{}",
                            at(&format!("peer {p} (absent or refusing) recorded {} notifies", log.len()))
                        );
                        if m.present.contains(&p) {
                            ensure!(
                                matches!(res.get(&PeerId(p as u64)), Some(Err(_))),
                                "broadcast-result-value",
                                "{}",
                                at(&format!("peer {p}'s sink refused but its result is Ok"))
                            );
                        }
                    }
                }
            }
        }
        compare(&fx, &m, h, &at)?;
    }
    Ok(st)
}

fn check_hist(h: &Hist) -> CheckResult {
    let st = run_hist(h)?;
    let mut info = CaseInfo::new(st.repointed || st.removed_former_owner);
    if st.repointed {
        info = info.class("key-repointed");
    }
    if st.removed_former_owner {
        info = info.class("removed-former-owner");
    }
    if st.broadcasts > 0 {
        info = info.class("broadcast");
    }
    Ok(info)
}

fn alphabet() -> Vec<Op> {
    let mut v = Vec::new();
    for p in 0..3 {
        v.push(Op::Insert(p));
        v.push(Op::Remove(p));
        for k in 0..3 {
            v.push(Op::Alias(p, k));
        }
    }
    v.push(Op::Broadcast(0));
    v
}

fn run_exhaustive(ctx: &Ctx, rep: &Report, max_len: usize) {
    let sub = "exhaustive";
    if !ctx.want(sub) {
        return;
    }
    let alpha = alphabet();
    let n = alpha.len() as u64;
    let evals = AtomicU64::new(0);
    let nontriv = AtomicU64::new(0);
    for len in 1..=max_len {
        let total = n.pow(len as u32);
        let threads = ctx.threads.max(1) as u64;
        std::thread::scope(|scope| {
            for w in 0..threads {
                let alpha = &alpha;
                let (evals, nontriv) = (&evals, &nontriv);
                scope.spawn(move || {
                    let (mut e, mut nt) = (0u64, 0u64);
                    let mut i = w;
                    while i < total && !failure_seen() {
                        let mut idx = i;
                        let mut ops = Vec::with_capacity(len);
                        for _ in 0..len {
                            ops.push(alpha[(idx % n) as usize]);
                            idx /= n;
                        }
                        let h = Hist {
                            peers: 3,
                            keys: 3,
                            dead_mask: 0,
                            ops,
                        };
                        match std::panic::catch_unwind(std::panic::AssertUnwindSafe(|| run_hist(&h))) {
                            Ok(Ok(st)) => {
                                e += 1;
                                if st.repointed || st.removed_former_owner {
                                    nt += 1;
                                    if nt == 1 && w == 0 {
                                        rep.add_sample(sub, serde_json::to_value(&h).unwrap());
                                    }
                                }
                            }
                            Ok(Err(f)) => {
                                note_failure();
                                rep.fail(sub, &serde_json::to_value(&shrink(&h, &f.sig)).unwrap(), &f, ctx.seed);
                                break;
                            }
                            Err(_) => {
                                note_failure();
                                rep.fail(
                                    sub,
                                    &serde_json::to_value(&shrink(&h, "panic")).unwrap(),
                                    &Fail::new("panic", "panicked while running the history"),
                                    ctx.seed,
                                );
                                break;
                            }
                        }
                        i += threads;
                    }
                    evals.fetch_add(e, Ordering::Relaxed);
                    nontriv.fetch_add(nt, Ordering::Relaxed);
                });
            }
        });
        if rep.violations() > 0 {
            break;
        }
    }
    rep.add_evaluations(sub, evals.load(Ordering::Relaxed));
    rep.add_nontrivial_count(nontriv.load(Ordering::Relaxed));
    rep.set_exhaustive(sub, true);
    rep.set_extra(
        "exhaustive_scope",
        serde_json::json!({"peers": 3, "keys": 3, "alphabet_size": alpha.len(), "max_len": max_len}),
    );
}

fn shrink(h: &Hist, sig: &str) -> Hist {
    let fails = |c: &Hist| match std::panic::catch_unwind(std::panic::AssertUnwindSafe(|| run_hist(c))) {
        Ok(Err(f)) => f.sig == sig,
        Err(_) => sig == "panic",
        _ => false,
    };
    let mut cur = h.clone();
    loop {
        let mut improved = false;
        let mut i = 0;
        while i < cur.ops.len() {
            let mut c = cur.clone();
            c.ops.remove(i);
            if fails(&c) {
                cur = c;
                improved = true;
            } else {
                i += 1;
            }
        }
        if !improved {
            return cur;
        }
    }
}

fn hist_random() -> BoxedStrategy<Hist> {
    let op = prop_oneof![
        3 => (0u8..5).prop_map(Op::Insert),
        2 => (0u8..5).prop_map(Op::Remove),
        6 => (0u8..5, 0u8..5).prop_map(|(p, k)| Op::Alias(p, k)),
        1 => (0u8..4).prop_map(Op::Broadcast),
    ];
    (any::<u8>(), prop::collection::vec(op, 0..200))
        .prop_map(|(dead_mask, ops)| Hist {
            peers: 5,
            keys: 5,
            dead_mask: dead_mask & 0x1f & if dead_mask & 0x80 != 0 { 0 } else { 0xff },
            ops,
        })
        .boxed()
}

// ------------------------------------------------------------- concurrency

#[derive(Debug, Clone, Copy, Serialize, Deserialize, Hash, PartialEq, Eq)]
pub enum COp {
    Remove(u8),
    Alias(u8, u8),
    GetBy(u8),
    AliasesFor(u8),
    Get(u8),
}

#[derive(Debug, Clone, PartialEq, Eq)]
pub enum CRes {
    Bool(bool),
    Peer(Option<u8>),
    Keys(Vec<u8>),
}

impl SeqModel for Model {
    type Op = COp;
    type Res = CRes;
    fn apply(&mut self, op: &COp) -> CRes {
        match *op {
            COp::Remove(p) => CRes::Bool(self.remove(p)),
            COp::Alias(p, k) => CRes::Bool(self.alias(p, k).0),
            COp::GetBy(k) => CRes::Peer(
                self.key_to_peer
                    .get(&k)
                    .filter(|p| self.present.contains(p))
                    .copied(),
            ),
            COp::AliasesFor(p) => CRes::Keys(self.peer_keys.get(&p).cloned().unwrap_or_default()),
            COp::Get(p) => CRes::Peer(self.present.contains(&p).then_some(p)),
        }
    }
}

#[derive(Debug, Clone, Serialize, Deserialize, Hash, PartialEq, Eq)]
pub struct Conc {
    pub threads: Vec<Vec<COp>>,
}

fn conc() -> BoxedStrategy<Conc> {
    let op = prop_oneof![
        2 => (0u8..3).prop_map(COp::Remove),
        6 => (0u8..3, 0u8..3).prop_map(|(p, k)| COp::Alias(p, k)),
        3 => (0u8..3).prop_map(COp::GetBy),
        3 => (0u8..3).prop_map(COp::AliasesFor),
        1 => (0u8..3).prop_map(COp::Get),
    ];
    prop::collection::vec(prop::collection::vec(op, 1..=5), 2..=4)
        .prop_map(|threads| Conc { threads })
        .boxed()
}

fn parse_key(s: &str) -> u8 {
    s.strip_prefix("key-").and_then(|x| x.parse().ok()).unwrap_or(255)
}

fn check_conc(c: &Conc) -> CheckResult {
    let fx = fixture(3, 0);
    let mut init = Model::default();
    for p in 0..3u8 {
        fx.reg.insert(handle(p as u64, &fx.sinks[p as usize]));
        init.present.insert(p);
    }
    let clock = Arc::new(AtomicU64::new(0));
    let barrier = Arc::new(std::sync::Barrier::new(c.threads.len()));
    let mut handles = Vec::new();
    for (t, ops) in c.threads.iter().enumerate() {
        let reg = fx.reg.clone();
        let ops = ops.clone();
        let clock = clock.clone();
        let barrier = barrier.clone();
        handles.push(std::thread::spawn(move || {
            barrier.wait();
            let mut out = Vec::new();
            for op in ops {
                let invoked = clock.fetch_add(1, Ordering::SeqCst);
                let result = match op {
                    COp::Remove(p) => CRes::Bool(reg.remove(PeerId(p as u64)).is_some()),
                    COp::Alias(p, k) => CRes::Bool(reg.alias(PeerId(p as u64), key_name(k))),
                    COp::GetBy(k) => {
                        CRes::Peer(reg.get_by(key_name(k).as_str()).map(|h| h.peer_id().0 as u8))
                    }
                    COp::AliasesFor(p) => CRes::Keys(
                        reg.aliases_for(PeerId(p as u64)).iter().map(|s| parse_key(s)).collect(),
                    ),
                    COp::Get(p) => CRes::Peer(reg.get(PeerId(p as u64)).map(|h| h.peer_id().0 as u8)),
                };
                let responded = clock.fetch_add(1, Ordering::SeqCst);
                out.push(Event {
                    thread: t,
                    op,
                    result,
                    invoked,
                    responded,
                });
            }
            out
        }));
    }
    let mut events = Vec::new();
    for h in handles {
        events.extend(h.join().map_err(|_| Fail::new("panic", "worker thread panicked"))?);
    }
    let overlap = events.iter().any(|a| {
        events
            .iter()
            .any(|b| a.thread != b.thread && a.invoked < b.responded && b.invoked < a.responded)
    });
    // Final observations, strictly after every concurrent operation in real
    // time: the linearization must explain the resulting state as well (comparing
    // with one arbitrary witness would be unsound: several orders can explain the
    // concurrent results while leaving different final states).
    let mut finals: Vec<COp> = Vec::new();
    for k in 0..3 {
        finals.push(COp::GetBy(k));
    }
    for p in 0..3 {
        finals.push(COp::AliasesFor(p));
        finals.push(COp::Get(p));
    }
    for op in finals {
        let invoked = clock.fetch_add(1, Ordering::SeqCst);
        let result = match op {
            COp::GetBy(k) => {
                CRes::Peer(fx.reg.get_by(key_name(k).as_str()).map(|h| h.peer_id().0 as u8))
            }
            COp::AliasesFor(p) => CRes::Keys(
                fx.reg.aliases_for(PeerId(p as u64)).iter().map(|s| parse_key(s)).collect(),
            ),
            COp::Get(p) => CRes::Peer(fx.reg.get(PeerId(p as u64)).map(|h| h.peer_id().0 as u8)),
            _ => unreachable!(),
        };
        let responded = clock.fetch_add(1, Ordering::SeqCst);
        events.push(Event {
            thread: usize::MAX,
            op,
            result,
            invoked,
            responded,
        });
    }
    match linearize(&init, &events) {
        Some(_) => Ok(CaseInfo::new(overlap).class(if overlap { "overlapping" } else { "serial" })),
        None => Err(Fail::new(
            "not-linearizable",
            format!("no sequential order explains the observed results and final state: {events:?}"),
        )),
    }
}

// ------------------------------------------- broadcast vs concurrent mutation

/// A sink that mutates the registry from inside `send_notify` (sends run outside
/// the registry lock, so this is legal) and records what it received.
struct ActingSink {
    reg: PeerRegistry,
    action: Option<Act>,
    log: std::sync::Mutex<Vec<String>>,
    sinks: std::sync::Mutex<Vec<Arc<ActingSink>>>,
}

#[derive(Debug, Clone, Copy, Serialize, Deserialize, Hash, PartialEq, Eq)]
pub enum Act {
    Remove(u8),
    Insert(u8),
    Alias(u8, u8),
}

impl repe::PeerSink for ActingSink {
    fn send_notify(&self, method: &str, _body: repe::NotifyBody) -> Result<(), repe::PeerSendError> {
        self.log.lock().unwrap().push(method.to_string());
        match self.action {
            Some(Act::Remove(p)) => {
                self.reg.remove(PeerId(p as u64));
            }
            Some(Act::Insert(p)) => {
                if self.reg.get(PeerId(p as u64)).is_none() {
                    let all = self.sinks.lock().unwrap();
                    if let Some(s) = all.get(p as usize) {
                        self.reg.insert(repe::PeerHandle::new(PeerId(p as u64), s.clone()));
                    }
                }
            }
            Some(Act::Alias(p, k)) => {
                self.reg.alias(PeerId(p as u64), key_name(k));
            }
            None => {}
        }
        Ok(())
    }
}

#[derive(Debug, Clone, Serialize, Deserialize, Hash, PartialEq, Eq)]
pub struct Reentrant {
    /// which of the 6 peers are present at the call
    pub present: u8,
    /// per-peer action performed inside its send_notify
    pub actions: Vec<Option<Act>>,
    pub kind: u8,
}

fn check_reentrant(c: &Reentrant) -> CheckResult {
    const N: usize = 6;
    let reg = PeerRegistry::new();
    let sinks: Vec<Arc<ActingSink>> = (0..N)
        .map(|i| {
            Arc::new(ActingSink {
                reg: reg.clone(),
                action: c.actions.get(i).copied().flatten(),
                log: std::sync::Mutex::new(Vec::new()),
                sinks: std::sync::Mutex::new(Vec::new()),
            })
        })
        .collect();
    for s in &sinks {
        *s.sinks.lock().unwrap() = sinks.clone();
    }
    let mut present = BTreeSet::new();
    for i in 0..N {
        if c.present & (1 << i) != 0 {
            reg.insert(repe::PeerHandle::new(PeerId(i as u64), sinks[i].clone()));
            present.insert(i as u64);
        }
    }
    let res = match c.kind % 3 {
        0 => reg.broadcast_notify_utf8("/b", "x"),
        1 => reg.broadcast_notify_raw("/b", BodyFormat::RawBinary, &[1, 2]),
        _ => reg
            .broadcast_notify_json("/b", &serde_json::json!({"k": 1}))
            .map_err(|e| Fail::new("broadcast-error", e.to_string()))?,
    };
    let keys: BTreeSet<u64> = res.keys().map(|p| p.0).collect();
    ensure!(
        keys == present,
        "broadcast-recipients-not-fixed-at-call",
        "peers present at the call {present:?}; results reported for {keys:?} (sinks mutate the registry during delivery: {:?})",
        c.actions
    );
    for (i, s) in sinks.iter().enumerate() {
        let n = s.log.lock().unwrap().len();
        let want = usize::from(present.contains(&(i as u64)));
        ensure!(
            n == want,
            "broadcast-delivery-count",
            "peer {i} received {n} notifies; it was {} at the moment of the call",
            if want == 1 { "present" } else { "absent" }
        );
    }
    let mutating = (0..N).any(|i| c.present & (1 << i) != 0 && c.actions.get(i).copied().flatten().is_some());
    // sinks drop their cross references (avoid Arc cycles)
    for s in &sinks {
        s.sinks.lock().unwrap().clear();
    }
    Ok(CaseInfo::new(mutating).class(if mutating { "mutating-sink" } else { "passive-sinks" }))
}

fn reentrant() -> BoxedStrategy<Reentrant> {
    let act = prop_oneof![
        3 => Just(None),
        3 => (0u8..6).prop_map(|p| Some(Act::Remove(p))),
        2 => (0u8..6).prop_map(|p| Some(Act::Insert(p))),
        1 => (0u8..6, 0u8..3).prop_map(|(p, k)| Some(Act::Alias(p, k))),
    ];
    (0u8..64, prop::collection::vec(act, 6), 0u8..3)
        .prop_map(|(present, actions, kind)| Reentrant { present, actions, kind })
        .boxed()
}

/// Broadcast racing a mutator thread: the reported recipient set must be one of
/// the states the registry actually went through during the call.
#[derive(Debug, Clone, Serialize, Deserialize, Hash, PartialEq, Eq)]
pub struct Racing {
    pub present: u8,
    pub mutations: Vec<(bool, u8)>,
}

fn check_racing(c: &Racing) -> CheckResult {
    const N: usize = 5;
    let reg = PeerRegistry::new();
    let sinks: Vec<Arc<RecSink>> = (0..N).map(|_| RecSink::new(SinkMode::Ok)).collect();
    let mut state: BTreeSet<u64> = BTreeSet::new();
    for i in 0..N {
        if c.present & (1 << i) != 0 {
            reg.insert(handle(i as u64, &sinks[i]));
            state.insert(i as u64);
        }
    }
    let mut states = vec![state.clone()];
    let barrier = Arc::new(std::sync::Barrier::new(2));
    let muts = c.mutations.clone();
    let reg2 = reg.clone();
    let sinks2 = sinks.clone();
    let b2 = barrier.clone();
    let mut st2 = state.clone();
    let t = std::thread::spawn(move || {
        let mut seq = Vec::new();
        b2.wait();
        for (ins, p) in muts {
            let p = p as usize % N;
            if ins {
                if !st2.contains(&(p as u64)) {
                    reg2.insert(handle(p as u64, &sinks2[p]));
                    st2.insert(p as u64);
                }
            } else {
                reg2.remove(PeerId(p as u64));
                st2.remove(&(p as u64));
            }
            seq.push(st2.clone());
        }
        seq
    });
    barrier.wait();
    let res = reg.broadcast_notify_utf8("/race", "x");
    states.extend(t.join().map_err(|_| Fail::new("panic", "mutator panicked"))?);
    let keys: BTreeSet<u64> = res.keys().map(|p| p.0).collect();
    ensure!(
        states.contains(&keys),
        "broadcast-recipients-no-instant",
        "result keys {keys:?} match no state the registry went through during the call: {states:?}"
    );
    for (i, s) in sinks.iter().enumerate() {
        let n = s.take().len();
        let want = usize::from(keys.contains(&(i as u64)));
        ensure!(
            n == want,
            "broadcast-delivery-count",
            "peer {i} received {n} notifies but the result map {} it",
            if want == 1 { "lists" } else { "omits" }
        );
    }
    Ok(CaseInfo::new(states.len() > 1 && !state.is_empty()).class("racing-broadcast"))
}

fn racing() -> BoxedStrategy<Racing> {
    (0u8..32, prop::collection::vec((any::<bool>(), 0u8..5), 1..8))
        .prop_map(|(present, mutations)| Racing { present, mutations })
        .boxed()
}

// ------------------------------------- broadcasts through the WebSocket server's sinks

/// The same "exactly one notify with the given path, body and format per present
/// peer" clause, with the registry fed by a real WebSocket server (its own peer
/// sinks) instead of the harness's recording sinks: what each raw client receives.
#[derive(Debug, Clone, Serialize, Deserialize, Hash, PartialEq, Eq)]
pub struct WsFormat {
    pub peers: u8,
    pub seed: u64,
}

pub fn check_ws_format(c: &WsFormat) -> CheckResult {
    use crate::peers::net::FrameIo;
    use repe::{NotifyBody, Router, WebSocketServer};
    let registry = PeerRegistry::new();
    let shared = WebSocketServer::new(Router::new().with_json("/ping", |_v: Value| Ok(serde_json::json!("pong"))))
        .with_peer_registry(registry.clone())
        .on_error(|_e| {})
        .into_shared();
    let n = c.peers.clamp(1, 4) as usize;
    let body = crate::gens::fill(5 + (c.seed % 200) as usize, c.seed);
    crate::util::block_on_mt(async {
        let mut ios = Vec::new();
        for _ in 0..n {
            let conn = crate::peers::dws::connect(&shared, 1 << 16).await;
            let mut io = conn.io;
            // a round trip, so the peer is certainly registered
            io.send(&crate::peers::net::frame_with(1, 0, b"/ping", 1, b"null", 2, 0)).await.map_err(|e| Fail::new("harness-send", e.to_string()))?;
            match tokio::time::timeout(std::time::Duration::from_secs(10), io.recv()).await {
                Ok(Ok(Some(_))) => {}
                _ => return Err(Fail::new("harness-connect", "ping on a fresh connection was not answered")),
            }
            ios.push(io);
        }
        ensure!(registry.len() == n, "registry-size", "{} peers registered for {n} connections", registry.len());
        // (what is sent, the format the client must see)
        let formats = [BodyFormat::RawBinary, BodyFormat::Beve, BodyFormat::Json, BodyFormat::Utf8];
        let mut expected: Vec<(String, u16, Vec<u8>)> = Vec::new();
        for (i, f) in formats.iter().enumerate() {
            let path = format!("/bcast/raw/{i}");
            let res = registry.broadcast_notify_raw(&path, *f, &body);
            ensure!(res.len() == n && res.values().all(|r| r.is_ok()), "broadcast-results", "broadcast to {n} live peers reported {:?}", res.values().collect::<Vec<_>>());
            expected.push((path, *f as u16, body.clone()));
        }
        let text = "t".repeat(3 + (c.seed % 40) as usize);
        let res = registry.broadcast_notify_utf8("/bcast/utf8", &text);
        ensure!(res.len() == n && res.values().all(|r| r.is_ok()), "broadcast-results", "utf8 broadcast reported {:?}", res.values().collect::<Vec<_>>());
        expected.push(("/bcast/utf8".into(), BodyFormat::Utf8 as u16, text.clone().into_bytes()));
        let val = serde_json::json!({"seed": c.seed});
        let res = registry.broadcast_notify_json("/bcast/json", &val).map_err(|e| Fail::new("broadcast-results", e.to_string()))?;
        ensure!(res.len() == n && res.values().all(|r| r.is_ok()), "broadcast-results", "json broadcast reported {:?}", res.values().collect::<Vec<_>>());
        expected.push(("/bcast/json".into(), BodyFormat::Json as u16, serde_json::to_vec(&val).unwrap()));
        // direct pushes through each handle, every tagged variant
        for p in registry.peers() {
            for (i, f) in formats.iter().enumerate() {
                p.send_notify(&format!("/push/raw/{i}"), NotifyBody::Raw(body.clone(), *f)).map_err(|e| Fail::new("push-refused", e.to_string()))?;
            }
        }
        for (i, f) in formats.iter().enumerate() {
            expected.push((format!("/push/raw/{i}"), *f as u16, body.clone()));
        }
        for (k, io) in ios.iter_mut().enumerate() {
            for (path, fmt, bytes) in &expected {
                let f = match tokio::time::timeout(std::time::Duration::from_secs(10), io.recv()).await {
                    Ok(Ok(Some(f))) => f,
                    other => {
                        let got = other.map(|r| r.map(|o| o.map(|f| f.path())));
                        return Err(Fail::new("broadcast-missing", format!("peer {k}: expected the notify {path}, got {got:?}")));
                    }
                };
                ensure!(
                    f.header.notify == 1 && f.path() == *path && f.body == *bytes && f.header.body_format == *fmt && f.header.query_format == 1,
                    "broadcast-frame-differs",
                    "peer {k}: notify {path} sent with body format {fmt} arrived as path {:?} notify {} body_format {} query_format {} ({} body bytes, {} expected)",
                    f.path(),
                    f.header.notify,
                    f.header.body_format,
                    f.header.query_format,
                    f.body.len(),
                    bytes.len()
                );
            }
        }
        Ok(CaseInfo::new(n >= 2).class(format!("ws-peers={n}")))
    })
}

pub fn run(ctx: &Ctx, rep: &Report) {
    let wf: Vec<WsFormat> = (1..=4u8).flat_map(|peers| [1u64, 77, 4242].into_iter().map(move |seed| WsFormat { peers, seed })).collect();
    run_enum(ctx, rep, "ws-format", &wf, false, &check_ws_format);
    run_prop(ctx, rep, "broadcast-reentrant", ctx.tier.pick(20_000, 1_000_000), &|| reentrant(), &check_reentrant);
    run_prop(ctx, rep, "broadcast-racing", ctx.tier.pick(3_000, 150_000), &|| racing(), &check_racing);
    run_exhaustive(ctx, rep, ctx.tier.pick(5, 6));
    run_prop(ctx, rep, "random", ctx.tier.pick(20_000, 2_000_000), &|| hist_random(), &check_hist);
    run_prop(ctx, rep, "concurrent", ctx.tier.pick(3_000, 200_000), &|| conc(), &check_conc);
}

pub fn replay(sub: &str, case: &Value) -> Result<(), Fail> {
    match sub {
        "exhaustive" | "random" => replay_case::<Hist>(case, &check_hist),
        "concurrent" => replay_case::<Conc>(case, &check_conc),
        "ws-format" => replay_case::<WsFormat>(case, &check_ws_format),
        "broadcast-reentrant" => replay_case::<Reentrant>(case, &check_reentrant),
        "broadcast-racing" => replay_case::<Racing>(case, &check_racing),
        _ => Err(Fail::new("replay-unknown-sub", sub.to_string())),
    }
}

pub fn fuzz_targets() -> Vec<crate::fuzz::Target> {
    use crate::fuzz::{U, from_bytes};
    vec![from_bytes(
        "c18_peers",
        "C18",
        "random",
        |data: &[u8]| {
            let mut u = U::new(data);
            let dead_mask = u.u8();
            Some(Hist {
                peers: 5,
                keys: 5,
                dead_mask: dead_mask & 0x1f & if dead_mask & 0x80 != 0 { 0 } else { 0xff },
                ops: u.vec(200, |u| match u.weighted(&[3, 2, 6, 1]) {
                    0 => Op::Insert(u.below(5) as u8),
                    1 => Op::Remove(u.below(5) as u8),
                    2 => Op::Alias(u.below(5) as u8, u.below(5) as u8),
                    _ => Op::Broadcast(u.below(4) as u8),
                }),
            })
        },
        check_hist,
    )]
}
