//! C13 — an accepted resume replays a gapless tail; the buffer stays bounded.

use super::stream_model::*;
use crate::engine::*;
use proptest::prelude::*;
use serde_json::Value;
use std::sync::atomic::{AtomicU64, Ordering};

pub const RULE: &str = "push/evict/resume/advance/cancel histories (offsets always contiguous as the documented producer pushes them; logical and wire lengths differ; zero-length chunks; capacities from 0 to many chunks) run against a harness-kept list of every pushed chunk: after every step the retained ring must be a byte-identical contiguous suffix, non-empty if anything was pushed, within capacity unless a single chunk; request_resume is accepted iff current file, not cancelled and the offset is a retained boundary / trailing edge / 0-on-empty; an accepted resume's replay tail starts at the offset and ends at the last byte pushed; peer installed; wait_for_reconnect yields ResumeReady exactly once; exhaustive over a 14-op alphabet x 3 capacities up to the tier's length plus random histories up to 300 ops; non-trivial = at least one eviction happened before a resume attempt; distinct = enumeration index / case hash";

const FLAGS: Flags = Flags {
    credit: false,
    ring: true,
};

fn alphabet() -> Vec<Op> {
    let mut v = Vec::new();
    for data_len in [0u64, 1, 2] {
        for overhead in [0u8, 1] {
            v.push(Op::Push {
                data_len,
                overhead,
                last: false,
                send: true,
            });
        }
    }
    for off in 0..4u64 {
        v.push(Op::Resume { file: 0, off });
    }
    v.push(Op::Resume { file: 1, off: 0 });
    v.push(Op::Advance(1));
    v.push(Op::Cancel(0));
    v.push(Op::WaitReconnect);
    v
}

fn decode(mut idx: u64, len: usize, alpha: &[Op]) -> Vec<Op> {
    let n = alpha.len() as u64;
    let mut ops = Vec::with_capacity(len);
    for _ in 0..len {
        ops.push(alpha[(idx % n) as usize].clone());
        idx /= n;
    }
    ops
}

fn check_hist(h: &Hist) -> CheckResult {
    let st = run_history(h, &FLAGS)?;
    let mut info = CaseInfo::new(st.evictions_before_resume);
    if st.evictions > 0 {
        info = info.class("evicted");
    }
    if st.resume_accepted > 0 {
        info = info.class("resume-accepted");
    }
    if st.resume_attempts > st.resume_accepted {
        info = info.class("resume-rejected");
    }
    Ok(info)
}

fn run_exhaustive(ctx: &Ctx, rep: &Report, max_len: usize) {
    let sub = "exhaustive";
    if !ctx.want(sub) {
        return;
    }
    let alpha = alphabet();
    let n = alpha.len() as u64;
    let evals = AtomicU64::new(0);
    let nontriv = AtomicU64::new(0);
    let accepted = AtomicU64::new(0);
    let rejected = AtomicU64::new(0);
    'outer: for capacity in [0u64, 2, 3] {
        for len in 1..=max_len {
            let total = n.pow(len as u32);
            let threads = ctx.threads.max(1) as u64;
            std::thread::scope(|scope| {
                for w in 0..threads {
                    let alpha = &alpha;
                    let (evals, nontriv, accepted, rejected) =
                        (&evals, &nontriv, &accepted, &rejected);
                    scope.spawn(move || {
                        let (mut e, mut nt, mut acc, mut rej) = (0u64, 0u64, 0u64, 0u64);
                        let mut i = w;
                        while i < total && !failure_seen() {
                            let h = Hist {
                                window: 4,
                                capacity,
                                ops: decode(i, len, alpha),
                            };
                            let res = std::panic::catch_unwind(std::panic::AssertUnwindSafe(
                                || run_history(&h, &FLAGS),
                            ));
                            match res {
                                Ok(Ok(st)) => {
                                    e += 1;
                                    if st.evictions_before_resume {
                                        nt += 1;
                                        if nt == 1 && w == 0 {
                                            rep.add_sample(sub, serde_json::to_value(&h).unwrap());
                                        }
                                    }
                                    acc += st.resume_accepted as u64;
                                    rej += (st.resume_attempts - st.resume_accepted) as u64;
                                }
                                Ok(Err(f)) => {
                                    note_failure();
                                    let small = shrink_history(&h, &FLAGS, &f.sig);
                                    let f2 = run_history(&small, &FLAGS).err().unwrap_or(f);
                                    rep.fail(
                                        sub,
                                        &serde_json::to_value(&small).unwrap(),
                                        &f2,
                                        ctx.seed,
                                    );
                                    break;
                                }
                                Err(_) => {
                                    note_failure();
                                    let small = shrink_history(&h, &FLAGS, "panic");
                                    rep.fail(
                                        sub,
                                        &serde_json::to_value(&small).unwrap(),
                                        &Fail::new("panic", "panicked while running the history"),
                                        ctx.seed,
                                    );
                                    break;
                                }
                            }
                            i += threads;
                        }
                        evals.fetch_add(e, Ordering::Relaxed);
                        nontriv.fetch_add(nt, Ordering::Relaxed);
                        accepted.fetch_add(acc, Ordering::Relaxed);
                        rejected.fetch_add(rej, Ordering::Relaxed);
                    });
                }
            });
            if rep.violations() > 0 {
                break 'outer;
            }
        }
    }
    rep.add_evaluations(sub, evals.load(Ordering::Relaxed));
    rep.add_nontrivial_count(nontriv.load(Ordering::Relaxed));
    rep.add_class(sub, "resume-accepted", accepted.load(Ordering::Relaxed));
    rep.add_class(sub, "resume-rejected", rejected.load(Ordering::Relaxed));
    rep.set_exhaustive(sub, true);
    rep.set_extra(
        "exhaustive_scope",
        serde_json::json!({"alphabet": alpha, "max_len": max_len, "capacities": [0, 2, 3]}),
    );
}

fn op_random() -> BoxedStrategy<Op> {
    prop_oneof![
        10 => (prop_oneof![2 => 0u64..4, 3 => 1u64..40, 1 => 0u64..600], 0u8..9, any::<bool>(), any::<bool>())
            .prop_map(|(data_len, overhead, last, send)| Op::Push { data_len, overhead, last, send }),
        5 => any::<u16>().prop_map(|sel| Op::ResumeAt { sel }),
        1 => (0u32..3, 0u64..100).prop_map(|(file, off)| Op::Resume { file, off }),
        1 => (0u32..3).prop_map(Op::Advance),
        2 => Just(Op::WaitReconnect),
        2 => (0u32..2, 0u64..200).prop_map(|(file, off)| Op::Ack { file, off }),
        1 => (0u8..2).prop_map(Op::Cancel).prop_filter("rare cancel", |_| true),
    ]
    .boxed()
}

fn hist_random() -> BoxedStrategy<Hist> {
    (
        1u64..4096,
        prop_oneof![Just(0u64), 1u64..16, 1u64..200, 1u64..5000],
        prop::collection::vec(op_random(), 0..300),
    )
        .prop_map(|(window, capacity, ops)| Hist {
            window,
            capacity,
            ops: one_late_cancel(ops),
        })
        .boxed()
}

/// Keep at most one cancel, and only in the last quarter, so most of the history
/// exercises the ring rather than the refused-after-cancel path.
fn one_late_cancel(mut ops: Vec<Op>) -> Vec<Op> {
    let cut = ops.len() * 3 / 4;
    let mut seen = false;
    let mut i = 0;
    ops.retain(|op| {
        let keep = match op {
            Op::Cancel(_) => {
                let k = i >= cut && !seen;
                if k {
                    seen = true;
                }
                k
            }
            _ => true,
        };
        i += 1;
        keep
    });
    ops
}

pub fn run(ctx: &Ctx, rep: &Report) {
    run_exhaustive(ctx, rep, ctx.tier.pick(5, 7));
    run_prop(ctx, rep, "random", ctx.tier.pick(20_000, 3_000_000), &|| hist_random(), &check_hist);
}

pub fn replay(sub: &str, case: &Value) -> Result<(), Fail> {
    match sub {
        "exhaustive" | "random" => replay_case::<Hist>(case, &check_hist),
        _ => Err(Fail::new("replay-unknown-sub", sub.to_string())),
    }
}

pub fn fuzz_targets() -> Vec<crate::fuzz::Target> {
    use crate::fuzz::{U, from_bytes};
    fn op(u: &mut U) -> Op {
        match u.weighted(&[10, 5, 1, 1, 2, 2, 1]) {
            0 => Op::Push {
                data_len: match u.weighted(&[2, 3, 1]) {
                    0 => u.below(4),
                    1 => u.range(1, 40),
                    _ => u.below(600),
                },
                overhead: u.below(9) as u8,
                last: u.bool(),
                send: u.bool(),
            },
            1 => Op::ResumeAt { sel: u.u16() },
            2 => Op::Resume {
                file: u.below(3) as u32,
                off: u.below(100),
            },
            3 => Op::Advance(u.below(3) as u32),
            4 => Op::WaitReconnect,
            5 => Op::Ack {
                file: u.below(2) as u32,
                off: u.below(200),
            },
            _ => Op::Cancel(u.below(2) as u8),
        }
    }
    vec![from_bytes(
        "c13_ring",
        "C13",
        "random",
        |data: &[u8]| {
            let mut u = U::new(data);
            let window = u.range(1, 4096);
            let capacity = match u.below(4) {
                0 => 0,
                1 => u.range(1, 16),
                2 => u.range(1, 200),
                _ => u.range(1, 5000),
            };
            Some(Hist {
                window,
                capacity,
                ops: one_late_cancel(u.vec(300, op)),
            })
        },
        check_hist,
    )]
}
