//! C04 — multiplexed calls each receive their own response, whatever the order.

use crate::engine::*;
use crate::ensure;
use crate::peers::net::*;
use crate::util::block_on_mt as block_on;
use proptest::prelude::*;
use repe::{AsyncClient, Client, WebSocketClient};
use serde::{Deserialize, Serialize};
use serde_json::{Value, json};
use std::collections::HashSet;
use std::sync::Arc;
use std::time::Duration;

pub const RULE: &str = "K concurrent calls (threads for Client, tasks for AsyncClient and WebSocketClient) on clones of one client, each to its own path /c/<k>, against a scripted peer whose script is a generated valid interleaving of {receive next request, answer the j-th received request} so replies overtake later requests, with injected unknown-id responses, duplicated responses and (WebSocket) notify frames reusing an in-flight id; all K! reply orders for K<=tier bound (exhaustive) plus random scripts up to K=64, and batch_json; oracle: call k returns the body carrying k, batch results are positionally aligned, every injected notify reaches the subscriber exactly once and no caller, all ids on the connection are pairwise distinct; (failed-body) a call whose body fails to serialize after it took its id, with other calls in flight before and after it: ids stay distinct and every other call gets its own response; non-trivial = K>=2 with reply order != request order, or at least one injected frame; distinct = case hash";

#[derive(Debug, Clone, Copy, Serialize, Deserialize, Hash, PartialEq, Eq)]
pub enum ClientKind {
    Blocking,
    Async,
    Ws,
}

#[derive(Debug, Clone, Copy, Serialize, Deserialize, Hash, PartialEq, Eq)]
pub enum Ev {
    Recv,
    /// Answer the j-th received request (arrival order).
    Answer(u8),
    UnknownId,
    /// Re-send the response of an already answered request.
    Dup(u8),
    /// (WebSocket) a server-pushed notify reusing the id of the j-th received,
    /// not yet answered request.
    NotifyReuse(u8),
}

#[derive(Debug, Clone, Serialize, Deserialize, Hash, PartialEq, Eq)]
pub struct Case {
    pub client: ClientKind,
    pub k: u8,
    pub script: Vec<Ev>,
    pub batch: bool,
    /// (WebSocket) no notification subscriber is registered: pushed notifies are
    /// dropped, and still must not reach any caller
    #[serde(default)]
    pub no_subscriber: bool,
}

const CALL_TIMEOUT: Duration = Duration::from_secs(10);

fn call_timeout() -> Duration {
    if failure_seen() {
        Duration::from_millis(500)
    } else {
        CALL_TIMEOUT
    }
}

/// Is the script a valid interleaving for K calls?
fn valid(script: &[Ev], k: u8) -> bool {
    let mut recv = 0u8;
    let mut answered = HashSet::new();
    for ev in script {
        match *ev {
            Ev::Recv => {
                if recv >= k {
                    return false;
                }
                recv += 1;
            }
            Ev::Answer(j) => {
                if j >= recv || !answered.insert(j) {
                    return false;
                }
            }
            Ev::Dup(j) => {
                if !answered.contains(&j) {
                    return false;
                }
            }
            Ev::NotifyReuse(j) => {
                if j >= recv || answered.contains(&j) {
                    return false;
                }
            }
            Ev::UnknownId => {}
        }
    }
    recv == k && answered.len() == k as usize
}

struct PeerLog {
    ids: Vec<u64>,
    /// k of each received request in arrival order
    ks: Vec<u64>,
    notifies_sent: Vec<u64>,
}

async fn run_peer<IO: FrameIo>(io: &mut IO, script: &[Ev]) -> Result<PeerLog, String> {
    let mut received: Vec<Frame> = Vec::new();
    let mut log = PeerLog {
        ids: Vec::new(),
        ks: Vec::new(),
        notifies_sent: Vec::new(),
    };
    let mut marker = 1000u64;
    for ev in script {
        match *ev {
            Ev::Recv => {
                let f = tokio::time::timeout(call_timeout(), io.recv())
                    .await
                    .map_err(|_| "peer: no request arrived within the watchdog".to_string())?
                    .map_err(|e| format!("peer recv: {e}"))?
                    .ok_or("peer: connection closed before all requests arrived")?;
                let k: u64 = f
                    .path()
                    .strip_prefix("/c/")
                    .and_then(|s| s.parse().ok())
                    .ok_or(format!("peer: unexpected path {:?}", f.path()))?;
                log.ids.push(f.header.id);
                log.ks.push(k);
                received.push(f);
            }
            Ev::Answer(j) | Ev::Dup(j) => {
                let f = &received[j as usize];
                let body = serde_json::to_vec(&json!({"k": log.ks[j as usize]})).unwrap();
                io.send(&response_frame(f, 0, 2, &body)).await.map_err(|e| format!("peer send: {e}"))?;
            }
            Ev::UnknownId => {
                // an id no request used (ids are small counters)
                let body = serde_json::to_vec(&json!({"k": 999_999})).unwrap();
                let id = 0xDEAD_0000_0000_0000u64 + marker;
                marker += 1;
                io.send(&frame_with(id, 0, b"/c/x", 1, &body, 2, 0))
                    .await
                    .map_err(|e| format!("peer send: {e}"))?;
            }
            Ev::NotifyReuse(j) => {
                let f = &received[j as usize];
                marker += 1;
                let body = serde_json::to_vec(&json!({"notify": marker})).unwrap();
                log.notifies_sent.push(marker);
                io.send(&frame_with(f.header.id, 1, b"/pushed", 1, &body, 2, 0))
                    .await
                    .map_err(|e| format!("peer send: {e}"))?;
            }
        }
    }
    Ok(log)
}

fn judge(
    c: &Case,
    results: Vec<Result<Value, String>>,
    log: &PeerLog,
    notifies_got: Option<Vec<u64>>,
) -> Result<(), Fail> {
    for (k, r) in results.iter().enumerate() {
        match r {
            Ok(v) => ensure!(
                v.get("k").and_then(Value::as_u64) == Some(k as u64),
                "wrong-response",
                "call {k} returned {v} (the response of another call or a notify); arrival order {:?}, script {:?}",
                log.ks,
                c.script
            ),
            Err(e) => {
                return Err(Fail::new(
                    "call-failed",
                    format!("call {k} failed: {e}; arrival order {:?}, script {:?}", log.ks, c.script),
                ));
            }
        }
    }
    let distinct: HashSet<u64> = log.ids.iter().copied().collect();
    ensure!(
        distinct.len() == log.ids.len(),
        "duplicate-request-ids",
        "request ids on one connection are not pairwise distinct: {:?}",
        log.ids
    );
    if let Some(got) = notifies_got {
        let mut a = got.clone();
        a.sort();
        let mut b = log.notifies_sent.clone();
        b.sort();
        ensure!(
            a == b,
            "notify-delivery",
            "subscriber received notifies {got:?}, peer pushed {:?}",
            log.notifies_sent
        );
    }
    Ok(())
}

pub fn check(c: &Case) -> CheckResult {
    if !valid(&c.script, c.k) {
        return Err(Fail::new("generator-bug", format!("invalid script {:?}", c.script)));
    }
    let k = c.k as usize;
    let reqs: Vec<(String, Value)> = (0..k).map(|i| (format!("/c/{i}"), json!({"k": i}))).collect();
    let (results, log, notifies): (Vec<Result<Value, String>>, PeerLog, Option<Vec<u64>>) = block_on(async {
        let (listener, addr) = listen().await.map_err(|e| Fail::new("harness-listen", e.to_string()))?;
        match c.client {
            ClientKind::Blocking => {
                let addr_s = addr.to_string();
                let client = tokio::task::spawn_blocking(move || Client::connect(addr_s))
                    .await
                    .unwrap()
                    .map_err(|e| Fail::new("harness-connect", e.to_string()))?;
                let mut io = accept_tcp(&listener).await.map_err(|e| Fail::new("harness-accept", e.to_string()))?;
                let callers: Vec<_> = if c.batch {
                    let cl = client.clone();
                    let reqs = reqs.clone();
                    vec![tokio::task::spawn_blocking(move || {
                        cl.batch_json_with_timeout(reqs, call_timeout())
                            .into_iter()
                            .map(|r| r.map_err(|e| e.to_string()))
                            .collect::<Vec<_>>()
                    })]
                } else {
                    reqs.iter()
                        .cloned()
                        .map(|(p, b)| {
                            let cl = client.clone();
                            tokio::task::spawn_blocking(move || {
                                vec![cl.call_json_with_timeout(p, &b, call_timeout()).map_err(|e| e.to_string())]
                            })
                        })
                        .collect()
                };
                let log = run_peer(&mut io, &c.script).await.map_err(|e| Fail::new("peer-script", e))?;
                let mut results = Vec::new();
                for h in callers {
                    results.extend(h.await.map_err(|_| Fail::new("panic", "caller panicked"))?);
                }
                io.close().await;
                Ok::<_, Fail>((results, log, None))
            }
            ClientKind::Async => {
                let client = AsyncClient::connect(addr).await.map_err(|e| Fail::new("harness-connect", e.to_string()))?;
                let mut io = accept_tcp(&listener).await.map_err(|e| Fail::new("harness-accept", e.to_string()))?;
                let callers: Vec<_> = if c.batch {
                    let cl = client.clone();
                    let reqs = reqs.clone();
                    vec![tokio::spawn(async move {
                        cl.batch_json_with_timeout(reqs, call_timeout())
                            .await
                            .into_iter()
                            .map(|r| r.map_err(|e| e.to_string()))
                            .collect::<Vec<_>>()
                    })]
                } else {
                    reqs.iter()
                        .cloned()
                        .map(|(p, b)| {
                            let cl = client.clone();
                            tokio::spawn(async move {
                                vec![cl.call_json_with_timeout(p, &b, call_timeout()).await.map_err(|e| e.to_string())]
                            })
                        })
                        .collect()
                };
                let log = run_peer(&mut io, &c.script).await.map_err(|e| Fail::new("peer-script", e))?;
                let mut results = Vec::new();
                for h in callers {
                    results.extend(h.await.map_err(|_| Fail::new("panic", "caller panicked"))?);
                }
                io.close().await;
                Ok((results, log, None))
            }
            ClientKind::Ws => {
                let url = format!("ws://{addr}");
                let (client, io) = tokio::join!(WebSocketClient::connect(&url), accept_ws(&listener));
                let client = client.map_err(|e| Fail::new("harness-connect", e.to_string()))?;
                let mut io = io.map_err(|e| Fail::new("harness-accept", e.to_string()))?;
                let mut rx = if c.no_subscriber {
                    None
                } else {
                    Some(client.subscribe_notifies().map_err(|_| Fail::new("harness-subscribe", "already subscribed"))?)
                };
                let callers: Vec<_> = if c.batch {
                    let cl = client.clone();
                    let reqs = reqs.clone();
                    vec![tokio::spawn(async move {
                        cl.batch_json_with_timeout(reqs, call_timeout())
                            .await
                            .into_iter()
                            .map(|r| r.map_err(|e| e.to_string()))
                            .collect::<Vec<_>>()
                    })]
                } else {
                    reqs.iter()
                        .cloned()
                        .map(|(p, b)| {
                            let cl = client.clone();
                            tokio::spawn(async move {
                                vec![cl.call_json_with_timeout(p, &b, call_timeout()).await.map_err(|e| e.to_string())]
                            })
                        })
                        .collect()
                };
                let log = run_peer(&mut io, &c.script).await.map_err(|e| Fail::new("peer-script", e))?;
                let mut results = Vec::new();
                for h in callers {
                    results.extend(h.await.map_err(|_| Fail::new("panic", "caller panicked"))?);
                }
                // End the connection, then drain the subscription to its end.
                io.close().await;
                let mut got = Vec::new();
                let Some(rx) = rx.as_mut() else {
                    drop(client);
                    return Ok((results, log, None));
                };
                loop {
                    match tokio::time::timeout(call_timeout(), rx.recv()).await {
                        Ok(Some(m)) => {
                            let v: Value = serde_json::from_slice(&m.body).unwrap_or(Value::Null);
                            got.push(v.get("notify").and_then(Value::as_u64).unwrap_or(0));
                        }
                        Ok(None) => break,
                        Err(_) => {
                            return Err(Fail::new(
                                "subscriber-no-eos",
                                "the notify subscription did not end after the connection closed",
                            ));
                        }
                    }
                }
                drop(client);
                Ok((results, log, Some(got)))
            }
        }
    })?;
    judge(c, results, &log, notifies)?;

    // Non-triviality: reply order differs from arrival order, or injected frames.
    let answers: Vec<u8> = c
        .script
        .iter()
        .filter_map(|e| match e {
            Ev::Answer(j) => Some(*j),
            _ => None,
        })
        .collect();
    let reordered = answers.windows(2).any(|w| w[0] > w[1]);
    let injected = c
        .script
        .iter()
        .any(|e| matches!(e, Ev::UnknownId | Ev::Dup(_) | Ev::NotifyReuse(_)));
    let overtakes = {
        // an Answer that happens before the last Recv
        let last_recv = c.script.iter().rposition(|e| matches!(e, Ev::Recv)).unwrap_or(0);
        c.script[..last_recv].iter().any(|e| matches!(e, Ev::Answer(_)))
    };
    Ok(CaseInfo::new((c.k >= 2 && reordered) || injected)
        .class(format!("{:?}", c.client))
        .class(if c.batch { "batch" } else { "calls" })
        .class(match c.k {
            0..=1 => "K<=1",
            2..=6 => "K=2-6",
            7..=16 => "K=7-16",
            _ => "K>16",
        })
        .class(if overtakes { "reply-overtakes-request" } else { "all-received-first" })
        .class(if injected { "injected-frames" } else { "plain" }))
}

/// Build a script from a reply permutation, eagerness bits and injections.
fn build_script(k: u8, order: &[u8], eager: &[bool], inject: &[(u8, u8)], ws: bool) -> Vec<Ev> {
    let mut script = Vec::new();
    let mut recv = 0u8;
    let mut answered: Vec<u8> = Vec::new();
    let mut oi = 0usize;
    let mut step = 0usize;
    while oi < order.len() {
        let target = order[oi];
        let can_answer = target < recv;
        let want_answer = eager.get(step).copied().unwrap_or(false);
        step += 1;
        if can_answer && (want_answer || recv == k) {
            script.push(Ev::Answer(target));
            answered.push(target);
            oi += 1;
        } else {
            script.push(Ev::Recv);
            recv += 1;
        }
        // injections keyed by position
        for (pos, kind) in inject {
            if *pos as usize == script.len() {
                match kind % 3 {
                    0 => script.push(Ev::UnknownId),
                    1 => {
                        if let Some(j) = answered.last() {
                            script.push(Ev::Dup(*j));
                        }
                    }
                    _ => {
                        if ws {
                            // an in-flight (received, unanswered) request
                            if let Some(j) = (0..recv).find(|j| !answered.contains(j)) {
                                script.push(Ev::NotifyReuse(j));
                            }
                        } else {
                            script.push(Ev::UnknownId);
                        }
                    }
                }
            }
        }
    }
    script
}

fn permutations(k: u8) -> Vec<Vec<u8>> {
    fn rec(cur: &mut Vec<u8>, used: &mut Vec<bool>, out: &mut Vec<Vec<u8>>) {
        if cur.len() == used.len() {
            out.push(cur.clone());
            return;
        }
        for i in 0..used.len() {
            if !used[i] {
                used[i] = true;
                cur.push(i as u8);
                rec(cur, used, out);
                cur.pop();
                used[i] = false;
            }
        }
    }
    let mut out = Vec::new();
    rec(&mut Vec::new(), &mut vec![false; k as usize], &mut out);
    out
}

pub fn exhaustive_cases(max_k: u8) -> Vec<Case> {
    let mut v = Vec::new();
    for client in [ClientKind::Blocking, ClientKind::Async, ClientKind::Ws] {
        for k in 1..=max_k {
            for p in permutations(k) {
                let mut script: Vec<Ev> = (0..k).map(|_| Ev::Recv).collect();
                script.extend(p.iter().map(|j| Ev::Answer(*j)));
                v.push(Case {
                    client,
                    k,
                    script,
                    batch: false,
                    no_subscriber: false,
                });
            }
        }
    }
    v
}

/// Largest batch the blocking client sends without queueing behind its own worker pool.
fn blocking_batch_limit() -> usize {
    let cores = std::thread::available_parallelism().map(|n| n.get()).unwrap_or(1);
    (4 * cores).min(32)
}

pub fn case() -> BoxedStrategy<Case> {
    (
        prop::sample::select(vec![ClientKind::Blocking, ClientKind::Async, ClientKind::Ws]),
        prop_oneof![4 => 2u8..8, 2 => 8u8..24, 1 => 24u8..=64],
        any::<bool>(),
    )
        .prop_flat_map(|(client, k, batch)| {
            (
                Just(client),
                Just(k),
                Just(batch),
                Just((0..k).collect::<Vec<u8>>()).prop_shuffle(),
                prop::collection::vec(any::<bool>(), 2 * k as usize),
                prop::collection::vec((0u8..(2 * k).min(120), 0u8..3), 0..6),
            )
        })
        .prop_map(|(client, k, batch, order, eager, inject)| {
            let script = build_script(k, &order, &eager, &inject, client == ClientKind::Ws);
            Case {
                client,
                k,
                script,
                // (the blocking client runs a batch on a bounded worker pool; the scripted peer
                // holds replies back, so large batches are generated for the async clients only)
                // For Client that pool is min(K, 4 x cores, 64) threads: a script may hold back all K
                // replies, so K must not exceed the pool of the machine the check runs on.
                batch: batch && (client != ClientKind::Blocking || (k as usize) <= blocking_batch_limit()),
                no_subscriber: client == ClientKind::Ws && order.first().is_some_and(|o| o % 3 == 0),
            }
        })
        .boxed()
}

// ---------------------------------------------- forwarded messages with caller ids

#[derive(Debug, Clone, Serialize, Deserialize, Hash, PartialEq, Eq)]
pub struct Forward {
    pub k: u8,
    /// ids of the prebuilt messages forwarded while the K calls are in flight
    pub forward_ids: Vec<u16>,
    pub order_seed: u64,
}

/// `AsyncClient::forward_message` sends a prebuilt message under its own id. An
/// id that collides with a request already in flight must be refused (two requests
/// with one id on one connection cannot be told apart) and must not disturb the
/// call that owns the id; everything else multiplexes as usual.
pub fn check_forward(c: &Forward) -> CheckResult {
    use repe::message::Message;
    let k = c.k as usize;
    let out: Result<bool, Fail> = block_on(async {
        let (listener, addr) = listen().await.map_err(|e| Fail::new("harness-listen", e.to_string()))?;
        let client = AsyncClient::connect(addr).await.map_err(|e| Fail::new("harness-connect", e.to_string()))?;
        let mut io = accept_tcp(&listener).await.map_err(|e| Fail::new("harness-accept", e.to_string()))?;
        let mut calls = Vec::new();
        for i in 0..k {
            let cl = client.clone();
            calls.push(tokio::spawn(async move {
                cl.call_json_with_timeout(format!("/c/{i}"), &json!({"k": i}), call_timeout()).await.map_err(|e| e.to_string())
            }));
        }
        // the peer collects the K requests first, so their ids are all in flight
        let mut frames = Vec::new();
        for _ in 0..k {
            match tokio::time::timeout(call_timeout(), io.recv()).await {
                Ok(Ok(Some(f))) => frames.push(f),
                _ => return Err(Fail::new("peer-script", "requests did not arrive")),
            }
        }
        let inflight: HashSet<u64> = frames.iter().map(|f| f.header.id).collect();
        // forwards: sequentially issued; a colliding id must be refused at once
        let mut fwd_handles = Vec::new();
        let mut used: HashSet<u64> = inflight.clone();
        let mut collided = false;
        for (n, fid) in c.forward_ids.iter().enumerate() {
            let id = *fid as u64;
            let msg = Message::builder()
                .id(id)
                .query_str(&format!("/c/{}", 500 + n))
                .query_format(repe::QueryFormat::JsonPointer)
                .body_json(&json!({"f": n}))
                .unwrap()
                .build();
            if used.contains(&id) {
                collided = true;
                let r = tokio::time::timeout(call_timeout(), client.forward_message_with_timeout(&msg, call_timeout())).await;
                match r {
                    Ok(Err(_)) => {}
                    Ok(Ok(_)) => {
                        return Err(Fail::new(
                            "duplicate-id-accepted",
                            format!("forward_message with id {id}, already in flight on this connection, was accepted"),
                        ));
                    }
                    Err(_) => return Err(Fail::new("call-failed", "a colliding forward neither failed nor returned")),
                }
            } else {
                used.insert(id);
                let cl = client.clone();
                fwd_handles.push((
                    500 + n,
                    id,
                    tokio::spawn(async move { cl.forward_message_with_timeout(&msg, call_timeout()).await.map_err(|e| e.to_string()) }),
                ));
                // wait until it has reached the peer: it is then certainly registered
                // as in flight before any later (possibly colliding) forward is issued
                match tokio::time::timeout(call_timeout(), io.recv()).await {
                    Ok(Ok(Some(f))) => frames.push(f),
                    _ => return Err(Fail::new("peer-script", "forwarded request did not arrive")),
                }
            }
        }
        let ids: Vec<u64> = frames.iter().map(|f| f.header.id).collect();
        let distinct: HashSet<u64> = ids.iter().copied().collect();
        ensure!(distinct.len() == ids.len(), "duplicate-request-ids", "ids on the wire are not distinct: {ids:?}");
        // answer everything in a shuffled order
        let mut order: Vec<usize> = (0..frames.len()).collect();
        let mut x = c.order_seed | 1;
        for i in (1..order.len()).rev() {
            x ^= x << 13;
            x ^= x >> 7;
            x ^= x << 17;
            order.swap(i, (x % (i as u64 + 1)) as usize);
        }
        for i in order {
            let f = &frames[i];
            let kk: u64 = f.path().strip_prefix("/c/").and_then(|s| s.parse().ok()).unwrap_or(u64::MAX);
            let body = serde_json::to_vec(&json!({"k": kk})).unwrap();
            io.send(&response_frame(f, 0, 2, &body)).await.map_err(|e| Fail::new("peer-script", e.to_string()))?;
        }
        for (i, h) in calls.into_iter().enumerate() {
            match h.await {
                Ok(Ok(v)) => ensure!(
                    v.get("k").and_then(Value::as_u64) == Some(i as u64),
                    "wrong-response",
                    "call {i} returned {v}"
                ),
                Ok(Err(e)) => {
                    return Err(Fail::new(
                        "call-failed",
                        format!("in-flight call {i} lost its response ({e}) after forwards with ids {:?} (in flight {inflight:?})", c.forward_ids),
                    ));
                }
                Err(_) => return Err(Fail::new("panic", "caller panicked")),
            }
        }
        for (kk, id, h) in fwd_handles {
            match h.await {
                Ok(Ok(Some(m))) => {
                    let v: Value = serde_json::from_slice(&m.body).unwrap_or(Value::Null);
                    ensure!(
                        m.header.id == id && v.get("k").and_then(Value::as_u64) == Some(kk as u64),
                        "wrong-response",
                        "forward {kk} (id {id}) returned id {} body {v}",
                        m.header.id
                    );
                }
                Ok(Ok(None)) => return Err(Fail::new("call-failed", "forward returned None for a request")),
                Ok(Err(e)) => return Err(Fail::new("call-failed", format!("forward {kk} (id {id}) failed: {e}"))),
                Err(_) => return Err(Fail::new("panic", "forward panicked")),
            }
        }
        io.close().await;
        Ok(collided)
    });
    let collided = out?;
    Ok(CaseInfo::new(collided || !c.forward_ids.is_empty())
        .class(if collided { "id-collision" } else { "no-collision" })
        .class("forward"))
}

fn forward_case() -> BoxedStrategy<Forward> {
    (1u8..8, prop::collection::vec(prop_oneof![2 => 1u16..10, 1 => 1000u16..1010], 0..6), any::<u64>())
        .prop_map(|(k, forward_ids, order_seed)| Forward {
            k,
            forward_ids,
            order_seed,
        })
        .boxed()
}

// -------------------------------------------- a request whose body fails to serialize

/// Serializing blocks until the gate opens and then fails.
struct GateBody(Arc<(std::sync::Mutex<(bool, bool)>, std::sync::Condvar)>); // (entered, released)

impl Serialize for GateBody {
    fn serialize<S: serde::Serializer>(&self, _s: S) -> Result<S::Ok, S::Error> {
        let (m, cv) = &*self.0;
        let mut g = m.lock().unwrap();
        g.0 = true;
        cv.notify_all();
        let deadline = std::time::Instant::now() + Duration::from_secs(10);
        while !g.1 {
            let now = std::time::Instant::now();
            if now >= deadline {
                break;
            }
            g = cv.wait_timeout(g, deadline - now).unwrap().0;
        }
        Err(serde::ser::Error::custom("injected serialization failure"))
    }
}

/// Call A takes its request id and then fails while building its body; meanwhile call
/// B was sent and is in flight; then call C is made. B and C are both in flight with
/// their own, distinct ids and each gets its own response, whatever A's failure did
/// to the id allocation.
#[derive(Debug, Clone, Serialize, Deserialize, Hash, PartialEq, Eq)]
pub struct FailedBody {
    pub client: ClientKind,
    /// how many calls are in flight when A fails
    pub inflight: u8,
    /// how many calls follow
    pub after: u8,
}

pub fn check_failed_body(c: &FailedBody) -> CheckResult {
    enum AnyIo {
        T(TcpIo),
        W(WsIo<tokio::net::TcpStream>),
    }
    impl AnyIo {
        async fn recv(&mut self) -> std::io::Result<Option<Frame>> {
            match self {
                AnyIo::T(io) => io.recv().await,
                AnyIo::W(io) => io.recv().await,
            }
        }
        async fn send(&mut self, b: &[u8]) -> std::io::Result<()> {
            match self {
                AnyIo::T(io) => io.send(b).await,
                AnyIo::W(io) => io.send(b).await,
            }
        }
    }
    enum Any {
        B(Client),
        A(AsyncClient),
        W(WebSocketClient),
    }
    let gate = Arc::new((std::sync::Mutex::new((false, false)), std::sync::Condvar::new()));
    let wait_entered = {
        let gate = gate.clone();
        move || {
            let (m, cv) = &*gate;
            let mut g = m.lock().unwrap();
            let deadline = std::time::Instant::now() + call_timeout();
            while !g.0 {
                let now = std::time::Instant::now();
                if now >= deadline {
                    return false;
                }
                g = cv.wait_timeout(g, deadline - now).unwrap().0;
            }
            true
        }
    };
    let nb = c.inflight.max(1) as usize;
    let nc = c.after.max(1) as usize;
    block_on(async {
        let (listener, addr) = listen().await.map_err(|e| Fail::new("harness-listen", e.to_string()))?;
        let (client, mut io) = match c.client {
            ClientKind::Blocking => {
                let a = addr.to_string();
                let cl = tokio::task::spawn_blocking(move || Client::connect(a)).await.unwrap().map_err(|e| Fail::new("harness-connect", e.to_string()))?;
                (Any::B(cl), AnyIo::T(accept_tcp(&listener).await.map_err(|e| Fail::new("harness-accept", e.to_string()))?))
            }
            ClientKind::Async => {
                let cl = AsyncClient::connect(addr).await.map_err(|e| Fail::new("harness-connect", e.to_string()))?;
                (Any::A(cl), AnyIo::T(accept_tcp(&listener).await.map_err(|e| Fail::new("harness-accept", e.to_string()))?))
            }
            ClientKind::Ws => {
                let url = format!("ws://{addr}");
                let (cl, io) = tokio::join!(WebSocketClient::connect(&url), accept_ws(&listener));
                let cl = cl.map_err(|e| Fail::new("harness-connect", e.to_string()))?;
                (Any::W(cl), AnyIo::W(io.map_err(|e| Fail::new("harness-accept", e.to_string()))?))
            }
        };
        let spawn_ok = |k: usize| -> tokio::task::JoinHandle<Result<Value, String>> {
            let path = format!("/f/{k}");
            let body = json!({"k": k});
            match &client {
                Any::B(cl) => {
                    let cl = cl.clone();
                    tokio::task::spawn_blocking(move || cl.call_json_with_timeout(path, &body, call_timeout()).map_err(|e| e.to_string()))
                }
                Any::A(cl) => {
                    let cl = cl.clone();
                    tokio::spawn(async move { cl.call_json_with_timeout(path, &body, call_timeout()).await.map_err(|e| e.to_string()) })
                }
                Any::W(cl) => {
                    let cl = cl.clone();
                    tokio::spawn(async move { cl.call_json_with_timeout(path, &body, call_timeout()).await.map_err(|e| e.to_string()) })
                }
            }
        };
        // A: takes its id, then blocks inside its body's Serialize impl (on a blocking
        // thread, so no runtime worker is held)
        let a_body = GateBody(gate.clone());
        let a_call: tokio::task::JoinHandle<Result<Value, String>> = match &client {
            Any::B(cl) => {
                let cl = cl.clone();
                tokio::task::spawn_blocking(move || cl.call_json_with_timeout("/f/a", &a_body, call_timeout()).map_err(|e| e.to_string()))
            }
            Any::A(cl) => {
                let cl = cl.clone();
                let h = tokio::runtime::Handle::current();
                tokio::task::spawn_blocking(move || h.block_on(async move { cl.call_json_with_timeout("/f/a", &a_body, call_timeout()).await.map_err(|e| e.to_string()) }))
            }
            Any::W(cl) => {
                let cl = cl.clone();
                let h = tokio::runtime::Handle::current();
                tokio::task::spawn_blocking(move || h.block_on(async move { cl.call_json_with_timeout("/f/a", &a_body, call_timeout()).await.map_err(|e| e.to_string()) }))
            }
        };
        let entered = tokio::task::spawn_blocking(wait_entered).await.unwrap();
        ensure!(entered, "harness-gate", "the failing call never reached its body's Serialize impl");
        // B...: sent and in flight
        let mut calls = Vec::new();
        let mut frames: Vec<Frame> = Vec::new();
        for k in 0..nb {
            calls.push((k, spawn_ok(k)));
            match tokio::time::timeout(call_timeout(), io.recv()).await {
                Ok(Ok(Some(f))) => frames.push(f),
                _ => return Err(Fail::new("peer-script", "an in-flight request did not reach the peer")),
            }
        }
        // A fails now
        {
            let (m, cv) = &*gate;
            m.lock().unwrap().1 = true;
            cv.notify_all();
        }
        let a_res = tokio::time::timeout(call_timeout(), a_call).await;
        ensure!(matches!(a_res, Ok(Ok(Err(_)))), "failed-body-call-outcome", "the call whose body cannot be serialized returned {a_res:?}");
        // C...: made after the failure, while B... are still in flight
        for k in nb..nb + nc {
            calls.push((k, spawn_ok(k)));
            match tokio::time::timeout(call_timeout(), io.recv()).await {
                Ok(Ok(Some(f))) => frames.push(f),
                _ => {
                    let (_, h) = calls.pop().unwrap();
                    let r = tokio::time::timeout(Duration::from_millis(500), h).await;
                    return Err(Fail::new(
                        "call-failed",
                        format!("{:?}: call {k}, made after another call's body failed to serialize, never reached the peer: {r:?}", c.client),
                    ));
                }
            }
        }
        let ids: Vec<u64> = frames.iter().map(|f| f.header.id).collect();
        let distinct: HashSet<u64> = ids.iter().copied().collect();
        ensure!(
            distinct.len() == ids.len(),
            "duplicate-id",
            "{:?}: requests in flight at the same time carry ids {ids:?} (a call whose body failed to serialize was made in between)",
            c.client
        );
        // answer in reverse order; everyone gets their own
        for f in frames.iter().rev() {
            let k: usize = f.path().strip_prefix("/f/").and_then(|s| s.parse().ok()).unwrap_or(usize::MAX);
            let body = serde_json::to_vec(&json!({"k": k})).unwrap();
            io.send(&response_frame(f, 0, 2, &body)).await.map_err(|e| Fail::new("peer-script", e.to_string()))?;
        }
        for (k, h) in calls {
            match tokio::time::timeout(call_timeout(), h).await {
                Ok(Ok(Ok(v))) => ensure!(v.get("k").and_then(Value::as_u64) == Some(k as u64), "wrong-response", "call {k} received {v}"),
                Ok(Ok(Err(e))) => return Err(Fail::new("call-failed", format!("{:?}: call {k} failed although the peer answered it: {e}", c.client))),
                _ => return Err(Fail::new("call-failed", format!("call {k} did not return"))),
            }
        }
        Ok(CaseInfo::new(true).class(format!("{:?}", c.client)))
    })
}

// ------------------------------------------- response overtakes the returning writer

/// The caller is held (verif-hooks probe `client.written`) right after its request
/// was flushed, until the scripted peer has answered and the client's reader has had
/// time to process that answer: the legitimate schedule in which the response is
/// handled before the calling thread/task gets to run again. The call must still
/// receive its own response.
#[derive(Debug, Clone, Serialize, Deserialize, Hash, PartialEq, Eq)]
pub struct Overtake {
    pub client: ClientKind,
    /// sequential calls on the one connection
    pub calls: u8,
    /// how long the caller stays held after the peer has written the response
    pub hold_ms: u8,
    /// calls (bitmask) for which the caller is held
    pub hold_mask: u8,
}

pub fn check_overtake(c: &Overtake) -> CheckResult {
    use std::sync::atomic::{AtomicU32, Ordering};
    use std::sync::mpsc;
    let (sent_tx, sent_rx) = mpsc::channel::<()>();
    let sent_rx = std::sync::Mutex::new(sent_rx);
    let armed = Arc::new(AtomicU32::new(0)); // 1 = hold the next "client.written"
    let hits = Arc::new(AtomicU32::new(0));
    let hold = Duration::from_millis(c.hold_ms as u64);
    let handler = {
        let armed = armed.clone();
        let hits = hits.clone();
        Arc::new(move |point: &'static str| {
            if point != "client.written" || armed.swap(0, Ordering::SeqCst) != 1 {
                return;
            }
            hits.fetch_add(1, Ordering::SeqCst);
            // wait until the peer has put the response on the wire, then give the
            // client's reader time to take it
            let _ = sent_rx.lock().unwrap().recv_timeout(Duration::from_secs(5));
            std::thread::sleep(hold);
        })
    };
    let n = c.calls.max(1) as usize;
    let results: Vec<Result<Value, String>> = crate::engine::probe::with_global_handler(handler, || {
        block_on(async {
            let (listener, addr) = listen().await.map_err(|e| Fail::new("harness-listen", e.to_string()))?;
            // the peer answers every request at once and reports that it has done so
            async fn peer<IO: FrameIo>(io: &mut IO, n: usize, sent: mpsc::Sender<()>) {
                for _ in 0..n {
                    let Ok(Ok(Some(f))) = tokio::time::timeout(call_timeout(), io.recv()).await else { return };
                    let body = serde_json::to_vec(&json!({"path": f.path()})).unwrap();
                    if io.send(&response_frame(&f, 0, 2, &body)).await.is_err() {
                        return;
                    }
                    let _ = sent.send(());
                }
            }
            let mask = c.hold_mask;
            let held_call = move |i: usize| u32::from(mask >> (i % 8) & 1 == 1);
            let out;
            match c.client {
                ClientKind::Blocking => {
                    let addr_s = addr.to_string();
                    let client = tokio::task::spawn_blocking(move || Client::connect(addr_s))
                        .await
                        .unwrap()
                        .map_err(|e| Fail::new("harness-connect", e.to_string()))?;
                    let mut io = accept_tcp(&listener).await.map_err(|e| Fail::new("harness-accept", e.to_string()))?;
                    let (armed, cl0) = (armed.clone(), client.clone());
                    let callers = async move {
                        let mut res = Vec::new();
                        for i in 0..n {
                            armed.store(held_call(i), Ordering::SeqCst);
                            let cl = cl0.clone();
                            let r = tokio::task::spawn_blocking(move || cl.call_json_with_timeout(format!("/o/{i}"), &json!({"i": i}), call_timeout()).map_err(|e| e.to_string()))
                                .await
                                .map_err(|_| Fail::new("panic", "caller panicked"))?;
                            res.push(r);
                        }
                        Ok::<_, Fail>(res)
                    };
                    let (res, _) = tokio::join!(callers, peer(&mut io, n, sent_tx.clone()));
                    out = res?;
                    drop(client);
                    io.close().await;
                }
                ClientKind::Async => {
                    let client = AsyncClient::connect(addr).await.map_err(|e| Fail::new("harness-connect", e.to_string()))?;
                    let mut io = accept_tcp(&listener).await.map_err(|e| Fail::new("harness-accept", e.to_string()))?;
                    let (armed, cl0) = (armed.clone(), client.clone());
                    let callers = async move {
                        let mut res = Vec::new();
                        for i in 0..n {
                            armed.store(held_call(i), Ordering::SeqCst);
                            let cl = cl0.clone();
                            // on its own task, so that the held worker thread is not the one driving the peer
                            let r = tokio::spawn(async move { cl.call_json_with_timeout(format!("/o/{i}"), &json!({"i": i}), call_timeout()).await.map_err(|e| e.to_string()) })
                                .await
                                .map_err(|_| Fail::new("panic", "caller panicked"))?;
                            res.push(r);
                        }
                        Ok::<_, Fail>(res)
                    };
                    let (res, _) = tokio::join!(callers, peer(&mut io, n, sent_tx.clone()));
                    out = res?;
                    drop(client);
                    io.close().await;
                }
                ClientKind::Ws => {
                    let url = format!("ws://{addr}");
                    let (client, io) = tokio::join!(WebSocketClient::connect(&url), accept_ws(&listener));
                    let client = client.map_err(|e| Fail::new("harness-connect", e.to_string()))?;
                    let mut io = io.map_err(|e| Fail::new("harness-accept", e.to_string()))?;
                    let (armed, cl0) = (armed.clone(), client.clone());
                    let callers = async move {
                        let mut res = Vec::new();
                        for i in 0..n {
                            armed.store(held_call(i), Ordering::SeqCst);
                            let cl = cl0.clone();
                            let r = tokio::spawn(async move { cl.call_json_with_timeout(format!("/o/{i}"), &json!({"i": i}), call_timeout()).await.map_err(|e| e.to_string()) })
                                .await
                                .map_err(|_| Fail::new("panic", "caller panicked"))?;
                            res.push(r);
                        }
                        Ok::<_, Fail>(res)
                    };
                    let (res, _) = tokio::join!(callers, peer(&mut io, n, sent_tx.clone()));
                    out = res?;
                    drop(client);
                    io.close().await;
                }
            }
            Ok::<_, Fail>(out)
        })
    })?;
    for (i, r) in results.iter().enumerate() {
        let v = r.as_ref().map_err(|e| {
            Fail::new(
                "overtaken-call-failed",
                format!(
                    "{:?}: call {i} failed although the peer answered it ({}held after its write): {e}",
                    c.client,
                    if c.hold_mask >> (i % 8) & 1 == 1 { "" } else { "not " }
                ),
            )
        })?;
        ensure!(
            v.get("path").and_then(Value::as_str) == Some(&format!("/o/{i}")),
            "wrong-response",
            "{:?}: call {i} received {v}",
            c.client
        );
    }
    let held = hits.load(Ordering::SeqCst);
    Ok(CaseInfo::new(held > 0).class(format!("{:?}", c.client)).class(format!("held={}", held.min(4))))
}

fn overtake_case() -> BoxedStrategy<Overtake> {
    (prop::sample::select(vec![ClientKind::Blocking, ClientKind::Async, ClientKind::Ws]), 1u8..5, prop_oneof![Just(0u8), 1u8..25], 1u8..16)
        .prop_map(|(client, calls, hold_ms, hold_mask)| Overtake {
            client,
            calls,
            hold_ms,
            hold_mask,
        })
        .boxed()
}

pub fn run(ctx: &Ctx, rep: &Report) {
    let fb: Vec<FailedBody> = [ClientKind::Blocking, ClientKind::Async, ClientKind::Ws]
        .into_iter()
        .flat_map(|client| [(1u8, 1u8), (1, 3), (3, 2)].into_iter().map(move |(inflight, after)| FailedBody { client, inflight, after }))
        .collect();
    run_enum(ctx, rep, "failed-body", &fb, true, &check_failed_body);
    // one case at a time: the probe handler is process-wide
    run_prop_threads(ctx, rep, "overtake", ctx.tier.pick(150, 6_000), 1, &|| overtake_case(), &check_overtake);
    run_prop(ctx, rep, "forward", ctx.tier.pick(600, 40_000), &|| forward_case(), &check_forward);
    let ex = exhaustive_cases(ctx.tier.pick(5, 6));
    run_enum(ctx, rep, "permutations", &ex, true, &check);
    run_prop(ctx, rep, "random", ctx.tier.pick(900, 120_000), &|| case(), &check);
}

pub fn replay(sub: &str, case: &serde_json::Value) -> Result<(), Fail> {
    match sub {
        "permutations" | "random" => replay_case::<Case>(case, &check),
        "forward" => replay_case::<Forward>(case, &check_forward),
        "overtake" => replay_case::<Overtake>(case, &check_overtake),
        "failed-body" => replay_case::<FailedBody>(case, &check_failed_body),
        _ => Err(Fail::new("replay-unknown-sub", sub.to_string())),
    }
}
