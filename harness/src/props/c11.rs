//! C11 — flow-control accounting never over-grants credit.

use super::stream_model::*;
use crate::engine::*;
use crate::gens::any_u64_mix;
use proptest::prelude::*;
use serde_json::Value;
use std::sync::atomic::{AtomicU64, Ordering};

pub const RULE: &str = "operation histories over {record_sent, push+send, record_ack(file,off), advance_to_file, request_resume, cancel(reason), wait_for_credit(len), wait_for_reconnect} run against a u128 reference model compared after every step (offsets(), cancel state, credit predicate probed with an expired deadline when the model says it does not fit and a 5 s deadline when it does); exhaustive over a 14-operation small-scope alphabet up to the tier's length, random histories up to 200 ops over 64-bit values with hostile acks, and a documented-loop producer simulation; non-trivial = history contains an ack after an advance, a resume attempt, or a cancel between a granted wait and the send; distinct = enumeration index / case hash";

const FLAGS: Flags = Flags {
    credit: true,
    ring: false,
};

/// The small-scope alphabet (window 2).
fn alphabet() -> Vec<Op> {
    vec![
        Op::Sent(1),
        Op::Sent(2),
        Op::Sent(3),
        Op::Ack { file: 0, off: 1 },
        Op::Ack { file: 0, off: 2 },
        Op::Ack { file: 0, off: 3 },
        Op::Ack { file: 1, off: 2 },
        Op::Advance(1),
        Op::Resume { file: 0, off: 1 },
        Op::Resume { file: 1, off: 0 },
        Op::Cancel(0),
        Op::Push {
            data_len: 1,
            overhead: 0,
            last: false,
            send: true,
        },
        Op::WaitCredit(1),
        Op::WaitCredit(2),
        Op::WaitReconnect,
    ]
}

fn decode(mut idx: u64, len: usize, alpha: &[Op]) -> Vec<Op> {
    let n = alpha.len() as u64;
    let mut ops = Vec::with_capacity(len);
    for _ in 0..len {
        ops.push(alpha[(idx % n) as usize].clone());
        idx /= n;
    }
    ops
}

fn nontrivial(st: &Stats) -> bool {
    st.ack_after_advance || st.resume_attempts > 0 || st.cancel_between_wait_and_send
}

fn check_hist(h: &Hist) -> CheckResult {
    let st = run_history(h, &FLAGS)?;
    let mut info = CaseInfo::new(nontrivial(&st));
    if st.ack_after_advance {
        info = info.class("ack-after-advance");
    }
    if st.resume_accepted > 0 {
        info = info.class("resume-accepted");
    }
    if st.cancel_between_wait_and_send {
        info = info.class("cancel-between-wait-and-send");
    }
    if st.credit_denied > 0 {
        info = info.class("credit-denied");
    }
    if st.credit_granted > 0 {
        info = info.class("credit-granted");
    }
    if st.hostile_ack {
        info = info.class("hostile-ack");
    }
    Ok(info)
}

/// Exhaustive small scope: all sequences of length 1..=max_len over the alphabet.
fn run_exhaustive(ctx: &Ctx, rep: &Report, max_len: usize) {
    let sub = "exhaustive";
    if !ctx.want(sub) {
        return;
    }
    let alpha = alphabet();
    let n = alpha.len() as u64;
    let evals = AtomicU64::new(0);
    let nontriv = AtomicU64::new(0);
    let denied = AtomicU64::new(0);
    let granted = AtomicU64::new(0);
    for len in 1..=max_len {
        let total = n.pow(len as u32);
        let threads = ctx.threads.max(1) as u64;
        std::thread::scope(|scope| {
            for w in 0..threads {
                let alpha = &alpha;
                let (evals, nontriv, denied, granted) = (&evals, &nontriv, &denied, &granted);
                scope.spawn(move || {
                    let mut e = 0u64;
                    let mut nt = 0u64;
                    let mut d = 0u64;
                    let mut g = 0u64;
                    let mut i = w;
                    while i < total && !failure_seen() {
                        let h = Hist {
                            window: 2,
                            capacity: 2,
                            ops: decode(i, len, alpha),
                        };
                        let res = std::panic::catch_unwind(std::panic::AssertUnwindSafe(|| {
                            run_history(&h, &FLAGS)
                        }));
                        match res {
                            Ok(Ok(st)) => {
                                e += 1;
                                if nontrivial(&st) {
                                    nt += 1;
                                    if nt <= 1 && w == 0 {
                                        rep.add_sample(sub, serde_json::to_value(&h).unwrap());
                                    }
                                }
                                d += st.credit_denied as u64;
                                g += st.credit_granted as u64;
                            }
                            Ok(Err(f)) => {
                                note_failure();
                                let small = shrink_history(&h, &FLAGS, &f.sig);
                                let f2 = run_history(&small, &FLAGS).err().unwrap_or(f);
                                rep.fail(sub, &serde_json::to_value(&small).unwrap(), &f2, ctx.seed);
                                break;
                            }
                            Err(_) => {
                                note_failure();
                                let small = shrink_history(&h, &FLAGS, "panic");
                                rep.fail(
                                    sub,
                                    &serde_json::to_value(&small).unwrap(),
                                    &Fail::new("panic", "panicked while running the history"),
                                    ctx.seed,
                                );
                                break;
                            }
                        }
                        i += threads;
                    }
                    evals.fetch_add(e, Ordering::Relaxed);
                    nontriv.fetch_add(nt, Ordering::Relaxed);
                    denied.fetch_add(d, Ordering::Relaxed);
                    granted.fetch_add(g, Ordering::Relaxed);
                });
            }
        });
        if rep.violations() > 0 {
            break;
        }
    }
    rep.add_evaluations(sub, evals.load(Ordering::Relaxed));
    rep.add_nontrivial_count(nontriv.load(Ordering::Relaxed));
    rep.add_class(sub, "credit-denied-probes", denied.load(Ordering::Relaxed));
    rep.add_class(sub, "credit-granted-probes", granted.load(Ordering::Relaxed));
    rep.set_exhaustive(sub, true);
    rep.set_extra(
        "exhaustive_scope",
        serde_json::json!({"alphabet": alpha, "max_len": max_len, "window": 2}),
    );
}

fn op_random() -> BoxedStrategy<Op> {
    // 64-bit values with hostile acks; producer-side offsets kept <= 2^63 and
    // chunk lengths <= 2^48 (the property's stated bounds).
    let off = prop_oneof![
        3 => 0u64..64,
        2 => any_u64_mix().prop_map(|x| x >> 1),
        1 => 0u64..(1 << 20),
    ];
    let hostile = prop_oneof![
        3 => 0u64..64,
        2 => any_u64_mix(),
        1 => Just(u64::MAX),
    ];
    let len = prop_oneof![3 => 1u64..16, 1 => 0u64..(1 << 20), 1 => Just(1u64 << 48)];
    prop_oneof![
        3 => off.clone().prop_map(Op::Sent),
        4 => (1u64..9, 0u8..3, any::<bool>(), any::<bool>()).prop_map(|(data_len, overhead, last, send)| Op::Push { data_len, overhead, last, send }),
        6 => (0u32..3, hostile).prop_map(|(file, off)| Op::Ack { file, off }),
        1 => (0u32..3).prop_map(Op::Advance),
        2 => (0u32..3, off).prop_map(|(file, off)| Op::Resume { file, off }),
        2 => any::<u16>().prop_map(|sel| Op::ResumeAt { sel }),
        1 => (0u8..3).prop_map(Op::Cancel),
        6 => len.prop_map(Op::WaitCredit),
        2 => Just(Op::WaitReconnect),
    ]
    .boxed()
}

fn hist_random() -> BoxedStrategy<Hist> {
    (
        prop_oneof![Just(0u64), 1u64..64, any_u64_mix()],
        prop_oneof![Just(0u64), 1u64..64, 0u64..4096],
        prop::collection::vec(op_random(), 0..200),
    )
        .prop_map(|(window, capacity, ops)| Hist {
            window,
            capacity,
            ops,
        })
        .boxed()
}

/// The documented producer loop under hostile acknowledgements: wait for credit
/// (expired deadline), on grant push+send, on denial apply the next ack.
fn hist_loop() -> BoxedStrategy<Hist> {
    (
        1u64..64,
        prop::collection::vec((1u64..96, 0u32..2, prop_oneof![0u64..256, any_u64_mix()], any::<bool>()), 1..80),
    )
        .prop_map(|(window, steps)| {
            let mut ops = Vec::new();
            for (len, file, ack, adv) in steps {
                ops.push(Op::WaitCredit(len));
                ops.push(Op::Push {
                    data_len: len,
                    overhead: 0,
                    last: false,
                    send: true,
                });
                ops.push(Op::Ack { file, off: ack });
                if adv && len % 7 == 0 {
                    ops.push(Op::Advance(1));
                }
            }
            Hist {
                window,
                capacity: 1 << 20,
                ops,
            }
        })
        .boxed()
}

/// Documented-loop check: a producer that only sends after a granted wait never
/// has more than max(window, one chunk) unacknowledged.
fn check_loop(h: &Hist) -> CheckResult {
    use repe::stream::TransferControl;
    use std::time::Instant;
    let tc = TransferControl::with_replay_capacity(h.window, h.capacity);
    let mut off = 0u64;
    let mut file = 0u32;
    let mut sent_model: u128 = 0;
    let mut acked_model: u128 = 0;
    let mut denied = 0;
    let mut oversized = false;
    let mut pending_len: Option<u64> = None;
    for (step, op) in h.ops.iter().enumerate() {
        match op {
            Op::WaitCredit(len) => {
                let r = tc.wait_for_credit(*len, Instant::now());
                pending_len = r.is_ok().then_some(*len);
                if r.is_err() {
                    denied += 1;
                }
            }
            Op::Push { data_len, .. } => {
                // Only send when the preceding wait granted credit.
                if pending_len.take() == Some(*data_len) {
                    tc.push_replay(off, *data_len, false, vec![0u8; *data_len as usize]);
                    off += *data_len;
                    tc.record_sent(off);
                    sent_model = off as u128;
                    let unacked = sent_model - acked_model;
                    let bound = (h.window as u128).max(*data_len as u128);
                    if *data_len > h.window {
                        oversized = true;
                    }
                    if unacked > bound {
                        return Err(Fail::new(
                            "loop-unacked-exceeds-window",
                            format!(
                                "step {step}: after sending a {data_len}-byte chunk the producer has {unacked} unacknowledged bytes (window {}, model acked {acked_model})",
                                h.window
                            ),
                        ));
                    }
                }
            }
            Op::Ack { file: f, off: a } => {
                tc.record_ack(*f, *a);
                if *f == file {
                    let capped = (*a as u128).min(sent_model);
                    if capped > acked_model {
                        acked_model = capped;
                    }
                }
            }
            Op::Advance(f) => {
                tc.advance_to_file(*f);
                file = *f;
                off = 0;
                sent_model = 0;
                acked_model = 0;
            }
            _ => {}
        }
    }
    Ok(CaseInfo::new(denied > 0)
        .class(if oversized { "oversized-chunk" } else { "fits-window" })
        .class(if denied > 0 { "backpressured" } else { "never-denied" }))
}

pub fn run(ctx: &Ctx, rep: &Report) {
    run_exhaustive(ctx, rep, ctx.tier.pick(5, 7));
    run_prop(ctx, rep, "random", ctx.tier.pick(20_000, 4_000_000), &|| hist_random(), &check_hist);
    run_prop(ctx, rep, "producer-loop", ctx.tier.pick(10_000, 1_500_000), &|| hist_loop(), &check_loop);
}

pub fn replay(sub: &str, case: &Value) -> Result<(), Fail> {
    match sub {
        "exhaustive" | "random" => replay_case::<Hist>(case, &check_hist),
        "producer-loop" => replay_case::<Hist>(case, &check_loop),
        _ => Err(Fail::new("replay-unknown-sub", sub.to_string())),
    }
}

pub fn fuzz_targets() -> Vec<crate::fuzz::Target> {
    use crate::fuzz::{U, from_bytes};
    // the same value classes as `op_random` / `hist_random`
    fn off(u: &mut U) -> u64 {
        match u.weighted(&[3, 2, 1]) {
            0 => u.below(64),
            1 => u.u64_mix() >> 1,
            _ => u.below(1 << 20),
        }
    }
    fn hostile(u: &mut U) -> u64 {
        match u.weighted(&[3, 2, 1]) {
            0 => u.below(64),
            1 => u.u64_mix(),
            _ => u64::MAX,
        }
    }
    fn op(u: &mut U) -> Op {
        match u.weighted(&[3, 4, 6, 1, 2, 2, 1, 6, 2]) {
            0 => Op::Sent(off(u)),
            1 => Op::Push {
                data_len: u.range(1, 9),
                overhead: u.below(3) as u8,
                last: u.bool(),
                send: u.bool(),
            },
            2 => Op::Ack {
                file: u.below(3) as u32,
                off: hostile(u),
            },
            3 => Op::Advance(u.below(3) as u32),
            4 => Op::Resume {
                file: u.below(3) as u32,
                off: off(u),
            },
            5 => Op::ResumeAt { sel: u.u16() },
            6 => Op::Cancel(u.below(3) as u8),
            7 => Op::WaitCredit(match u.weighted(&[3, 1, 1]) {
                0 => u.range(1, 16),
                1 => u.below(1 << 20),
                _ => 1 << 48,
            }),
            _ => Op::WaitReconnect,
        }
    }
    vec![from_bytes(
        "c11_flow",
        "C11",
        "random",
        |data: &[u8]| {
            let mut u = U::new(data);
            let window = match u.below(3) {
                0 => 0,
                1 => u.range(1, 64),
                _ => u.u64_mix(),
            };
            let capacity = match u.below(3) {
                0 => 0,
                1 => u.range(1, 64),
                _ => u.below(4096),
            };
            Some(Hist {
                window,
                capacity,
                ops: u.vec(200, op),
            })
        },
        check_hist,
    )]
}
