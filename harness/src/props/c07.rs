//! C07 — all dispatch paths and route shapes give the same answer.

use super::routerkit::*;
use crate::engine::*;
use crate::ensure;
use crate::oracle::ptr;
use proptest::prelude::*;
use repe::message::Message;
use repe::structs::{RepeStruct, StructResult};
use repe::{CallContext, ErrorCode, MessageView, QueryFormat, Registry, RepeError, Router};
use serde::{Deserialize, Serialize};
use serde_json::{Value, json};
use std::sync::{Arc, Mutex};

pub const RULE: &str = "(paths) every built-in handler kind x body-format code {0,1,2,3,4,0xFFFF} x body shape {well-formed, truncated, random, empty}, behind 0..3 forwarding middlewares registered at generated positions of a shuffled registration program: responses of handle / handle_with_ctx / handle_view on the Router::get handler must be equal after the documented query-echo normalisation, equal to the middleware-free router's, each middleware counter rises by exactly one, and every path sees the same handler invocations; (mounts) a recording RepeStruct and a registry with recording callables mounted at generated roots plus an exactly registered path inside the mount: reached iff path == root or extends it at '/', exact path wins, segments equal the independent RFC 6901 tokens of the remainder for depths 0..40; non-trivial = depth>16, or an escape, or an empty segment, or a near-miss prefix, or a malformed body; distinct = case hash";

// ------------------------------------------------------------------- paths

#[derive(Debug, Clone, Serialize, Deserialize, Hash, PartialEq, Eq)]
pub struct PathCase {
    pub kind: Kind,
    pub body_format: u16,
    pub shape: BodyShape,
    pub seed: u64,
    pub program: Vec<Step>,
    pub id: u64,
}

#[derive(Debug, Clone, PartialEq)]
struct Norm {
    id: u64,
    ec: u32,
    query: Vec<u8>,
    query_format: u16,
    body_format: u16,
    body: Vec<u8>,
    version: u8,
    notify: u8,
}

/// Apply the documented dispatch-layer rules to a handler result: an `Err` becomes
/// an error response with the error's code and text; an empty response query is
/// filled with the request's query.
fn normalise(res: Result<Message, RepeError>, req: &Message) -> Norm {
    match res {
        Ok(m) => Norm {
            id: m.header.id,
            ec: m.header.ec,
            query: if m.query.is_empty() {
                req.query.clone()
            } else {
                m.query.clone()
            },
            query_format: m.header.query_format,
            body_format: m.header.body_format,
            body: m.body,
            version: m.header.version,
            notify: m.header.notify,
        },
        Err(e) => Norm {
            id: req.header.id,
            ec: e.to_error_code() as u32,
            query: req.query.clone(),
            query_format: 0,
            body_format: repe::BodyFormat::Utf8 as u16,
            body: e.to_string().into_bytes(),
            version: 1,
            notify: 0,
        },
    }
}

fn request_for(c: &PathCase) -> Message {
    let body = make_body(c.kind, c.body_format, c.shape, c.seed);
    Message::builder()
        .id(c.id)
        .query_str(c.kind.path())
        .query_format(QueryFormat::JsonPointer)
        .body_bytes(body)
        .body_format_code(c.body_format)
        .build()
}

pub fn check_paths(c: &PathCase) -> CheckResult {
    let req = request_for(c);
    let wire = req.to_vec();
    let path = c.kind.path();
    let nmw = c
        .program
        .iter()
        .filter(|s| matches!(s, Step::Middleware(_)))
        .count();
    let no_mw: Vec<Step> = c
        .program
        .iter()
        .copied()
        .filter(|s| !matches!(s, Step::Middleware(_)))
        .collect();

    let run = |program: &[Step], mode: u8| -> Result<(Norm, Vec<Seen>, Vec<u64>), Fail> {
        let b = build(program);
        let h = b.router.get(path).ok_or_else(|| {
            Fail::new(
                "route-missing",
                format!("Router::get({path}) is None although the route was registered"),
            )
        })?;
        let ctx = CallContext::detached(path);
        let res = match mode {
            0 => h.handle(&req),
            1 => h.handle_with_ctx(&req, &ctx),
            _ => {
                let v = MessageView::from_slice(&wire).unwrap();
                h.handle_view(&v, &ctx)
            }
        };
        let hits = (0..b.probe.middleware_hits.len()).map(|i| b.probe.mw(i)).collect();
        Ok((normalise(res, &req), b.probe.take(), hits))
    };

    let (base, base_seen, _) = run(&no_mw, 0)?;
    // the documented decode contract, stated independently of the implementation
    if let Some(Err(code)) = decode_contract(c.kind, c.body_format, &req.body) {
        ensure!(
            base.ec == code && base_seen.is_empty(),
            "decode-contract",
            "kind {:?} body_format {} body {:?}: the documented contract demands code {code} without running the handler; got code {}, handler observations {:?}",
            c.kind,
            c.body_format,
            String::from_utf8_lossy(&req.body),
            base.ec,
            base_seen
        );
    }
    ensure!(base.id == c.id, "response-id", "response id {} != request id {}", base.id, c.id);
    for (mode, name) in [(0u8, "handle"), (1, "handle_with_ctx"), (2, "handle_view")] {
        let (n, seen, hits) = run(&c.program, mode)?;
        ensure!(
            n == base,
            format!("{name}-differs"),
            "kind {:?} body_format {} shape {:?}: {name} behind {nmw} middlewares gave {:?}, plain handle on the middleware-free router gave {:?}",
            c.kind,
            c.body_format,
            c.shape,
            n,
            base
        );
        ensure!(
            seen == base_seen,
            format!("{name}-invocations-differ"),
            "{name}: handler observations {:?} != {:?}",
            seen,
            base_seen
        );
        for (i, hcount) in hits.iter().enumerate() {
            ensure!(
                *hcount == 1,
                "middleware-count",
                "{name}: middleware {i} ran {hcount} times for one dispatched request to {path} (program {:?})",
                c.program
            );
        }
        // the zero-middleware router on the other two paths as well
        let (n0, seen0, _) = run(&no_mw, mode)?;
        ensure!(
            n0 == base,
            format!("{name}-differs"),
            "kind {:?}: {name} without middleware gave {:?}, handle gave {:?}",
            c.kind,
            n0,
            base
        );
        ensure!(seen0 == base_seen, format!("{name}-invocations-differ"), "{name} (no middleware) observations differ");
    }
    let malformed = c.shape != BodyShape::WellFormed;
    Ok(CaseInfo::new(malformed || nmw > 0)
        .class(format!("{:?}", c.kind))
        .class(format!("fmt={}", body_format_name(c.body_format)))
        .class(format!("{:?}", c.shape))
        .class(format!("mw={nmw}"))
        .class(if base.ec == 0 { "ok-response" } else { "error-response" }))
}

fn path_case() -> BoxedStrategy<PathCase> {
    (
        prop::sample::select(KINDS.to_vec()),
        prop::sample::select(vec![0u16, 1, 2, 3, 4, 0xFFFF]),
        prop::sample::select(vec![
            BodyShape::WellFormed,
            BodyShape::WellFormed,
            BodyShape::Truncated,
            BodyShape::Random,
            BodyShape::Empty,
            BodyShape::BadUtf8Json,
        ]),
        any::<u64>(),
        (0u8..=3).prop_flat_map(|n| Just(default_program(n)).prop_shuffle()),
        crate::gens::any_u64_mix(),
    )
        .prop_map(|(kind, body_format, shape, seed, program, id)| PathCase {
            kind,
            body_format,
            shape,
            seed,
            program,
            id,
        })
        .boxed()
}

// ------------------------------------------------------------------ mounts

// (index 9 is the exactly registered route's name; 10.. are tokens whose escaped form
// contains "~01", which decodes correctly only if "~1" is handled before "~0")
const SEG_TOKENS: [&str; 13] = ["a", "b", "", "0", "x/y", "m~n", "~", "~~", "//", "exact", "~1", "a~1b", "~0"];
const ROOT_TOKENS: [&str; 4] = ["api", "v1", "a", "st"];

#[derive(Debug, Clone, Serialize, Deserialize, Hash, PartialEq, Eq)]
pub enum Target {
    /// root + escaped tokens
    Under(Vec<u8>),
    /// root with extra characters glued on (no '/' boundary), then tokens
    NearMiss { glue: u8, toks: Vec<u8> },
    /// the exactly registered path inside the mount
    Exact,
    /// a strict prefix of the root (drop the last k bytes)
    RootPrefix(u8),
    /// root followed by a single "/" (one empty reference token)
    TrailingSlash,
}

#[derive(Debug, Clone, Serialize, Deserialize, Hash, PartialEq, Eq)]
pub struct MountCase {
    pub root: Vec<u8>,
    pub root_no_slash: bool,
    pub target: Target,
    pub with_body: bool,
    pub exact_first: bool,
    pub registry: bool,
    pub middlewares: u8,
    pub view: bool,
}

struct Rec {
    seen: Arc<Mutex<Vec<(Vec<String>, Option<Value>)>>>,
}

impl RepeStruct for Rec {
    fn repe_handle(&mut self, segments: &[&str], body: Option<Value>) -> StructResult<Option<Value>> {
        self.seen
            .lock()
            .unwrap()
            .push((segments.iter().map(|s| s.to_string()).collect(), body.clone()));
        Ok(Some(json!("struct")))
    }
}

struct ExactMarker;

impl repe::server::HandlerErased for ExactMarker {
    fn handle(&self, req: &Message) -> Result<Message, RepeError> {
        Ok(Message::builder()
            .id(req.header.id)
            .body_bytes(b"exact".to_vec())
            .body_format_code(0x7003)
            .build())
    }
}

const GLUE: [&str; 4] = ["X", "x", "~0", "0"];

pub fn check_mounts(c: &MountCase) -> CheckResult {
    let root_toks: Vec<String> = c.root.iter().map(|i| ROOT_TOKENS[*i as usize % 4].to_string()).collect();
    let norm_root = ptr::build(&root_toks); // "" for the empty root
    let root_raw = if c.root_no_slash && !norm_root.is_empty() {
        norm_root[1..].to_string()
    } else if norm_root.is_empty() && c.root_no_slash {
        "/".to_string()
    } else {
        norm_root.clone()
    };
    let exact_path = format!("{norm_root}/exact");
    let toks_of = |v: &Vec<u8>| -> Vec<String> { v.iter().map(|i| SEG_TOKENS[*i as usize % SEG_TOKENS.len()].to_string()).collect() };
    let path = match &c.target {
        Target::Under(t) => format!("{norm_root}{}", ptr::build(&toks_of(t))),
        Target::NearMiss { glue, toks } => {
            if norm_root.is_empty() {
                // nothing can "miss" the root mount; degrade to an ordinary path
                ptr::build(&toks_of(toks))
            } else {
                format!("{norm_root}{}{}", GLUE[*glue as usize % 4], ptr::build(&toks_of(toks)))
            }
        }
        Target::Exact => exact_path.clone(),
        Target::RootPrefix(k) => {
            let n = norm_root.len().saturating_sub(1 + *k as usize % 3);
            let mut p = norm_root[..n].to_string();
            while !norm_root.is_char_boundary(p.len()) {
                p.pop();
            }
            p
        }
        Target::TrailingSlash => format!("{norm_root}/"),
    };

    // --- build the router: mount + exact route, in either order, + middlewares
    let seen: Arc<Mutex<Vec<(Vec<String>, Option<Value>)>>> = Arc::new(Mutex::new(Vec::new()));
    let fn_seen: Arc<Mutex<Vec<(String, Option<Value>)>>> = Arc::new(Mutex::new(Vec::new()));
    let mw_hits = Arc::new(std::sync::atomic::AtomicU64::new(0));
    let registry = Arc::new(Registry::new());
    // callables at a few token lists (escaped tokens and depth)
    let fn_tokens: Vec<Vec<String>> = vec![
        vec!["a".into()],
        vec!["x/y".into(), "m~n".into()],
        vec!["b".into(), "0".into(), "~".into()],
        (0..17).map(|_| "a".to_string()).collect(),
    ];
    for t in &fn_tokens {
        let fs = fn_seen.clone();
        let name = ptr::build(t);
        registry
            .register_function(&name.clone(), move |params: Option<Value>| {
                fs.lock().unwrap().push((name.clone(), params));
                Ok(json!("registry-fn"))
            })
            .map_err(|e| Fail::new("register_function-error", e.to_string()))?;
    }
    let mut r = Router::new();
    let add_mw = |r: Router, n: u8| -> Router {
        let mut r = r;
        for _ in 0..n {
            let h = mw_hits.clone();
            r = r.with_middleware(move |req: &Message, next: repe::Next<'_>| {
                h.fetch_add(1, std::sync::atomic::Ordering::SeqCst);
                next.run(req)
            });
        }
        r
    };
    // half of the middlewares before everything, half after
    r = add_mw(r, c.middlewares / 2);
    let add_exact = |r: Router| r.with_erased_handler(&exact_path, Arc::new(ExactMarker));
    let add_mount = |r: Router| -> Router {
        if c.registry {
            r.with_registry(&root_raw, registry.clone())
        } else {
            r.with_struct(&root_raw, Rec { seen: seen.clone() }).0
        }
    };
    r = if c.exact_first {
        add_mount(add_exact(r))
    } else {
        add_exact(add_mount(r))
    };
    r = add_mw(r, c.middlewares - c.middlewares / 2);

    // --- reference predicate
    let in_mount = norm_root.is_empty()
        || path == norm_root
        || (path.starts_with(&norm_root) && path[norm_root.len()..].starts_with('/'));
    let is_exact = path == exact_path;

    let body_val = json!({"k": [1, 2]});
    let mut b = Message::builder().id(5).query_str(&path).query_format(QueryFormat::JsonPointer);
    if c.with_body {
        b = b.body_json(&body_val).unwrap();
    }
    let req = b.build();
    let got = r.get(&path);
    let near_miss = matches!(c.target, Target::NearMiss { .. } | Target::RootPrefix(_)) && !norm_root.is_empty();

    if !in_mount && !is_exact {
        ensure!(
            got.is_none(),
            "mount-reached-outside-prefix",
            "path {path:?} is neither {norm_root:?} nor an extension of it at a '/', yet Router::get returned a handler"
        );
        return Ok(CaseInfo::new(near_miss).class("outside-mount"));
    }
    let h = got.ok_or_else(|| {
        Fail::new(
            "mount-not-reached",
            format!("path {path:?} is inside mount {norm_root:?} (or exact) but Router::get returned None"),
        )
    })?;
    let wire = req.to_vec();
    let ctx = CallContext::detached(&path);
    let resp = if c.view {
        h.handle_view(&MessageView::from_slice(&wire).unwrap(), &ctx)
    } else {
        h.handle(&req)
    }
    .map_err(|e| Fail::new("mount-handler-error", e.to_string()))?;
    let hits = mw_hits.load(std::sync::atomic::Ordering::SeqCst);
    ensure!(
        hits == c.middlewares as u64,
        "middleware-count",
        "{} middlewares registered around the mount, {hits} ran for a request to {path:?}",
        c.middlewares
    );
    let seen_now = std::mem::take(&mut *seen.lock().unwrap());
    let fn_now = std::mem::take(&mut *fn_seen.lock().unwrap());
    if is_exact {
        ensure!(
            resp.body == b"exact" && resp.header.body_format == 0x7003 && seen_now.is_empty() && fn_now.is_empty(),
            "exact-not-preferred",
            "exactly registered path {path:?} was answered by the mount: response body {:?}, struct saw {seen_now:?}, registry saw {fn_now:?}",
            String::from_utf8_lossy(&resp.body)
        );
        return Ok(CaseInfo::new(true).class("exact-inside-mount"));
    }
    let remainder = &path[norm_root.len()..];
    let depth;
    if c.registry {
        // "" and "/" address the registry root; otherwise the tokens select a callable or not
        let want_tokens = if remainder.is_empty() || remainder == "/" {
            Some(vec![])
        } else {
            ptr::tokenize(remainder)
        };
        let want_tokens = want_tokens.ok_or_else(|| Fail::new("oracle-self", "generated path is malformed"))?;
        depth = want_tokens.len();
        let target_fn = fn_tokens.iter().find(|t| **t == want_tokens);
        if c.with_body && target_fn.is_some() {
            let name = ptr::build(target_fn.unwrap());
            ensure!(
                fn_now == vec![(name.clone(), Some(body_val.clone()))],
                "registry-fn-invocation",
                "callable at {name} should have been invoked exactly once with the body; saw {fn_now:?} (path {path:?})"
            );
        } else {
            ensure!(
                fn_now.is_empty(),
                "registry-fn-invocation",
                "no callable lives at tokens {want_tokens:?} (or the body is empty) but {fn_now:?} ran (path {path:?})"
            );
        }
    } else {
        let want_tokens = if remainder.is_empty() {
            vec![]
        } else {
            ptr::tokenize(remainder).ok_or_else(|| Fail::new("oracle-self", "generated path is malformed"))?
        };
        depth = want_tokens.len();
        let want_body = c.with_body.then(|| body_val.clone());
        ensure!(
            seen_now == vec![(want_tokens.clone(), want_body.clone())],
            "struct-segments",
            "struct mounted at {root_raw:?} saw {seen_now:?} for path {path:?}; expected exactly one call with segments {want_tokens:?} and body {want_body:?}"
        );
        ensure!(resp.header.ec == 0, "struct-response", "struct response ec {}", resp.header.ec);
    }
    let escaped = remainder.contains('~');
    let empty_seg = remainder.contains("//") || remainder.ends_with('/');
    Ok(CaseInfo::new(depth > 16 || escaped || empty_seg)
        .class(match depth {
            0 => "depth=0",
            1..=14 => "depth=1-14",
            15 => "depth=15",
            16 => "depth=16",
            17 => "depth=17",
            _ => "depth>17",
        })
        .class(if c.registry { "registry-mount" } else { "struct-mount" })
        .class(if escaped { "escaped" } else { "plain" }))
}

fn seg_tokens() -> BoxedStrategy<Vec<u8>> {
    // token index 9 ("exact") excluded from random segment lists so Under never hits the exact route by accident... unless alone
    let tok = prop_oneof![5 => 0u8..9, 2 => 10u8..13];
    prop_oneof![
        3 => prop::collection::vec(tok.clone(), 0..4),
        2 => prop::collection::vec(tok.clone(), 4..14),
        3 => prop::collection::vec(tok.clone(), 14..19),
        1 => prop::collection::vec(tok.clone(), 19..41),
        2 => prop::collection::vec(prop_oneof![Just(0u8), Just(1u8), Just(3u8)], 14..19),
    ]
    .boxed()
}

fn mount_case() -> BoxedStrategy<MountCase> {
    let target = prop_oneof![
        10 => seg_tokens().prop_map(Target::Under),
        3 => (0u8..4, seg_tokens()).prop_map(|(glue, toks)| Target::NearMiss { glue, toks }),
        1 => Just(Target::Exact),
        1 => (0u8..3).prop_map(Target::RootPrefix),
        1 => Just(Target::TrailingSlash),
    ];
    (
        prop::collection::vec(0u8..4, 0..3),
        any::<bool>(),
        target,
        any::<bool>(),
        any::<bool>(),
        any::<bool>(),
        0u8..4,
        any::<bool>(),
    )
        .prop_map(
            |(root, root_no_slash, target, with_body, exact_first, registry, middlewares, view)| MountCase {
                root,
                root_no_slash,
                target,
                with_body,
                exact_first,
                registry,
                middlewares,
                view,
            },
        )
        .boxed()
}

pub fn run(ctx: &Ctx, rep: &Report) {
    run_prop(ctx, rep, "paths", ctx.tier.pick(12_000, 3_000_000), &|| path_case(), &check_paths);
    run_prop(ctx, rep, "mounts", ctx.tier.pick(30_000, 6_000_000), &|| mount_case(), &check_mounts);
}

pub fn replay(sub: &str, case: &Value) -> Result<(), Fail> {
    match sub {
        "paths" => replay_case::<PathCase>(case, &check_paths),
        "mounts" => replay_case::<MountCase>(case, &check_mounts),
        _ => Err(Fail::new("replay-unknown-sub", sub.to_string())),
    }
}

#[allow(dead_code)]
fn _unused(_: ErrorCode) {}

pub fn fuzz_targets() -> Vec<crate::fuzz::Target> {
    use crate::fuzz::{U, from_bytes};
    fn toks(u: &mut U) -> Vec<u8> {
        // same token alphabet as `seg_tokens` (index 9, the exact route's name, excluded)
        u.vec(40, |u| {
            let t = u.below(12) as u8;
            if t >= 9 { t + 1 } else { t }
        })
    }
    vec![from_bytes(
        "c07_mounts",
        "C07",
        "mounts",
        |data: &[u8]| {
            let mut u = U::new(data);
            let root = u.vec(2, |u| u.below(4) as u8);
            let root_no_slash = u.bool();
            let with_body = u.bool();
            let exact_first = u.bool();
            let registry = u.bool();
            let middlewares = u.below(4) as u8;
            let view = u.bool();
            let target = match u.weighted(&[10, 3, 1, 1, 1]) {
                0 => Target::Under(toks(&mut u)),
                1 => Target::NearMiss {
                    glue: u.below(4) as u8,
                    toks: toks(&mut u),
                },
                2 => Target::Exact,
                3 => Target::RootPrefix(u.below(3) as u8),
                _ => Target::TrailingSlash,
            };
            Some(MountCase {
                root,
                root_no_slash,
                target,
                with_body,
                exact_first,
                registry,
                middlewares,
                view,
            })
        },
        check_mounts,
    )]
}
