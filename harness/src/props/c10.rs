//! C10 — a failed or interrupted pull never publishes a file, and never a partial one.

use super::c09;
use crate::engine::*;
use crate::ensure;
use crate::gens::fill;
use crate::oracle::codec::{self, OHeader};
use crate::peers::net::frame_with;
use proptest::prelude::*;
use repe::value_stream::*;
use repe::{AsyncClient, Client, RepeError, Server};
use serde::{Deserialize, Serialize};
use std::io::{Read, Write};
use std::net::{SocketAddr, TcpListener, TcpStream};
use std::path::{Path, PathBuf};
use std::sync::atomic::{AtomicUsize, Ordering};
use std::time::Duration;

pub const RULE: &str = "(failures, in-process) puller in {pull_to_file, pull_to_beve_file, pull_to_beve_zst_file, pull_to_file_trailer_verified, pull_to_file_async, pull_to_file_verified_async, pull_to_file_trailer_verified_async, pull_value, pull_to_vec(+async)} x failure in {none, producer failure after byte n (chunk boundary +-1), connection cut after the k-th response for every k (harness-owned scripted SVS server), rejecting verifier, trailer longer than the stream, output incompatible with the stream's compression/format} x destination {absent, pre-existing sentinel} x compression {none, zstd}; oracle: failure => Err, destination byte-identical to its prior state, no .svspart sibling; success => destination == complete logical content (trailer stripped), no temp file; value pulls under truncation => Err; (crash points) the sequence of commit-path probe hits (per fetched chunk, before flush, before sync, before rename, after rename) is recorded, then for each hit index a child process runs the same pull and _exit()s there: before the rename point the destination is unchanged, after it the destination holds the complete content; (kill) a child pulling a paced multi-chunk stream is SIGKILLed at a generated time: destination unchanged or complete; after every interrupted pull (crash point or SIGKILL) a second, successful pull of different, shorter content to the same destination must publish exactly that content; non-trivial = failure strictly inside the stream, or a pre-existing destination, or a crash between the first chunk and the rename; distinct = case hash";

#[derive(Debug, Clone, Copy, Serialize, Deserialize, Hash, PartialEq, Eq)]
pub enum Puller {
    ToFile,
    ToBeveFile,
    ToBeveZstFile,
    TrailerVerified,
    ToFileAsync,
    VerifiedAsync,
    TrailerVerifiedAsync,
    Value,
    ToVec,
    ToVecAsync,
}

const FILE_PULLERS: [Puller; 7] = [
    Puller::ToFile,
    Puller::ToBeveFile,
    Puller::ToBeveZstFile,
    Puller::TrailerVerified,
    Puller::ToFileAsync,
    Puller::VerifiedAsync,
    Puller::TrailerVerifiedAsync,
];

#[derive(Debug, Clone, Copy, Serialize, Deserialize, Hash, PartialEq, Eq)]
pub enum Failure {
    None,
    /// producer (reader/writer kind) fails after n logical bytes
    ProducerFails(u32),
    /// the scripted server closes the connection after k responses (open counts as the first)
    CutAfter(u16),
    RejectingVerifier,
    TrailerTooLong,
    /// the stream's tags do not fit the chosen output
    IncompatibleOutput,
}

#[derive(Debug, Clone, Serialize, Deserialize, Hash, PartialEq, Eq)]
pub struct Case {
    pub puller: Puller,
    pub failure: Failure,
    pub preexisting: bool,
    pub zstd: bool,
    pub len: u32,
    pub chunk: u32,
    pub seed: u64,
    pub trailer_len: u8,
}

static SCRATCH_SEQ: AtomicUsize = AtomicUsize::new(0);

fn scratch_dir() -> PathBuf {
    let base = std::env::var_os("VERIF_SCRATCH").map(PathBuf::from).unwrap_or_else(|| verif_root().join("harness/target/scratch"));
    let d = base.join(format!("c10-{}-{}", std::process::id(), SCRATCH_SEQ.fetch_add(1, Ordering::SeqCst)));
    let _ = std::fs::create_dir_all(&d);
    d
}

const SENTINEL: &[u8] = b"previous content that must survive a failed pull\n";

fn svspart(p: &Path) -> PathBuf {
    let mut n = p.file_name().unwrap().to_os_string();
    n.push(".svspart");
    p.with_file_name(n)
}

/// The logical content the pull should produce for this case.
fn content(c: &Case) -> Vec<u8> {
    fill(c.len as usize, c.seed)
}

// ---------------------------------------------------------- scripted SVS server

#[derive(Serialize, Deserialize)]
struct OpenResponse {
    version: u8,
    stream_id: u64,
    format: u16,
    compression: u8,
}

fn read_frame(s: &mut TcpStream) -> Option<(OHeader, Vec<u8>)> {
    let mut hdr = [0u8; 48];
    s.read_exact(&mut hdr).ok()?;
    let h = OHeader::raw(&hdr);
    if !h.consistent() || h.declared_total() > (1 << 26) {
        return None;
    }
    let mut rest = vec![0u8; (h.declared_total() - 48) as usize];
    s.read_exact(&mut rest).ok()?;
    Some((h, rest[..h.query_length as usize].to_vec()))
}

/// A harness-owned SVS producer (independent of the library's): serves `wire`
/// (already compressed if `zstd`) in `chunk`-byte chunks and closes the connection
/// after `cut_after` responses (None = never).
fn scripted_svs_server(wire: Vec<u8>, chunk: usize, format: u16, zstd: bool, cut_after: Option<usize>) -> SocketAddr {
    let l = TcpListener::bind(crate::util::lo0().as_str()).unwrap();
    let addr = l.local_addr().unwrap();
    std::thread::spawn(move || {
        let Ok((mut s, _)) = l.accept() else { return };
        let _ = s.set_nodelay(true);
        let mut responses = 0usize;
        let mut pos = 0usize;
        loop {
            if cut_after.is_some_and(|k| responses >= k) {
                let _ = s.shutdown(std::net::Shutdown::Both);
                return;
            }
            let Some((h, q)) = read_frame(&mut s) else { return };
            if h.notify != 0 {
                continue; // cancel notifies
            }
            let reply = match q.as_slice() {
                b"/_svs/open" => {
                    let body = beve::to_vec(&OpenResponse {
                        version: 1,
                        stream_id: 42,
                        format,
                        compression: zstd as u8,
                    })
                    .unwrap();
                    frame_with(h.id, 0, &q, 1, &body, 1, 0)
                }
                b"/_svs/next" => {
                    let end = (pos + chunk).min(wire.len());
                    let body = wire[pos..end].to_vec();
                    pos = end;
                    let last = pos >= wire.len();
                    let hh = OHeader {
                        spec: codec::MAGIC,
                        version: 1,
                        id: h.id,
                        query_format: 0,
                        body_format: 0,
                        ..OHeader::default()
                    };
                    codec::encode_frame(&hh, &[last as u8], &body)
                }
                _ => frame_with(h.id, 0, &q, 1, b"unknown", 3, 6),
            };
            if s.write_all(&reply).is_err() {
                return;
            }
            responses += 1;
        }
    });
    addr
}

fn library_server(c: &Case, kind: c09::Kind, fail_after: Option<usize>) -> SocketAddr {
    let case9 = c09::Case {
        kind,
        chunk: c.chunk as usize,
        len: c.len as usize,
        seed: c.seed,
        depth: 2,
        zstd: c.zstd,
        fail_after,
        fail_by_panic: fail_after.is_some() && c.seed % 3 == 0,
        pace: 0,
        cancel_after: None,
    };
    let server = Server::new(c09::router_for(&case9));
    let l = server.listen(crate::util::lo0().as_str()).unwrap();
    let addr = l.local_addr().unwrap();
    crate::peers::net::stop_at_end_of_case(&l);
    std::thread::spawn(move || {
        let _ = server.serve(l);
    });
    addr
}

/// The caller-supplied digest writer; `1` = milliseconds each write takes (a slow
/// consumer: the puller must still have cleaned up when a failed pull returns).
struct Digest(Vec<u8>, u64);
impl Write for Digest {
    fn write(&mut self, b: &[u8]) -> std::io::Result<usize> {
        if self.1 > 0 {
            std::thread::sleep(Duration::from_millis(self.1));
        }
        self.0.extend_from_slice(b);
        Ok(b.len())
    }
    fn flush(&mut self) -> std::io::Result<()> {
        Ok(())
    }
}

/// Run the puller; returns Ok(bytes expected at the destination) or Err.
fn run_puller(c: &Case, addr: SocketAddr, dest: &Path, reject: bool) -> Result<Option<Vec<u8>>, String> {
    let want = content(c);
    let tl = c.trailer_len as usize;
    // every fourth case has a slow digest (bounded: at most ~40 writes of 25 ms)
    let slow_ms: u64 = if c.seed % 4 == 1 && (c.len / c.chunk.max(1)) <= 40 { 25 } else { 0 };
    match c.puller {
        Puller::ToFile | Puller::ToBeveFile | Puller::ToBeveZstFile | Puller::TrailerVerified | Puller::Value | Puller::ToVec => {
            let client = Client::connect(addr).map_err(|e| e.to_string())?;
            match c.puller {
                Puller::ToFile => pull_to_file(&client, "res", dest).map(|_| Some(want)).map_err(|e| e.to_string()),
                Puller::ToBeveFile => pull_to_beve_file(&client, "res", dest).map(|_| Some(want)).map_err(|e| e.to_string()),
                Puller::ToBeveZstFile => pull_to_beve_zst_file(&client, "res", dest)
                    .map(|_| Some(zstd_wire(&want)))
                    .map_err(|e| e.to_string()),
                Puller::TrailerVerified => pull_to_file_trailer_verified(&client, "res", dest, tl, Digest(Vec::new(), slow_ms), |d, t| {
                    verify_trailer(&d.0, t, reject)
                })
                .map(|_| Some(want[..want.len().saturating_sub(tl)].to_vec()))
                .map_err(|e| e.to_string()),
                Puller::Value => pull_value::<c09::Doc>(&client, "res").map(|_| None).map_err(|e| e.to_string()),
                Puller::ToVec => pull_to_vec(&client, "res")
                    .map_err(|e| e.to_string())
                    .and_then(|v| if v == want { Ok(None) } else { Err(format!("pull_to_vec returned {} bytes that differ from the content", v.len())) }),
                _ => unreachable!(),
            }
        }
        Puller::ToFileAsync | Puller::VerifiedAsync | Puller::TrailerVerifiedAsync | Puller::ToVecAsync => crate::util::block_on_mt(async {
            let client = AsyncClient::connect(addr).await.map_err(|e| e.to_string())?;
            match c.puller {
                Puller::ToFileAsync => pull_to_file_async(&client, "res", dest).await.map(|_| Some(want)).map_err(|e| e.to_string()),
                Puller::VerifiedAsync => pull_to_file_verified_async(&client, "res", dest, Digest(Vec::new(), slow_ms), |d| {
                    if reject {
                        Err(RepeError::Io(std::io::Error::other("verifier rejects")))
                    } else if d.0 != content(c) {
                        Err(RepeError::Io(std::io::Error::other("digest input differs from the content")))
                    } else {
                        Ok(())
                    }
                })
                .await
                .map(|_| Some(want))
                .map_err(|e| e.to_string()),
                Puller::TrailerVerifiedAsync => pull_to_file_trailer_verified_async(&client, "res", dest, tl, Digest(Vec::new(), slow_ms), |d, t| {
                    verify_trailer(&d.0, t, reject)
                })
                .await
                .map(|_| Some(want[..want.len().saturating_sub(tl)].to_vec()))
                .map_err(|e| e.to_string()),
                Puller::ToVecAsync => pull_to_vec_async(&client, "res")
                    .await
                    .map_err(|e| e.to_string())
                    .and_then(|v| if v == want { Ok(None) } else { Err("pull_to_vec_async returned different bytes".into()) }),
                _ => unreachable!(),
            }
        }),
    }
}

fn verify_trailer(payload_digest_input: &[u8], trailer: &[u8], reject: bool) -> Result<(), RepeError> {
    let _ = (payload_digest_input, trailer);
    if reject {
        Err(RepeError::Io(std::io::Error::other("verifier rejects")))
    } else {
        Ok(())
    }
}

fn zstd_wire(logical: &[u8]) -> Vec<u8> {
    zstd::stream::encode_all(logical, 1).unwrap()
}

pub fn check(c: &Case) -> CheckResult {
    let dir = scratch_dir();
    let dest = dir.join("out.bin");
    if c.preexisting {
        std::fs::write(&dest, SENTINEL).map_err(|e| Fail::new("harness-fs", e.to_string()))?;
    }
    let want = content(c);
    // which server: the library's own producer, or the scripted one (connection cuts, exact wire control)
    let beve_needed = matches!(c.puller, Puller::ToBeveFile | Puller::Value);
    let is_value = c.puller == Puller::Value;
    let (addr, expect_fail): (SocketAddr, bool) = match c.failure {
        Failure::ProducerFails(n) => {
            let n = (n as usize).min(c.len.saturating_sub(1) as usize);
            (library_server(c, c09::Kind::Reader { short: 0 }, Some(n)), c.len > 0)
        }
        Failure::CutAfter(k) => {
            let wire = if is_value {
                beve::to_vec(&c09::doc(c.len as usize, c.seed)).unwrap()
            } else {
                want.clone()
            };
            let wire = if c.zstd { zstd_wire(&wire) } else { wire };
            let total_responses = 1 + wire.len().div_ceil(c.chunk.max(1) as usize).max(1);
            let k = (k as usize) % total_responses; // strictly fewer than needed => truncated
            (
                scripted_svs_server(wire, c.chunk.max(1) as usize, if beve_needed { 1 } else { 0 }, c.zstd, Some(k)),
                true,
            )
        }
        Failure::IncompatibleOutput => {
            // an uncompressed raw stream cannot feed the .beve / .beve.zst outputs; a raw stream cannot feed a value
            let wire = want.clone();
            (scripted_svs_server(wire, c.chunk.max(1) as usize, 0, false, None), matches!(c.puller, Puller::ToBeveFile | Puller::ToBeveZstFile | Puller::Value))
        }
        Failure::None | Failure::RejectingVerifier | Failure::TrailerTooLong => {
            let kind = if is_value { c09::Kind::Value } else { c09::Kind::Reader { short: 3 } };
            if beve_needed && !is_value {
                // .beve output needs format=BEVE: serve the raw bytes from the scripted server tagged BEVE
                let wire = if c.zstd { zstd_wire(&want) } else { want.clone() };
                (scripted_svs_server(wire, c.chunk.max(1) as usize, 1, c.zstd, None), false)
            } else {
                (library_server(c, kind, None), false)
            }
        }
    };
    let reject = c.failure == Failure::RejectingVerifier;
    let mut c2 = c.clone();
    if c.failure == Failure::TrailerTooLong {
        c2.trailer_len = 255;
    }
    let res = run_puller(&c2, addr, &dest, reject);
    // outputs that require a compressed stream fail on an uncompressed one
    let needs_zstd = matches!(c.puller, Puller::ToBeveFile | Puller::ToBeveZstFile);
    let verifier_applies = matches!(c.puller, Puller::TrailerVerified | Puller::VerifiedAsync | Puller::TrailerVerifiedAsync);
    let trailer_applies = matches!(c.puller, Puller::TrailerVerified | Puller::TrailerVerifiedAsync);
    let must_fail = expect_fail
        || (needs_zstd && !c.zstd)
        || (reject && verifier_applies)
        || (c.failure == Failure::TrailerTooLong && trailer_applies && (c.len as usize) < 255)
        || (trailer_applies && (c.len as usize) < c2.trailer_len as usize);
    let file_puller = FILE_PULLERS.contains(&c.puller);
    let prior: Option<Vec<u8>> = c.preexisting.then(|| SENTINEL.to_vec());
    let now: Option<Vec<u8>> = std::fs::read(&dest).ok();
    let temp_left = svspart(&dest).exists();
    let outcome = match (&res, must_fail) {
        (Err(_), true) => {
            ensure!(
                now == prior,
                "destination-changed-by-failed-pull",
                "{:?} failed ({:?}) but the destination changed: was {:?} bytes, now {:?} bytes",
                c.puller,
                c.failure,
                prior.as_ref().map(|v| v.len()),
                now.as_ref().map(|v| v.len())
            );
            ensure!(!temp_left, "temp-file-left", "{:?} failed ({:?}) and left {} behind", c.puller, c.failure, svspart(&dest).display());
            "failed-cleanly"
        }
        (Ok(_), true) => {
            return Err(Fail::new(
                "failure-reported-as-success",
                format!(
                    "{:?} returned Ok although {:?} must make it fail (len {}, chunk {}, zstd {}); destination now {:?} bytes",
                    c.puller,
                    c.failure,
                    c.len,
                    c.chunk,
                    c.zstd,
                    now.as_ref().map(|v| v.len())
                ),
            ));
        }
        (Err(e), false) => {
            return Err(Fail::new(
                "healthy-pull-failed",
                format!("{:?} failed on a healthy stream (len {}, chunk {}, zstd {}): {e}", c.puller, c.len, c.chunk, c.zstd),
            ));
        }
        (Ok(expected), false) => {
            if file_puller {
                let expected = expected.clone().unwrap_or_default();
                let got = now.clone().ok_or_else(|| Fail::new("destination-missing", format!("{:?} returned Ok but the destination does not exist", c.puller)))?;
                if c.puller == Puller::ToBeveZstFile {
                    // the file is the compressed stream: it must decompress to the content
                    let dec = zstd::stream::decode_all(&got[..]).map_err(|e| Fail::new("destination-content", format!("published .zst does not decode: {e}")))?;
                    ensure!(dec == want, "destination-content", "published .beve.zst decompresses to different bytes");
                } else {
                    ensure!(
                        got == expected,
                        "destination-content",
                        "{:?}: {}",
                        c.puller,
                        crate::util::diff_msg("published file vs complete content", &got, &expected)
                    );
                }
                ensure!(!temp_left, "temp-file-left", "{:?} succeeded but left its temp file behind", c.puller);
            }
            "published"
        }
    };
    let _ = std::fs::remove_dir_all(&dir);
    let inside = match c.failure {
        Failure::ProducerFails(n) => n as usize >= c.chunk as usize,
        Failure::CutAfter(k) => k >= 2,
        _ => false,
    };
    Ok(CaseInfo::new(inside || c.preexisting)
        .class(format!("{:?}", c.puller))
        .class(format!("{:?}", c.failure).split('(').next().unwrap_or("").to_string())
        .class(outcome)
        .class(if c.preexisting { "pre-existing" } else { "absent" }))
}

fn case() -> BoxedStrategy<Case> {
    let pullers = vec![
        Puller::ToFile,
        Puller::ToBeveFile,
        Puller::ToBeveZstFile,
        Puller::TrailerVerified,
        Puller::ToFileAsync,
        Puller::VerifiedAsync,
        Puller::TrailerVerifiedAsync,
        Puller::Value,
        Puller::ToVec,
        Puller::ToVecAsync,
    ];
    (
        prop::sample::select(pullers),
        prop::sample::select(vec![1u32, 7, 64, 1000, 4096]),
        any::<bool>(),
        any::<bool>(),
        any::<u64>(),
        0u8..40,
        any::<u32>(),
        0u8..8,
    )
        .prop_map(|(puller, chunk, preexisting, zstd, seed, trailer_len, r, fsel)| {
            let k = 1 + (r % 5);
            let len = match (r >> 8) % 4 {
                0 => 0,
                1 => k * chunk + ((r >> 12) % 3) - 1,
                2 => (r >> 4) % (6 * chunk + 2),
                _ => k * chunk,
            }
            .min(40_000);
            let failure = match fsel {
                0 | 1 => Failure::None,
                2 | 3 => Failure::ProducerFails(match (r >> 20) % 3 {
                    0 => ((r >> 22) % 6) * chunk,
                    1 => (((r >> 22) % 6) * chunk).saturating_sub(1),
                    _ => (r >> 22) % len.max(1),
                }),
                4 | 5 => Failure::CutAfter(((r >> 16) % 12) as u16),
                6 => Failure::RejectingVerifier,
                _ => {
                    if r % 2 == 0 {
                        Failure::TrailerTooLong
                    } else {
                        Failure::IncompatibleOutput
                    }
                }
            };
            // a producer failure needs something to fail inside
            let failure = match failure {
                Failure::ProducerFails(_) if len == 0 => Failure::None,
                // the value / beve pullers have no reader producer
                Failure::ProducerFails(_) if matches!(puller, Puller::Value | Puller::ToBeveFile) => Failure::CutAfter(((r >> 16) % 12) as u16),
                f => f,
            };
            Case {
                puller,
                failure,
                preexisting,
                zstd,
                len,
                chunk,
                seed,
                trailer_len,
            }
        })
        .boxed()
}

// ------------------------------------------------------------------ crash points

#[derive(Debug, Clone, Serialize, Deserialize, Hash, PartialEq, Eq)]
pub struct CrashCase {
    pub base: Case,
    /// Probe-hit index at which the child _exit()s; usize::MAX = run to completion and list the hits.
    pub crash_at: usize,
}

/// Child: host the producer, install the probe, run the pull; exit 77 at the crash hit.
pub fn child(sub: &str) -> i32 {
    if sub != "crash" && sub != "kill" {
        return 2;
    }
    let mut line = String::new();
    let _ = std::io::stdin().read_line(&mut line);
    let Ok(c) = serde_json::from_str::<CrashCase>(&line) else { return 2 };
    let dest = PathBuf::from(std::env::var("VERIF_C10_DEST").unwrap_or_default());
    let hits = std::sync::Arc::new(AtomicUsize::new(0));
    let h2 = hits.clone();
    let crash_at = c.crash_at;
    repe::verif::set_probe(Some(std::sync::Arc::new(move |point: &'static str| {
        if !point.starts_with("svs.") {
            return;
        }
        let i = h2.fetch_add(1, Ordering::SeqCst);
        {
            let out = std::io::stdout();
            let mut o = out.lock();
            let _ = writeln!(o, "HIT {i} {point}");
            let _ = o.flush();
        }
        if i == crash_at {
            // a kill, not an exit: no destructors, no buffered flushes
            unsafe { libc::_exit(77) };
        }
    })));
    let kind = if c.base.puller == Puller::Value { c09::Kind::Value } else { c09::Kind::Reader { short: 0 } };
    let pace = if sub == "kill" { 2 } else { 0 };
    let case9 = c09::Case {
        kind,
        chunk: c.base.chunk as usize,
        len: c.base.len as usize,
        seed: c.base.seed,
        depth: 1,
        zstd: c.base.zstd,
        fail_after: None,
        fail_by_panic: false,
        pace: 0,
        cancel_after: None,
    };
    let _ = pace;
    let server = Server::new(c09::router_for(&case9));
    let l = server.listen(crate::util::lo0().as_str()).unwrap();
    let addr = l.local_addr().unwrap();
    crate::peers::net::stop_at_end_of_case(&l);
    std::thread::spawn(move || {
        let _ = server.serve(l);
    });
    println!("READY");
    let r = run_puller(&c.base, addr, &dest, false);
    println!("DONE {}", if r.is_ok() { "ok" } else { "err" });
    let _ = std::io::stdout().flush();
    0
}

fn run_child(mode: &str, c: &CrashCase, dest: &Path, kill_after: Option<Duration>) -> Result<(Vec<String>, Option<i32>, bool), Fail> {
    use std::process::{Command, Stdio};
    let exe = std::env::current_exe().map_err(|e| Fail::new("harness-exe", e.to_string()))?;
    let mut child = Command::new(exe)
        .arg("child")
        .arg("C10")
        .arg(mode)
        .env("VERIF_C10_DEST", dest)
        .stdin(Stdio::piped())
        .stdout(Stdio::piped())
        .stderr(Stdio::null())
        .spawn()
        .map_err(|e| Fail::new("harness-spawn", e.to_string()))?;
    {
        let mut stdin = child.stdin.take().unwrap();
        let _ = writeln!(stdin, "{}", serde_json::to_string(c).unwrap());
    }
    let mut stdout = child.stdout.take().unwrap();
    let reader = std::thread::spawn(move || {
        let mut s = String::new();
        let _ = stdout.read_to_string(&mut s);
        s
    });
    let mut killed = false;
    if let Some(d) = kill_after {
        std::thread::sleep(d);
        if child.try_wait().ok().flatten().is_none() {
            let _ = child.kill(); // SIGKILL
            killed = true;
        }
    }
    // safety net
    let deadline = std::time::Instant::now() + Duration::from_secs(60);
    let status = loop {
        match child.try_wait() {
            Ok(Some(st)) => break st,
            Ok(None) if std::time::Instant::now() > deadline => {
                let _ = child.kill();
                return Err(Fail::new("harness-child-timeout", "child pull did not finish within 60 s"));
            }
            Ok(None) => std::thread::sleep(Duration::from_millis(2)),
            Err(e) => return Err(Fail::new("harness-wait", e.to_string())),
        }
    };
    let out = reader.join().unwrap_or_default();
    let hits: Vec<String> = out.lines().filter_map(|l| l.strip_prefix("HIT ")).map(|l| l.split(' ').nth(1).unwrap_or("").to_string()).collect();
    Ok((hits, status.code(), killed))
}

/// Is `file` the complete published content for this puller?
fn is_complete(c: &Case, file: Option<&[u8]>, expected_final: &[u8]) -> bool {
    match (c.puller, file) {
        (_, None) => false,
        (Puller::ToBeveZstFile, Some(f)) => zstd::stream::decode_all(f).map(|d| d == expected_final).unwrap_or(false),
        (_, Some(f)) => f == expected_final,
    }
}

fn expected_final_of(c: &Case) -> Vec<u8> {
    let want = content(c);
    match c.puller {
        Puller::TrailerVerified | Puller::TrailerVerifiedAsync => want[..want.len().saturating_sub(c.trailer_len as usize)].to_vec(),
        _ => want,
    }
}

/// After an interrupted pull (whatever it left lying around), a later *successful*
/// pull of different, shorter content to the same destination must publish exactly
/// that content.
fn republish_after_interruption(c: &Case, dest: &Path, what: &str) -> Result<(), Fail> {
    let c2 = Case {
        len: (c.len / 4).max(c.trailer_len as u32 + 1),
        seed: c.seed ^ 0x5A5A,
        failure: Failure::None,
        ..c.clone()
    };
    let (_, code, _) = run_child("crash", &CrashCase { base: c2.clone(), crash_at: usize::MAX }, dest, None)?;
    ensure!(code == Some(0), "harness-child", "follow-up child exited with {code:?}");
    let want = expected_final_of(&c2);
    let now = std::fs::read(dest).ok();
    ensure!(
        is_complete(&c2, now.as_deref(), &want),
        "republish-after-interruption-inexact",
        "after a pull {what}, a successful pull of {} bytes to the same destination left {:?} bytes there{}",
        want.len(),
        now.as_ref().map(|v| v.len()),
        match &now {
            Some(v) if v.len() >= want.len() && v[..want.len()] == want[..] => " (the new content followed by stale bytes)",
            _ => "",
        }
    );
    Ok(())
}

pub fn check_crash(c: &Case) -> CheckResult {
    // learn the hit sequence, then crash at every index
    let dir = scratch_dir();
    let dest = dir.join("out.bin");
    let want = content(c);
    let expected_final: Vec<u8> = match c.puller {
        Puller::TrailerVerified | Puller::TrailerVerifiedAsync => want[..want.len().saturating_sub(c.trailer_len as usize)].to_vec(),
        _ => want.clone(),
    };
    let prior: Option<Vec<u8>> = c.preexisting.then(|| SENTINEL.to_vec());
    let reset = |dest: &Path| {
        let _ = std::fs::remove_file(dest);
        let _ = std::fs::remove_file(svspart(dest));
        if c.preexisting {
            let _ = std::fs::write(dest, SENTINEL);
        }
    };
    reset(&dest);
    let (hits, code, _) = run_child("crash", &CrashCase { base: c.clone(), crash_at: usize::MAX }, &dest, None)?;
    ensure!(code == Some(0), "harness-child", "reference child exited with {code:?}");
    ensure!(
        hits.iter().any(|h| h == "svs.before_rename") && hits.last().map(String::as_str) == Some("svs.after_rename"),
        "harness-probes",
        "unexpected probe sequence {hits:?}"
    );
    let published = std::fs::read(&dest).ok();
    ensure!(
        is_complete(c, published.as_deref(), &expected_final),
        "destination-content",
        "uninterrupted pull published {:?} bytes, expected {}",
        published.as_ref().map(|v| v.len()),
        expected_final.len()
    );
    let mut crashes = 0;
    let mut mid = false;
    let mut republished = 0;
    for (i, name) in hits.iter().enumerate() {
        reset(&dest);
        let (_, code, _) = run_child("crash", &CrashCase { base: c.clone(), crash_at: i }, &dest, None)?;
        ensure!(code == Some(77), "harness-child", "child meant to die at hit {i} ({name}) exited with {code:?}");
        let now = std::fs::read(&dest).ok();
        if name == "svs.after_rename" {
            ensure!(
                is_complete(c, now.as_deref(), &expected_final),
                "crash-after-rename-incomplete",
                "killed right after the rename: destination holds {:?} bytes, complete content is {}",
                now.as_ref().map(|v| v.len()),
                expected_final.len()
            );
        } else {
            ensure!(
                now == prior,
                "crash-published-early",
                "killed at probe hit {i} ({name}), before the rename point: destination was {:?} bytes before the pull and is {:?} bytes now (complete content {} bytes)",
                prior.as_ref().map(|v| v.len()),
                now.as_ref().map(|v| v.len()),
                expected_final.len()
            );
            if name != "svs.chunk" || i > 0 {
                mid = true;
            }
            // whatever the killed pull left behind must not leak into a later publication
            if hits.len() <= 12 || i + 5 >= hits.len() {
                republish_after_interruption(c, &dest, &format!("killed at probe hit {i} ({name})"))?;
                republished += 1;
            }
        }
        crashes += 1;
    }
    let _ = std::fs::remove_dir_all(&dir);
    Ok(CaseInfo::new(mid || c.preexisting)
        .class(format!("{:?}", c.puller))
        .class(format!("crash-points={}", crashes.min(12)))
        .class(format!("republished-after-crash={}", republished.min(12)))
        .class(if c.preexisting { "pre-existing" } else { "absent" }))
}

fn crash_case() -> BoxedStrategy<Case> {
    (
        prop::sample::select(FILE_PULLERS.to_vec()),
        prop::sample::select(vec![64u32, 1000]),
        1u32..6,
        any::<bool>(),
        any::<bool>(),
        any::<u64>(),
        0u8..20,
    )
        .prop_map(|(puller, chunk, k, preexisting, zstd, seed, trailer_len)| {
            // outputs that need a compressed BEVE stream cannot be served by the reader producer
            let puller = match puller {
                Puller::ToBeveFile => Puller::ToFile,
                p => p,
            };
            let zstd = if puller == Puller::ToBeveZstFile { true } else { zstd };
            Case {
                puller,
                failure: Failure::None,
                preexisting,
                zstd,
                len: k * chunk + 17,
                chunk,
                seed,
                trailer_len,
            }
        })
        .boxed()
}

// --------------------------------------------------------------------- SIGKILL

#[derive(Debug, Clone, Serialize, Deserialize, Hash, PartialEq, Eq)]
pub struct KillCase {
    pub base: Case,
    pub kill_after_us: u32,
}

pub fn check_kill(k: &KillCase) -> CheckResult {
    let c = &k.base;
    let dir = scratch_dir();
    let dest = dir.join("out.bin");
    if c.preexisting {
        let _ = std::fs::write(&dest, SENTINEL);
    }
    let want = content(c);
    let prior: Option<Vec<u8>> = c.preexisting.then(|| SENTINEL.to_vec());
    let (_, code, killed) = run_child(
        "kill",
        &CrashCase { base: c.clone(), crash_at: usize::MAX },
        &dest,
        Some(Duration::from_micros(k.kill_after_us as u64)),
    )?;
    let now = std::fs::read(&dest).ok();
    let complete = now.as_deref() == Some(&want[..]);
    ensure!(
        now == prior || complete,
        "kill-published-partial",
        "SIGKILL after {} us (killed: {killed}, exit {code:?}): destination holds {:?} bytes — neither its prior state ({:?}) nor the complete content ({} bytes)",
        k.kill_after_us,
        now.as_ref().map(|v| v.len()),
        prior.as_ref().map(|v| v.len()),
        want.len()
    );
    if killed && !complete {
        republish_after_interruption(c, &dest, &format!("SIGKILLed after {} us", k.kill_after_us))?;
    }
    let _ = std::fs::remove_dir_all(&dir);
    Ok(CaseInfo::new(killed).class(if killed { "killed-mid-run" } else { "finished-first" }).class(if complete { "complete" } else { "unchanged" }))
}

fn kill_case() -> BoxedStrategy<KillCase> {
    (prop::sample::select(vec![Puller::ToFile, Puller::ToFileAsync]), any::<bool>(), any::<u64>(), 1_000u32..40_000)
        .prop_map(|(puller, preexisting, seed, kill_after_us)| KillCase {
            base: Case {
                puller,
                failure: Failure::None,
                preexisting,
                zstd: false,
                len: 600_000,
                chunk: 1000,
                seed,
                trailer_len: 0,
            },
            kill_after_us,
        })
        .boxed()
}

pub fn run(ctx: &Ctx, rep: &Report) {
    run_prop(ctx, rep, "failures", ctx.tier.pick(1_200, 80_000), &|| case(), &check);
    run_prop_threads(ctx, rep, "crash-points", ctx.tier.pick(16, 600), ctx.threads.min(8), &|| crash_case(), &check_crash);
    run_prop_threads(ctx, rep, "sigkill", ctx.tier.pick(48, 2_000), ctx.threads.min(8), &|| kill_case(), &check_kill);
}

pub fn replay(sub: &str, case: &serde_json::Value) -> Result<(), Fail> {
    match sub {
        "failures" => replay_case::<Case>(case, &check),
        "crash-points" => replay_case::<Case>(case, &check_crash),
        "sigkill" => replay_case::<KillCase>(case, &check_kill),
        _ => Err(Fail::new("replay-unknown-sub", sub.to_string())),
    }
}
