//! C19 — fleet calls retry only transport failures, boundedly, and recover afterwards.

use crate::engine::*;
use crate::ensure;
use crate::oracle::codec::{self, OHeader};
use crate::peers::net::frame_with;
use proptest::prelude::*;
use repe::{AsyncFleet, Fleet, FleetOptions, NodeConfig, RetryPolicy};
use serde::{Deserialize, Serialize};
use serde_json::{Value, json};
use std::collections::{BTreeSet, VecDeque};
use std::io::{Read, Write};
use std::net::{SocketAddr, TcpListener, TcpStream};
use std::sync::atomic::{AtomicBool, AtomicUsize, Ordering};
use std::sync::{Arc, Mutex};
use std::time::Duration;

pub const RULE: &str = "a scripted fake node consumes a generated per-attempt outcome sequence over {refused (port closed), accepted-then-closed, closed-while-idle (replies, then closes), silent-until-timeout, malformed reply, application error, success}; a probe at the start of every fleet attempt (verif-hooks) lets the node switch its listener deterministically and counts attempts including refused ones; calls are issued one after another until the script is consumed, followed by a healthy phase; oracle per call: attempts <= max_attempts, nothing is attempted after a reply, the result is that reply (value / application error) or an error if no reply arrived, application errors are never retried; healthy phase: success by the second call at the latest (never wedged); exhaustive over all outcome sequences of length <= max_attempts+2 for max_attempts 1..3 in thorough, stratified sample in quick, on Fleet and AsyncFleet; broadcast: all tag subsets over up to 4 nodes address exactly the nodes carrying all requested tags with one result each, whatever order the tags are listed in and with a tag repeated; a retry within a call reaches the node whenever the node is up; a connection that went silent stays silent (hung) while new connections are answered; a failing case is re-run once with a 20x longer call timeout and reported only if it fails again; non-trivial = at least one transport failure followed by the healthy phase; distinct = case hash";

#[derive(Debug, Clone, Copy, Serialize, Deserialize, Hash, PartialEq, Eq)]
pub enum Outcome {
    Refused,
    AcceptThenClose,
    CloseWhileIdle,
    Silent,
    Malformed,
    AppError,
    Success,
}

const ALL: [Outcome; 7] = [
    Outcome::Refused,
    Outcome::AcceptThenClose,
    Outcome::CloseWhileIdle,
    Outcome::Silent,
    Outcome::Malformed,
    Outcome::AppError,
    Outcome::Success,
];

#[derive(Debug, Clone, Serialize, Deserialize, Hash, PartialEq, Eq)]
pub struct Case {
    pub asynchronous: bool,
    pub max_attempts: u8,
    pub script: Vec<Outcome>,
    pub use_call_message: bool,
}

#[derive(Debug, Clone, Copy, PartialEq, Eq)]
enum Reply {
    Success,
    AppError,
    Malformed,
}

#[derive(Debug, Clone, Default)]
struct AttemptRec {
    planned: Option<Outcome>,
    accepted: usize,
    requests: usize,
    /// requests that arrived on a connection that had already gone silent
    on_hung_connection: usize,
    reply: Option<Reply>,
    /// error code of the application-error reply the node sent
    reply_ec: u32,
}

struct NodeShared {
    addr: SocketAddr,
    _holder: socket2::Socket,
    listener: Mutex<Option<TcpListener>>,
    /// Outcome the node applies to whatever arrives now (set by the probe).
    current: Mutex<Option<Outcome>>,
    attempts: Mutex<Vec<AttemptRec>>,
    conns: Mutex<Vec<TcpStream>>,
    stop: AtomicBool,
    served: AtomicUsize,
}

impl NodeShared {
    fn open(&self) {
        let mut l = self.listener.lock().unwrap();
        if l.is_none() {
            let s = socket2::Socket::new(socket2::Domain::IPV4, socket2::Type::STREAM, None).unwrap();
            s.set_reuse_address(true).ok();
            s.set_reuse_port(true).ok();
            for _ in 0..200 {
                if s.bind(&self.addr.into()).is_ok() {
                    break;
                }
                std::thread::sleep(Duration::from_millis(2));
            }
            s.listen(16).ok();
            s.set_nonblocking(true).ok();
            *l = Some(s.into());
        }
    }
    fn close_all(&self) {
        *self.listener.lock().unwrap() = None;
        for c in self.conns.lock().unwrap().drain(..) {
            let _ = c.shutdown(std::net::Shutdown::Both);
        }
    }
    fn note<F: FnOnce(&mut AttemptRec)>(&self, f: F) {
        let mut a = self.attempts.lock().unwrap();
        if let Some(last) = a.last_mut() {
            f(last);
        }
    }
}

fn read_request(s: &mut TcpStream) -> Option<(OHeader, Vec<u8>)> {
    let mut hdr = [0u8; 48];
    s.read_exact(&mut hdr).ok()?;
    let h = OHeader::raw(&hdr);
    if !h.consistent() || h.declared_total() > (1 << 24) {
        return None;
    }
    let mut rest = vec![0u8; (h.declared_total() - 48) as usize];
    s.read_exact(&mut rest).ok()?;
    Some((h, rest[..h.query_length as usize].to_vec()))
}

fn serve_conn(shared: Arc<NodeShared>, mut s: TcpStream) {
    let _ = s.set_nodelay(true);
    // A connection that went silent stays silent (a hung connection): whatever arrives
    // on it later is read and never answered. "Reachable again" means that a *new*
    // connection is answered, which is what a fleet must fall back to after a timeout.
    let mut hung = false;
    loop {
        let Some((h, query)) = read_request(&mut s) else {
            return;
        };
        shared.served.fetch_add(1, Ordering::SeqCst);
        shared.note(|a| a.requests += 1);
        if hung {
            shared.note(|a| a.on_hung_connection += 1);
            continue;
        }
        let outcome = (*shared.current.lock().unwrap()).unwrap_or(Outcome::Success);
        let ok_body = serde_json::to_vec(&json!({"ok": true, "n": shared.served.load(Ordering::SeqCst)})).unwrap();
        match outcome {
            Outcome::Success | Outcome::CloseWhileIdle => {
                let f = frame_with(h.id, 0, &query, 1, &ok_body, 2, 0);
                shared.note(|a| a.reply = Some(Reply::Success));
                let _ = s.write_all(&f);
                if outcome == Outcome::CloseWhileIdle {
                    let _ = s.shutdown(std::net::Shutdown::Both);
                    return;
                }
            }
            Outcome::AppError => {
                // (application-level error replies of several codes, the "retry later" code
                // included: a reply is a reply)
                let ec = [4096u32, 8, 6, 9][shared.served.load(Ordering::SeqCst) % 4];
                let f = frame_with(h.id, 0, &query, 1, b"application says no", 3, ec);
                shared.note(|a| {
                    a.reply = Some(Reply::AppError);
                    a.reply_ec = ec;
                });
                let _ = s.write_all(&f);
            }
            Outcome::Malformed => {
                let mut hh = OHeader {
                    length: 48,
                    spec: 0x0715,
                    version: 1,
                    id: h.id,
                    ..OHeader::default()
                };
                hh.spec = 0x0715;
                shared.note(|a| a.reply = Some(Reply::Malformed));
                let _ = s.write_all(&hh.encode());
            }
            Outcome::Silent => {
                // read on, never reply
                hung = true;
            }
            Outcome::AcceptThenClose | Outcome::Refused => {
                // a request that arrives on an existing connection while the node
                // is "closing": drop the connection without replying
                let _ = s.shutdown(std::net::Shutdown::Both);
                return;
            }
        }
    }
}

fn node_loop(shared: Arc<NodeShared>) {
    while !shared.stop.load(Ordering::SeqCst) {
        let accepted = {
            let l = shared.listener.lock().unwrap();
            match l.as_ref() {
                Some(l) => l.accept().ok(),
                None => None,
            }
        };
        match accepted {
            Some((s, _)) => {
                let _ = s.set_nonblocking(false);
                shared.note(|a| a.accepted += 1);
                let outcome = *shared.current.lock().unwrap();
                if outcome == Some(Outcome::AcceptThenClose) {
                    let _ = s.shutdown(std::net::Shutdown::Both);
                    continue;
                }
                if let Ok(c) = s.try_clone() {
                    shared.conns.lock().unwrap().push(c);
                }
                let sh = shared.clone();
                std::thread::spawn(move || serve_conn(sh, s));
            }
            None => std::thread::sleep(Duration::from_micros(300)),
        }
    }
}

struct Node {
    shared: Arc<NodeShared>,
}

impl Node {
    fn start() -> Self {
        // The node's port stays reserved for the whole case by a bound, never-listening
        // socket (SO_REUSEPORT lets the node's own listener share it): while the node
        // is "down" a connect is refused, and no other socket on the machine can be
        // handed the port in the meantime.
        let holder = socket2::Socket::new(socket2::Domain::IPV4, socket2::Type::STREAM, None).unwrap();
        holder.set_reuse_address(true).ok();
        holder.set_reuse_port(true).ok();
        holder.bind(&crate::util::lo0().as_str().parse::<SocketAddr>().unwrap().into()).unwrap();
        let addr = holder.local_addr().unwrap().as_socket().unwrap();
        let shared = Arc::new(NodeShared {
            addr,
            _holder: holder,
            listener: Mutex::new(None),
            current: Mutex::new(None),
            attempts: Mutex::new(Vec::new()),
            conns: Mutex::new(Vec::new()),
            stop: AtomicBool::new(false),
            served: AtomicUsize::new(0),
        });
        shared.open();
        let sh = shared.clone();
        std::thread::spawn(move || node_loop(sh));
        Node { shared }
    }
}

impl Drop for Node {
    fn drop(&mut self) {
        self.shared.stop.store(true, Ordering::SeqCst);
        self.shared.close_all();
    }
}

enum AnyFleet {
    S(Fleet),
    A(AsyncFleet),
}

fn one_call(fleet: &AnyFleet, use_message: bool) -> (Option<Value>, Option<String>, Option<u32>) {
    // returns (value, error text, server error code)
    let map = |value: Option<Value>, error: Option<repe::RepeError>| {
        let code = match &error {
            Some(repe::RepeError::ServerError { code, .. }) => Some(*code as u32),
            _ => None,
        };
        (value, error.map(|e| e.to_string()), code)
    };
    match fleet {
        AnyFleet::S(f) => {
            if use_message {
                let r = f.call_message("n", "/m").expect("node exists");
                let v = r.value.map(|m| m.json_body::<Value>().unwrap_or(Value::Null));
                map(v, r.error)
            } else {
                let r = f.call_json("n", "/m", Some(&json!({"x": 1}))).expect("node exists");
                map(r.value, r.error)
            }
        }
        AnyFleet::A(f) => crate::util::block_on(async {
            if use_message {
                let r = f.call_message("n", "/m").await.expect("node exists");
                let v = r.value.map(|m| m.json_body::<Value>().unwrap_or(Value::Null));
                map(v, r.error)
            } else {
                let r = f.call_json("n", "/m", Some(&json!({"x": 1}))).await.expect("node exists");
                map(r.value, r.error)
            }
        }),
    }
}

/// The per-call timeout is what turns a silent node into a transport failure, so it
/// has to be short for the generated runs; under load a reply can then arrive after
/// the deadline and the run no longer follows the script. A failure is therefore
/// re-confirmed once with a 20x longer timeout before it is reported: a defect in the
/// retry logic is a function of the script and fails again, a scheduling artefact
/// does not.
pub fn check(c: &Case) -> CheckResult {
    match check_with(c, 80) {
        Ok(info) => Ok(info),
        Err(first) => check_with(c, 1600).map(|info| info.class(format!("first-run-failure-not-reconfirmed:{}", first.sig))),
    }
}

fn check_with(c: &Case, timeout_ms: u64) -> CheckResult {
    let node = Node::start();
    let cfg = NodeConfig::new(node.shared.addr.ip().to_string(), node.shared.addr.port())
        .and_then(|c| c.with_name("n"))
        .and_then(|c| c.with_timeout(Duration::from_millis(timeout_ms)))
        .map_err(|e| Fail::new("harness-config", e.to_string()))?;
    let opts = FleetOptions {
        default_timeout: Duration::from_millis(timeout_ms),
        retry_policy: RetryPolicy {
            max_attempts: c.max_attempts as usize,
            delay: Duration::from_millis(1),
        },
    };
    let fleet = if c.asynchronous {
        AnyFleet::A(AsyncFleet::with_options(vec![cfg], opts).map_err(|e| Fail::new("harness-config", e.to_string()))?)
    } else {
        AnyFleet::S(Fleet::with_options(vec![cfg], opts).map_err(|e| Fail::new("harness-config", e.to_string()))?)
    };
    let script: Arc<Mutex<VecDeque<Outcome>>> = Arc::new(Mutex::new(c.script.iter().copied().collect()));
    let shared = node.shared.clone();
    let script2 = script.clone();
    // probe: before each attempt, pick the next outcome (Success once the script is
    // exhausted) and put the node into the matching state
    let handler = Box::new(move |point: &'static str| {
        if point != "fleet.attempt" {
            return;
        }
        let planned = script2.lock().unwrap().pop_front().unwrap_or(Outcome::Success);
        *shared.current.lock().unwrap() = Some(planned);
        if planned == Outcome::Refused {
            shared.close_all();
        } else {
            shared.open();
        }
        shared.attempts.lock().unwrap().push(AttemptRec {
            planned: Some(planned),
            ..AttemptRec::default()
        });
    });
    let m = c.max_attempts as usize;
    let mut transport_failures = 0usize;
    let mut calls = 0usize;
    let result: Result<(), Fail> = crate::engine::probe::with_handler(handler, || {
        // script phase, then healthy phase (two more calls at most)
        let mut healthy_calls = 0;
        loop {
            let in_script = !script.lock().unwrap().is_empty();
            if !in_script {
                healthy_calls += 1;
            }
            let before = node.shared.attempts.lock().unwrap().len();
            let (value, error, code) = one_call(&fleet, c.use_call_message);
            calls += 1;
            // let the node finish recording what it did for the final attempt
            std::thread::sleep(Duration::from_millis(2));
            let recs: Vec<AttemptRec> = node.shared.attempts.lock().unwrap()[before..].to_vec();
            let n = recs.len();
            ensure!(
                n >= 1 && n <= m,
                "attempt-bound",
                "call {calls} made {n} attempts with max_attempts {m} (planned outcomes {:?})",
                recs.iter().map(|r| r.planned).collect::<Vec<_>>()
            );
            for (i, r) in recs.iter().enumerate() {
                let is_last = i + 1 == n;
                // a retry (an attempt that follows a failed attempt of the same call) is made on
                // a fresh connection, so it reaches a node that is up
                if i > 0 && matches!(r.planned, Some(Outcome::Success | Outcome::AppError | Outcome::Malformed | Outcome::Silent | Outcome::CloseWhileIdle)) {
                    ensure!(
                        r.accepted > 0 || r.requests > 0,
                        "retry-did-not-reconnect",
                        "call {calls}: attempt {} was made while the node was up and answering ({:?}) but never reached it (no connection, no request): the retry did not reconnect (planned {:?})",
                        i + 1,
                        r.planned,
                        recs.iter().map(|r| r.planned).collect::<Vec<_>>()
                    );
                }
                match r.reply {
                    Some(Reply::Success) | Some(Reply::AppError) => {
                        ensure!(
                            is_last,
                            "retry-after-reply",
                            "call {calls}: attempt {} received a reply ({:?}) but {} more attempt(s) followed (planned {:?})",
                            i + 1,
                            r.reply,
                            n - i - 1,
                            recs.iter().map(|r| r.planned).collect::<Vec<_>>()
                        );
                    }
                    Some(Reply::Malformed) => {}
                    None => transport_failures += 1,
                }
            }
            let last = recs.last().unwrap();
            match last.reply {
                Some(Reply::Success) => {
                    ensure!(
                        value.as_ref().and_then(|v| v.get("ok")).and_then(Value::as_bool) == Some(true) && error.is_none(),
                        "reply-not-reported",
                        "call {calls}: the node replied success but the call reports value {value:?} error {error:?}"
                    );
                }
                Some(Reply::AppError) => {
                    ensure!(
                        code == Some(last.reply_ec) && value.is_none(),
                        "app-error-not-reported",
                        "call {calls}: the node replied with an application error but the call reports value {value:?} error {error:?}"
                    );
                }
                Some(Reply::Malformed) | None => {
                    ensure!(
                        value.is_none() && error.is_some(),
                        "failure-reported-as-success",
                        "call {calls}: no reply arrived on the last attempt but the call reports value {value:?}"
                    );
                }
            }
            if healthy_calls >= 1 {
                if value.is_some() {
                    return Ok(());
                }
                ensure!(
                    healthy_calls < 2,
                    "node-wedged",
                    "the node is healthy again (listening, answering success) but call {calls}, the second since, still fails: {error:?} (script {:?})",
                    c.script
                );
            }
            ensure!(calls < 40, "harness-loop", "too many calls");
        }
    });
    result?;
    Ok(CaseInfo::new(transport_failures >= 1)
        .class(if c.asynchronous { "AsyncFleet" } else { "Fleet" })
        .class(format!("max_attempts={m}"))
        .class(if c.use_call_message { "call_message" } else { "call_json" })
        .class(if transport_failures >= 1 { "had-transport-failure" } else { "no-transport-failure" }))
}

fn sequences(max_len: usize) -> Vec<Vec<Outcome>> {
    let mut out = vec![vec![]];
    let mut frontier = vec![vec![]];
    for _ in 0..max_len {
        let mut next = Vec::new();
        for s in &frontier {
            for o in ALL {
                let mut t: Vec<Outcome> = s.clone();
                t.push(o);
                next.push(t);
            }
        }
        out.extend(next.iter().cloned());
        frontier = next;
    }
    out
}

pub fn exhaustive_cases(asynchronous: bool) -> Vec<Case> {
    let mut v = Vec::new();
    for m in 1..=3u8 {
        for s in sequences(m as usize + 2) {
            v.push(Case {
                asynchronous,
                max_attempts: m,
                script: s,
                use_call_message: false,
            });
        }
    }
    v
}

fn case() -> BoxedStrategy<Case> {
    (any::<bool>(), 1u8..=3, any::<bool>())
        .prop_flat_map(|(asynchronous, m, use_call_message)| {
            (
                Just(asynchronous),
                Just(m),
                Just(use_call_message),
                prop::collection::vec(prop::sample::select(ALL.to_vec()), 0..=(m as usize + 2)),
            )
        })
        .prop_map(|(asynchronous, max_attempts, use_call_message, script)| Case {
            asynchronous,
            max_attempts,
            script,
            use_call_message,
        })
        .boxed()
}

// ------------------------------------------------------------------ broadcast

#[derive(Debug, Clone, Serialize, Deserialize, Hash, PartialEq, Eq)]
pub struct Bcast {
    pub asynchronous: bool,
    /// per node: tag bitmask over {a,b,c}
    pub nodes: Vec<u8>,
    pub request: u8,
    /// how the requested tags are listed: 0 = ascending, 1 = descending, 2 = rotated, 3 = ascending with the first repeated at the end
    #[serde(default)]
    pub listing: u8,
}

const TAGS: [&str; 3] = ["a", "b", "c"];

pub fn check_broadcast(c: &Bcast) -> CheckResult {
    let nodes: Vec<Node> = c.nodes.iter().map(|_| Node::start()).collect();
    for n in &nodes {
        *n.shared.current.lock().unwrap() = Some(Outcome::Success);
    }
    let mut cfgs = Vec::new();
    for (i, (n, mask)) in nodes.iter().zip(&c.nodes).enumerate() {
        let tags: Vec<&str> = (0..3).filter(|b| mask & (1 << b) != 0).map(|b| TAGS[b]).collect();
        cfgs.push(
            NodeConfig::new(n.shared.addr.ip().to_string(), n.shared.addr.port())
                .and_then(|c| c.with_name(format!("n{i}")))
                .and_then(|c| c.with_timeout(Duration::from_millis(2000)))
                .map(|c| c.with_tags(tags))
                .map_err(|e| Fail::new("harness-config", e.to_string()))?,
        );
    }
    let mut req_tags: Vec<&str> = (0..3).filter(|b| c.request & (1 << b) != 0).map(|b| TAGS[b]).collect();
    match c.listing % 4 {
        1 => req_tags.reverse(),
        2 if !req_tags.is_empty() => req_tags.rotate_left(1),
        3 if !req_tags.is_empty() => req_tags.push(req_tags[0]),
        _ => {}
    }
    let want: BTreeSet<String> = c
        .nodes
        .iter()
        .enumerate()
        .filter(|(_, mask)| **mask & c.request == c.request)
        .map(|(i, _)| format!("n{i}"))
        .collect();
    let opts = FleetOptions {
        default_timeout: Duration::from_millis(2000),
        retry_policy: RetryPolicy {
            max_attempts: 2,
            delay: Duration::from_millis(1),
        },
    };
    let (keys, oks, served): (BTreeSet<String>, usize, Vec<usize>) = if c.asynchronous {
        let f = AsyncFleet::with_options(cfgs, opts).map_err(|e| Fail::new("harness-config", e.to_string()))?;
        let r = crate::util::block_on(f.broadcast_json("/m", Some(&json!({"x": 1})), &req_tags));
        (
            r.keys().cloned().collect(),
            r.values().filter(|x| x.succeeded()).count(),
            nodes.iter().map(|n| n.shared.served.load(Ordering::SeqCst)).collect(),
        )
    } else {
        let f = Fleet::with_options(cfgs, opts).map_err(|e| Fail::new("harness-config", e.to_string()))?;
        let r = f.broadcast_json("/m", Some(&json!({"x": 1})), &req_tags);
        (
            r.keys().cloned().collect(),
            r.values().filter(|x| x.succeeded()).count(),
            nodes.iter().map(|n| n.shared.served.load(Ordering::SeqCst)).collect(),
        )
    };
    ensure!(
        keys == want,
        "broadcast-addressing",
        "broadcast with tags {req_tags:?} returned results for {keys:?}; nodes carrying all requested tags are {want:?} (node tag masks {:?})",
        c.nodes
    );
    ensure!(oks == want.len(), "broadcast-result", "{oks} successful results for {} addressed healthy nodes", want.len());
    for (i, s) in served.iter().enumerate() {
        let addressed = want.contains(&format!("n{i}"));
        ensure!(
            *s == usize::from(addressed),
            "broadcast-delivery",
            "node n{i} served {s} requests; addressed = {addressed}"
        );
    }
    Ok(CaseInfo::new(want.len() != c.nodes.len()).class(if c.asynchronous { "AsyncFleet" } else { "Fleet" }))
}

fn broadcast_cases() -> Vec<Bcast> {
    // all tag subsets requested, over a fixed varied assignment and a few others
    let assignments: Vec<Vec<u8>> = vec![vec![0b000, 0b001, 0b011, 0b111], vec![0b101, 0b010, 0b110], vec![0b111], vec![0b000, 0b100]];
    let mut v = Vec::new();
    for asynchronous in [false, true] {
        for a in &assignments {
            for request in 0..8u8 {
                for listing in 0..4u8 {
                    if listing > 0 && request.count_ones() < 2 && listing != 3 {
                        continue; // same listing as 0
                    }
                    v.push(Bcast {
                        asynchronous,
                        nodes: a.clone(),
                        request,
                        listing,
                    });
                }
            }
        }
    }
    v
}

fn corpus() -> Vec<Case> {
    // the inputs of fixed finding F7: a connection that died while idle, and a malformed reply
    let mut v = Vec::new();
    for asynchronous in [false, true] {
        for m in 1..=3u8 {
            v.push(Case { asynchronous, max_attempts: m, script: vec![Outcome::CloseWhileIdle], use_call_message: false });
            v.push(Case { asynchronous, max_attempts: m, script: vec![Outcome::Malformed], use_call_message: false });
            v.push(Case { asynchronous, max_attempts: m, script: vec![Outcome::Success, Outcome::CloseWhileIdle, Outcome::Malformed], use_call_message: true });
        }
    }
    v
}

pub fn run(ctx: &Ctx, rep: &Report) {
    crate::engine::probe::install();
    run_enum(ctx, rep, "corpus", &corpus(), false, &check);
    if ctx.tier == Tier::Thorough {
        let mut ex = exhaustive_cases(false);
        ex.extend(exhaustive_cases(true));
        run_enum(ctx, rep, "exhaustive", &ex, true, &check);
    } else {
        // stratified sample of the exhaustive space: every sequence up to length 2 for each
        // max_attempts, on both fleets
        let mut v = Vec::new();
        for asynchronous in [false, true] {
            for m in 1..=3u8 {
                for s in sequences(2) {
                    v.push(Case { asynchronous, max_attempts: m, script: s, use_call_message: false });
                }
            }
        }
        run_enum(ctx, rep, "short-sequences", &v, true, &check);
    }
    run_prop(ctx, rep, "random", ctx.tier.pick(1_200, 12_000), &|| case(), &check);
    run_enum(ctx, rep, "broadcast", &broadcast_cases(), true, &check_broadcast);
}

pub fn replay(sub: &str, case: &serde_json::Value) -> Result<(), Fail> {
    crate::engine::probe::install();
    match sub {
        "corpus" | "exhaustive" | "short-sequences" | "random" => replay_case::<Case>(case, &check),
        "broadcast" => replay_case::<Bcast>(case, &check_broadcast),
        _ => Err(Fail::new("replay-unknown-sub", sub.to_string())),
    }
}

#[allow(dead_code)]
fn _keep(_: codec::Parse<'_>) {}
