//! C15 — connection lifecycle hooks fire once, in order, on every exit path.

use crate::engine::*;
use crate::ensure;
use crate::peers::net::*;
use crate::util::block_on_mt as block_on;
use futures_util::SinkExt;
use proptest::prelude::*;
use repe::tokio_tungstenite::WebSocketStream;
use repe::tokio_tungstenite::tungstenite::protocol::Role;
use repe::websocket_server::ShutdownToken;
use repe::{BodyFormat, CallContext, NotifyBody, PeerId, PeerRegistry, Router, SharedWebSocketServer, WebSocketServer};
use serde::{Deserialize, Serialize};
use serde_json::{Value, json};
use std::collections::{HashMap, HashSet};
use std::sync::{Arc, Condvar, Mutex};
use std::time::Duration;
use tokio::io::{AsyncRead, AsyncWrite, AsyncWriteExt};

pub const RULE: &str = "exit cause {clean Close, abrupt loss, text frame, unmasked/garbage WebSocket frame, malformed REPE frame (bad magic / trailing bytes), inline handler panic, connect-callback panic (first / second hook), embedder cancellation, drain-deadline abort, failed handshake (wrong path / non-HTTP bytes)} x phase {idle, inline handler running, off-reader handler parked, outbound queue non-empty (client not reading), reader parked handing a response to the full outbound queue} x 1..32 concurrent connections x entry point {serve_listener accept loop over TCP, serve_connection over an adopted duplex stream, serve_connection_with_cancel, serve_listener_with_graceful_drain}; with a PeerRegistry and an alias attached in a connect hook; oracle per accepted connection: the disconnect callback count is exactly 1 once the connection ended (0 for failed handshakes, and it never becomes 2), the peer and its alias resolve from inside connect hooks (after the insert), from inside handlers and just before the exit trigger, and no longer resolve afterwards, the two notifies queued by the connect callbacks are the first frames the client sees, in order, before the response to a request the client sent first, and every parked off-reader handler observes cancellation within the watchdog; after an embedder cancellation with an unread backlog the client keeps not reading until the hooks and the registry were checked; (cancel-early) cancellation 0..3000 us after serve_connection_with_cancel started (0 = token already cancelled): connect and disconnect callbacks each ran exactly once for the same peer, registry empty; (bare-server) a server with no disconnect callback and no registry: a parked off-reader handler still observes cancellation when the connection ends; (half-dead) writes of the server to a connection fail while its reads still work: the peer stays resolvable until the disconnect callbacks run; (shared-registry) two servers feeding one PeerRegistry: distinct ids, each peer and alias present until its own disconnect; non-trivial = exit cause != clean close, or phase != idle; distinct = case hash";

#[derive(Debug, Clone, Copy, Serialize, Deserialize, Hash, PartialEq, Eq)]
pub enum Cause {
    CleanClose,
    AbruptLoss,
    TextFrame,
    UnmaskedFrame,
    BadMagic,
    TrailingBytes,
    InlinePanic,
    ConnectPanicFirst,
    ConnectPanicSecond,
    EmbedderCancel,
}

#[derive(Debug, Clone, Copy, Serialize, Deserialize, Hash, PartialEq, Eq)]
pub enum Phase {
    Idle,
    InlineRunning,
    OffReaderParked,
    OutboundBacklog,
    /// the outbound queue is full, the client is not reading, and the reader is parked
    /// handing an inline response to the queue
    ReaderParked,
}

#[derive(Debug, Clone, Copy, Serialize, Deserialize, Hash, PartialEq, Eq)]
pub enum Entry {
    AcceptLoop,
    ServeConnection,
    ServeConnectionWithCancel,
}

#[derive(Debug, Clone, Copy, Serialize, Deserialize, Hash, PartialEq, Eq)]
pub struct Scenario {
    pub cause: Cause,
    pub phase: Phase,
}

#[derive(Debug, Clone, Serialize, Deserialize, Hash, PartialEq, Eq)]
pub struct Case {
    pub entry: Entry,
    pub conns: Vec<Scenario>,
}

#[derive(Default)]
struct Env {
    connects: Mutex<Vec<u64>>,
    disconnects: Mutex<HashMap<u64, usize>>,
    dis_cv: Condvar,
    problems: Mutex<Vec<String>>,
    inline_started: Mutex<HashSet<u64>>,
    off_started: Mutex<HashSet<u64>>,
    off_cancel_seen: Mutex<HashSet<u64>>,
    inline_cancel_seen: Mutex<HashSet<u64>>,
    sig_cv: Condvar,
    gates: Mutex<HashSet<u64>>,
    gate_cv: Condvar,
    panic_first: Mutex<bool>,
    panic_second: Mutex<bool>,
}

impl Env {
    fn problem(&self, s: String) {
        self.problems.lock().unwrap().push(s);
    }
    fn wait_set(&self, set: &Mutex<HashSet<u64>>, id: u64, timeout: Duration) -> bool {
        let deadline = std::time::Instant::now() + timeout;
        let mut g = set.lock().unwrap();
        loop {
            if g.contains(&id) {
                return true;
            }
            let now = std::time::Instant::now();
            if now >= deadline {
                return false;
            }
            g = self.sig_cv.wait_timeout(g, (deadline - now).min(Duration::from_millis(5))).unwrap().0;
        }
    }
    fn wait_disconnect(&self, id: u64, timeout: Duration) -> usize {
        let deadline = std::time::Instant::now() + timeout;
        let mut g = self.disconnects.lock().unwrap();
        loop {
            let n = g.get(&id).copied().unwrap_or(0);
            if n >= 1 {
                return n;
            }
            let now = std::time::Instant::now();
            if now >= deadline {
                return n;
            }
            g = self.dis_cv.wait_timeout(g, deadline - now).unwrap().0;
        }
    }
    fn release(&self, id: u64) {
        self.gates.lock().unwrap().insert(id);
        self.gate_cv.notify_all();
    }
    fn park(&self, id: u64, max: Duration, mut stop: impl FnMut() -> bool) {
        let deadline = std::time::Instant::now() + max;
        let mut g = self.gates.lock().unwrap();
        while !g.contains(&id) && !stop() {
            let now = std::time::Instant::now();
            if now >= deadline {
                break;
            }
            g = self.gate_cv.wait_timeout(g, Duration::from_millis(1)).unwrap().0;
        }
    }
}

fn alias_of(id: u64) -> String {
    format!("alias-{id}")
}

fn present(peers: &PeerRegistry, id: u64) -> bool {
    peers.get(PeerId(id)).is_some()
        && peers.get_by(alias_of(id).as_str()).is_some_and(|p| p.peer_id().0 == id)
}

fn watchdog() -> Duration {
    if failure_seen() {
        Duration::from_millis(900)
    } else {
        Duration::from_secs(10)
    }
}

fn build_server(env: Arc<Env>, peers: PeerRegistry) -> WebSocketServer {
    let (e1, e2, e3, e4, e5) = (env.clone(), env.clone(), env.clone(), env.clone(), env.clone());
    let (p1, p2, p3, p4) = (peers.clone(), peers.clone(), peers.clone(), peers.clone());
    let router = Router::new()
        .with_json_ctx("/inline_gate", move |ctx: &CallContext, _v: Value| {
            let id = ctx.peer().map(|p| p.peer_id().0).unwrap_or(u64::MAX);
            if !present(&p1, id) {
                e1.problem(format!("inline handler: peer {id} or its alias does not resolve while the connection is alive"));
            }
            e1.inline_started.lock().unwrap().insert(id);
            e1.sig_cv.notify_all();
            // an inline handler can watch the same cancellation signal as an off-reader one
            let mut seen = false;
            e1.park(id, Duration::from_secs(20), || {
                seen = ctx.is_cancelled();
                seen
            });
            if seen || ctx.is_cancelled() {
                e1.inline_cancel_seen.lock().unwrap().insert(id);
                e1.sig_cv.notify_all();
            }
            Ok(json!("inline done"))
        })
        .with_json_ctx_blocking("/off_gate", move |ctx: &CallContext, _v: Value| {
            let id = ctx.peer().map(|p| p.peer_id().0).unwrap_or(u64::MAX);
            if !present(&p2, id) {
                e2.problem(format!("off-reader handler: peer {id} or its alias does not resolve while the connection is alive"));
            }
            e2.off_started.lock().unwrap().insert(id);
            e2.sig_cv.notify_all();
            let mut seen = false;
            e2.park(id, Duration::from_secs(20), || {
                seen = ctx.is_cancelled();
                seen
            });
            if seen || ctx.is_cancelled() {
                e2.off_cancel_seen.lock().unwrap().insert(id);
                e2.sig_cv.notify_all();
            }
            Ok(json!("off done"))
        })
        .with_json("/panic", |_v: Value| -> Result<Value, (repe::ErrorCode, String)> { panic!("inline handler panics") })
        .with_json("/ping", |_v: Value| Ok(json!("pong")));
    WebSocketServer::new(router)
        .with_peer_registry(peers)
        .on_peer_connect(move |peer| {
            let id = peer.peer_id().0;
            e3.connects.lock().unwrap().push(id);
            if *e3.panic_first.lock().unwrap() {
                panic!("first connect callback panics");
            }
            p3.alias(peer.peer_id(), alias_of(id));
            if !present(&p3, id) {
                e3.problem(format!("connect hook: peer {id} does not resolve right after the registry insert"));
            }
            let _ = peer.send_notify("/hello1", NotifyBody::Json(serde_json::to_vec(&json!({"peer": id})).unwrap()));
        })
        .on_peer_connect(move |peer| {
            let id = peer.peer_id().0;
            if *e4.panic_second.lock().unwrap() {
                panic!("second connect callback panics");
            }
            if !present(&p4, id) {
                e4.problem(format!("second connect hook: peer {id} does not resolve"));
            }
            let _ = peer.send_notify("/hello2", NotifyBody::Raw(vec![1, 2, 3], BodyFormat::RawBinary));
        })
        .on_peer_disconnect(move |id| {
            *e5.disconnects.lock().unwrap().entry(id.0).or_insert(0) += 1;
            e5.dis_cv.notify_all();
        })
        .on_error(|_e| {})
}

struct Client<S> {
    io: WsIo<S>,
}

/// Drive one connection through its scenario. `server_done` resolves when the
/// server side's connection future completed (None for the accept loop, where the
/// library owns the task).
async fn drive<S>(
    env: &Arc<Env>,
    peers: &PeerRegistry,
    sc: Scenario,
    cl: Client<S>,
    server_done: Option<tokio::task::JoinHandle<Result<(), repe::RepeError>>>,
    cancel: Option<ShutdownToken>,
) -> Result<(), Fail>
where
    S: AsyncRead + AsyncWrite + Unpin + Send + 'static,
{
    let mut io = cl.io;
    let tag = format!("{:?}/{:?}", sc.cause, sc.phase);
    // A request sent before anything is read: its response must come after the
    // two connect-queued notifies.
    io.send(&frame_with(1, 0, b"/ping", 1, b"null", 2, 0)).await.map_err(|e| Fail::new("harness-send", e.to_string()))?;
    let mut first = Vec::new();
    for _ in 0..3 {
        match tokio::time::timeout(watchdog(), io.recv()).await {
            Ok(Ok(Some(f))) => first.push(f),
            other => {
                return Err(Fail::new(
                    "connect-frames-missing",
                    format!("[{tag}] expected /hello1, /hello2 and the first response; got {} frames then {:?}", first.len(), other.map(|r| r.map(|o| o.map(|f| f.path())))),
                ));
            }
        }
    }
    let order: Vec<String> = first.iter().map(|f| f.path()).collect();
    ensure!(
        order == ["/hello1", "/hello2", "/ping"] && first[0].header.notify == 1 && first[1].header.notify == 1 && first[2].header.notify == 0,
        "connect-notify-order",
        "[{tag}] the first frames on the wire were {order:?}; expected the two connect-queued notifies, in order, before the first response"
    );
    let id = serde_json::from_slice::<Value>(&first[0].body)
        .ok()
        .and_then(|v| v.get("peer").and_then(Value::as_u64))
        .ok_or_else(|| Fail::new("harness-peer-id", "no peer id in /hello1"))?;

    // --- phase
    match sc.phase {
        Phase::Idle => {}
        Phase::InlineRunning => {
            io.send(&frame_with(2, 0, b"/inline_gate", 1, b"null", 2, 0)).await.map_err(|e| Fail::new("harness-send", e.to_string()))?;
            let (e, i) = (env.clone(), id);
            let ok = tokio::task::spawn_blocking(move || e.wait_set(&e.inline_started, i, watchdog())).await.unwrap();
            ensure!(ok, "handler-not-started", "[{tag}] inline handler did not start");
        }
        Phase::OffReaderParked => {
            io.send(&frame_with(3, 0, b"/off_gate", 1, b"null", 2, 0)).await.map_err(|e| Fail::new("harness-send", e.to_string()))?;
            let (e, i) = (env.clone(), id);
            let ok = tokio::task::spawn_blocking(move || e.wait_set(&e.off_started, i, watchdog())).await.unwrap();
            ensure!(ok, "handler-not-started", "[{tag}] off-reader handler did not start");
        }
        Phase::OutboundBacklog | Phase::ReaderParked => {
            // fill the outbound queue while the client is not reading
            if let Some(p) = peers.get(PeerId(id)) {
                for _ in 0..400 {
                    let _ = p.send_notify("/flood", NotifyBody::Raw(vec![7u8; 2048], BodyFormat::RawBinary));
                }
            }
            if sc.phase == Phase::ReaderParked {
                // inline requests behind the full queue: the reader blocks handing over the first response
                for k in 0..3u64 {
                    io.send(&frame_with(40 + k, 0, b"/ping", 1, b"null", 2, 0)).await.map_err(|e| Fail::new("harness-send", e.to_string()))?;
                }
                tokio::time::sleep(Duration::from_millis(30)).await;
            }
        }
    }
    // --- presence just before the trigger
    ensure!(
        present(peers, id),
        "peer-missing-while-connected",
        "[{tag}] peer {id} or its alias does not resolve just before the exit trigger"
    );
    // --- trigger
    let mut io_opt = Some(io);
    match sc.cause {
        Cause::CleanClose => {
            if matches!(sc.phase, Phase::OutboundBacklog | Phase::ReaderParked) {
                // a Close handshake needs the client to read; send the Close frame and then read on
                let io = io_opt.as_mut().unwrap();
                let _ = io.ws.send(repe::tokio_tungstenite::tungstenite::Message::Close(None)).await;
            } else {
                let io = io_opt.as_mut().unwrap();
                let _ = io.ws.send(repe::tokio_tungstenite::tungstenite::Message::Close(None)).await;
            }
        }
        Cause::AbruptLoss => {
            io_opt = None;
        }
        Cause::TextFrame => {
            let _ = io_opt.as_mut().unwrap().send_text("not binary").await;
        }
        Cause::UnmaskedFrame => {
            let s = io_opt.as_mut().unwrap().ws.get_mut();
            let _ = s.write_all(&[0x82, 0x01, 0x00]).await;
            let _ = s.flush().await;
        }
        Cause::BadMagic => {
            let mut f = frame_with(9, 0, b"/ping", 1, b"null", 2, 0);
            f[8] = 0;
            let _ = io_opt.as_mut().unwrap().send(&f).await;
        }
        Cause::TrailingBytes => {
            let mut f = frame_with(9, 0, b"/ping", 1, b"null", 2, 0);
            f.extend_from_slice(&[1, 2, 3]);
            let _ = io_opt.as_mut().unwrap().send(&f).await;
        }
        Cause::InlinePanic => {
            let _ = io_opt.as_mut().unwrap().send(&frame_with(9, 0, b"/panic", 1, b"null", 2, 0)).await;
        }
        Cause::EmbedderCancel => {
            if let Some(t) = &cancel {
                t.cancel();
            }
        }
        Cause::ConnectPanicFirst | Cause::ConnectPanicSecond => unreachable!("handled by check_connect_panic"),
    }
    // an inline handler holds the reader; after an embedder cancellation it is told
    // through its context, like any handler that is still running when the connection ends
    if sc.phase == Phase::InlineRunning && sc.cause == Cause::EmbedderCancel {
        let (e, i) = (env.clone(), id);
        let ok = tokio::task::spawn_blocking(move || e.wait_set(&e.inline_cancel_seen, i, watchdog())).await.unwrap();
        ensure!(
            ok,
            "handler-not-cancelled",
            "[{tag}] the inline handler of peer {id} did not observe cancellation within {:?} of the embedder's cancellation",
            watchdog()
        );
    }
    // otherwise let it return so the reader can notice the exit
    if sc.phase == Phase::InlineRunning {
        env.release(id);
    }
    // a client that holds a backlog must read (or go away) for the server's writer to
    // finish — except after an embedder cancellation, which has to end the connection
    // (disconnect hooks, registry) while the client still is not reading; there the
    // client starts reading only after that was checked
    let spawn_reader = |mut io: WsIo<S>| {
        tokio::spawn(async move {
            while let Ok(Ok(Some(_))) = tokio::time::timeout(Duration::from_secs(15), io.recv_raw()).await {}
        })
    };
    let hold_unread = sc.cause == Cause::EmbedderCancel && matches!(sc.phase, Phase::OutboundBacklog | Phase::ReaderParked);
    let mut held = if hold_unread { io_opt.take() } else { None };
    let mut reader = io_opt.map(spawn_reader);

    // --- the disconnect callback runs, exactly once
    let (e, i) = (env.clone(), id);
    let n = tokio::task::spawn_blocking(move || e.wait_disconnect(i, watchdog())).await.unwrap();
    ensure!(
        n == 1,
        if n == 0 { "disconnect-hook-missing" } else { "disconnect-hook-repeated" },
        "[{tag}] the disconnect callback ran {n} times for peer {id} within {:?} of the exit trigger",
        watchdog()
    );
    ensure!(
        peers.get(PeerId(id)).is_none() && peers.get_by(alias_of(id).as_str()).is_none(),
        "peer-present-after-disconnect",
        "[{tag}] peer {id} (get: {}, alias: {}) still resolves after the disconnect callbacks ran",
        peers.get(PeerId(id)).is_some(),
        peers.get_by(alias_of(id).as_str()).is_some()
    );
    if let Some(io) = held.take() {
        reader = Some(spawn_reader(io));
    }
    if sc.phase == Phase::OffReaderParked {
        let (e, i) = (env.clone(), id);
        let ok = tokio::task::spawn_blocking(move || e.wait_set(&e.off_cancel_seen, i, watchdog())).await.unwrap();
        ensure!(
            ok,
            "handler-not-cancelled",
            "[{tag}] the off-reader handler of peer {id} did not observe cancellation within {:?} after the connection ended",
            watchdog()
        );
    }
    env.release(id);
    if let Some(h) = server_done {
        match tokio::time::timeout(watchdog(), h).await {
            Ok(_) => {}
            Err(_) => {
                return Err(Fail::new(
                    "connection-future-hangs",
                    format!("[{tag}] serve_connection for peer {id} had not returned {:?} after the connection ended", watchdog()),
                ));
            }
        }
    }
    if let Some(r) = reader {
        r.abort();
    }
    // still exactly once
    let n = env.disconnects.lock().unwrap().get(&id).copied().unwrap_or(0);
    ensure!(n == 1, "disconnect-hook-repeated", "[{tag}] the disconnect callback ran {n} times for peer {id}");
    Ok(())
}

pub fn check(c: &Case) -> CheckResult {
    let env = Arc::new(Env::default());
    let peers = PeerRegistry::new();
    let server = build_server(env.clone(), peers.clone());
    let nconn = c.conns.len();
    let entry = c.entry;
    let conns = c.conns.clone();
    let (env2, peers2) = (env.clone(), peers.clone());
    let res: Result<(), Fail> = block_on(async move {
        let mut tasks = Vec::new();
        match entry {
            Entry::AcceptLoop => {
                let listener = WebSocketServer::listen(crate::util::lo0().as_str()).await.map_err(|e| Fail::new("harness-listen", e.to_string()))?;
                let addr = listener.local_addr().unwrap();
                let srv = tokio::spawn(async move {
                    let _ = server.serve_listener(listener, "/repe").await;
                });
                for sc in conns {
                    let (env, peers) = (env2.clone(), peers2.clone());
                    tasks.push(tokio::spawn(async move {
                        let url = format!("ws://{addr}/repe");
                        let (ws, _) = repe::tokio_tungstenite::connect_async(&url).await.map_err(|e| Fail::new("harness-connect", e.to_string()))?;
                        drive(&env, &peers, sc, Client { io: WsIo::new(ws) }, None, None).await
                    }));
                }
                let mut out = Ok(());
                for t in tasks {
                    let r = t.await.map_err(|_| Fail::new("panic", "scenario task panicked"))?;
                    if out.is_ok() {
                        out = r;
                    }
                }
                srv.abort();
                out
            }
            Entry::ServeConnection | Entry::ServeConnectionWithCancel => {
                let shared: SharedWebSocketServer = server.into_shared();
                for sc in conns {
                    let (env, peers, shared) = (env2.clone(), peers2.clone(), shared.clone());
                    tasks.push(tokio::spawn(async move {
                        // small duplex so an unread backlog really backs up
                        let (client_half, server_half) = tokio::io::duplex(4096);
                        let ws = shared.adopt_upgraded(server_half).await;
                        let token = (entry == Entry::ServeConnectionWithCancel || sc.cause == Cause::EmbedderCancel).then(ShutdownToken::new);
                        let (sh, tok) = (shared.clone(), token.clone());
                        let server_done = tokio::spawn(async move {
                            match tok {
                                Some(t) => sh.serve_connection_with_cancel(ws, &t).await,
                                None => sh.serve_connection(ws).await,
                            }
                        });
                        let cws = WebSocketStream::from_raw_socket(client_half, Role::Client, None).await;
                        drive(&env, &peers, sc, Client { io: WsIo::new(cws) }, Some(server_done), token).await
                    }));
                }
                let mut out = Ok(());
                for t in tasks {
                    let r = t.await.map_err(|_| Fail::new("panic", "scenario task panicked"))?;
                    if out.is_ok() {
                        out = r;
                    }
                }
                out
            }
        }
    });
    res?;
    let problems = env.problems.lock().unwrap().clone();
    ensure!(problems.is_empty(), "peer-missing-while-connected", "{}", problems.join("; "));
    let connects = env.connects.lock().unwrap().len();
    ensure!(connects == nconn, "connect-hook-count", "{connects} connect callbacks for {nconn} connections");
    ensure!(peers.is_empty(), "registry-not-empty", "{} peers remain registered after every connection ended", peers.len());
    let nontrivial = c.conns.iter().any(|s| s.cause != Cause::CleanClose || s.phase != Phase::Idle);
    let mut info = CaseInfo::new(nontrivial).class(format!("{:?}", c.entry)).class(match nconn {
        1 => "conns=1",
        2..=8 => "conns=2-8",
        _ => "conns>8",
    });
    for s in &c.conns {
        info = info.class(format!("cause={:?}", s.cause)).class(format!("phase={:?}", s.phase));
    }
    Ok(info)
}

// ------------------------------------------------- connect-callback panics

#[derive(Debug, Clone, Serialize, Deserialize, Hash, PartialEq, Eq)]
pub struct PanicCase {
    pub second: bool,
    pub entry: Entry,
}

pub fn check_connect_panic(c: &PanicCase) -> CheckResult {
    let env = Arc::new(Env::default());
    let peers = PeerRegistry::new();
    if c.second {
        *env.panic_second.lock().unwrap() = true;
    } else {
        *env.panic_first.lock().unwrap() = true;
    }
    let server = build_server(env.clone(), peers.clone());
    let entry = c.entry;
    block_on(async move {
        match entry {
            Entry::AcceptLoop => {
                let listener = WebSocketServer::listen(crate::util::lo0().as_str()).await.map_err(|e| Fail::new("harness-listen", e.to_string()))?;
                let addr = listener.local_addr().unwrap();
                let srv = tokio::spawn(async move {
                    let _ = server.serve_listener(listener, "/repe").await;
                });
                let url = format!("ws://{addr}/repe");
                let r = repe::tokio_tungstenite::connect_async(&url).await;
                if let Ok((ws, _)) = r {
                    let mut io = WsIo::new(ws);
                    // the connection dies with the panicking callback
                    let _ = tokio::time::timeout(watchdog(), async { while let Ok(Some(_)) = io.recv_raw().await {} }).await;
                }
                tokio::time::sleep(Duration::from_millis(20)).await;
                srv.abort();
            }
            _ => {
                let shared = server.into_shared();
                let (client_half, server_half) = tokio::io::duplex(4096);
                let ws = shared.adopt_upgraded(server_half).await;
                let h = tokio::spawn(async move { shared.serve_connection(ws).await });
                let _cws = WebSocketStream::from_raw_socket(client_half, Role::Client, None).await;
                match tokio::time::timeout(watchdog(), h).await {
                    Ok(Err(j)) if j.is_panic() => {}
                    Ok(_) => {}
                    Err(_) => return Err(Fail::new("connection-future-hangs", "serve_connection did not end after a connect callback panicked")),
                }
            }
        }
        Ok::<(), Fail>(())
    })?;
    let connects = env.connects.lock().unwrap().clone();
    ensure!(connects.len() == 1, "connect-hook-count", "{} connect callbacks ran", connects.len());
    let id = connects[0];
    let n = env.wait_disconnect(id, watchdog());
    ensure!(
        n == 1,
        if n == 0 { "disconnect-hook-missing" } else { "disconnect-hook-repeated" },
        "a connect callback ({}) panicked; the disconnect callback ran {n} times for peer {id}",
        if c.second { "second" } else { "first" }
    );
    ensure!(
        peers.get(PeerId(id)).is_none() && peers.get_by(alias_of(id).as_str()).is_none() && peers.is_empty(),
        "peer-present-after-disconnect",
        "peer {id} is still registered after its connect callback panicked"
    );
    Ok(CaseInfo::new(true).class(if c.second { "cause=ConnectPanicSecond" } else { "cause=ConnectPanicFirst" }).class(format!("{:?}", c.entry)))
}

// ---------------------------------------------- cancellation around the connect hooks

/// Embedder cancellation that lands before, during or right after the connect
/// callbacks (`delay_us` after `serve_connection_with_cancel` was started; 0 = the
/// token is already cancelled when serving starts). The lifecycle stays paired: the
/// connect callbacks ran once, the disconnect callback runs once, the registry ends
/// up empty.
#[derive(Debug, Clone, Serialize, Deserialize, Hash, PartialEq, Eq)]
pub struct EarlyCancel {
    pub delay_us: u16,
}

pub fn check_cancel_early(c: &EarlyCancel) -> CheckResult {
    let env = Arc::new(Env::default());
    let peers = PeerRegistry::new();
    let shared = build_server(env.clone(), peers.clone()).into_shared();
    let delay = c.delay_us;
    block_on(async move {
        let (client_half, server_half) = tokio::io::duplex(1 << 16);
        let ws = shared.adopt_upgraded(server_half).await;
        let token = ShutdownToken::new();
        if delay == 0 {
            token.cancel();
        }
        let (sh, tok) = (shared.clone(), token.clone());
        let h = tokio::spawn(async move { sh.serve_connection_with_cancel(ws, &tok).await });
        let cws = WebSocketStream::from_raw_socket(client_half, Role::Client, None).await;
        let mut io = WsIo::new(cws);
        if delay > 0 {
            tokio::time::sleep(Duration::from_micros(delay as u64)).await;
            token.cancel();
        }
        // the client reads whatever arrives until the server is done
        let reader = tokio::spawn(async move { while let Ok(Ok(Some(_))) = tokio::time::timeout(Duration::from_secs(15), io.recv_raw()).await {} });
        let r = tokio::time::timeout(watchdog(), h).await;
        reader.abort();
        ensure!(r.is_ok(), "connection-future-hangs", "serve_connection_with_cancel did not return {:?} after the cancellation", watchdog());
        Ok::<(), Fail>(())
    })?;
    let connects = env.connects.lock().unwrap().clone();
    let disconnects: Vec<(u64, usize)> = env.disconnects.lock().unwrap().iter().map(|(k, v)| (*k, *v)).collect();
    ensure!(
        disconnects.len() == 1 && disconnects[0].1 == 1,
        if disconnects.is_empty() { "disconnect-hook-missing" } else { "disconnect-hook-repeated" },
        "cancellation {} us after serving started: disconnect callbacks ran as {disconnects:?} (connect callbacks for {connects:?})",
        c.delay_us
    );
    ensure!(
        connects == vec![disconnects[0].0],
        "disconnect-without-connect",
        "cancellation {} us after serving started: the disconnect callback ran for peer {} but the connect callbacks ran for {connects:?}",
        c.delay_us,
        disconnects[0].0
    );
    ensure!(peers.is_empty(), "registry-not-empty", "{} peers remain registered after the cancelled connection ended", peers.len());
    let problems = env.problems.lock().unwrap().clone();
    ensure!(problems.is_empty(), "peer-missing-while-connected", "{}", problems.join("; "));
    Ok(CaseInfo::new(true).class(if c.delay_us == 0 { "cancelled-before-serving" } else { "cancelled-around-connect" }))
}

// ------------------------------------------ a server without any disconnect hook

/// "Handlers still running when the connection ends observe cancellation" does not
/// depend on the embedder having registered disconnect callbacks or a registry.
#[derive(Debug, Clone, Serialize, Deserialize, Hash, PartialEq, Eq)]
pub struct BareCase {
    pub cause: Cause,
    pub accept_loop: bool,
}

pub fn check_bare_server(c: &BareCase) -> CheckResult {
    #[derive(Default)]
    struct Flags {
        m: Mutex<(bool, bool)>, // (started, cancellation seen)
        cv: Condvar,
    }
    let flags = Arc::new(Flags::default());
    let f2 = flags.clone();
    let router = Router::new()
        .with_json_ctx_blocking("/off_gate", move |ctx: &CallContext, _v: Value| {
            f2.m.lock().unwrap().0 = true;
            f2.cv.notify_all();
            let deadline = std::time::Instant::now() + Duration::from_secs(20);
            while !ctx.is_cancelled() && std::time::Instant::now() < deadline {
                std::thread::sleep(Duration::from_millis(1));
            }
            if ctx.is_cancelled() {
                f2.m.lock().unwrap().1 = true;
                f2.cv.notify_all();
            }
            Ok(json!("done"))
        })
        .with_json("/ping", |_v: Value| Ok(json!("pong")));
    let server = WebSocketServer::new(router).on_error(|_e| {});
    let flags_w = flags.clone();
    let wait = move |which: usize| {
        let flags = flags_w;
        let deadline = std::time::Instant::now() + watchdog();
        let mut g = flags.m.lock().unwrap();
        loop {
            let v = if which == 0 { g.0 } else { g.1 };
            if v {
                return true;
            }
            let now = std::time::Instant::now();
            if now >= deadline {
                return false;
            }
            g = flags.cv.wait_timeout(g, deadline - now).unwrap().0;
        }
    };
    let cause = c.cause;
    let accept_loop = c.accept_loop;
    let (started, cancelled) = block_on(async {
        async fn drive<S>(mut io: WsIo<S>, cause: Cause, wait_started: impl FnOnce() -> bool + Send + 'static) -> Result<bool, Fail>
        where
            S: tokio::io::AsyncRead + tokio::io::AsyncWrite + Unpin + Send + 'static,
        {
            io.send(&frame_with(3, 0, b"/off_gate", 1, b"null", 2, 0)).await.map_err(|e| Fail::new("harness-send", e.to_string()))?;
            let started = tokio::task::spawn_blocking(wait_started).await.unwrap();
            if !started {
                return Ok(false);
            }
            match cause {
                Cause::AbruptLoss => drop(io),
                Cause::TextFrame => {
                    let _ = io.send_text("not binary").await;
                    tokio::spawn(async move { while let Ok(Ok(Some(_))) = tokio::time::timeout(Duration::from_secs(15), io.recv_raw()).await {} });
                }
                Cause::BadMagic => {
                    let mut f = frame_with(9, 0, b"/ping", 1, b"null", 2, 0);
                    f[8] = 0;
                    let _ = io.send(&f).await;
                    tokio::spawn(async move { while let Ok(Ok(Some(_))) = tokio::time::timeout(Duration::from_secs(15), io.recv_raw()).await {} });
                }
                _ => {
                    let _ = io.ws.send(repe::tokio_tungstenite::tungstenite::Message::Close(None)).await;
                    tokio::spawn(async move { while let Ok(Ok(Some(_))) = tokio::time::timeout(Duration::from_secs(15), io.recv_raw()).await {} });
                }
            }
            Ok(true)
        }
        let flags_a = flags.clone();
        let wait_started = move || {
            let deadline = std::time::Instant::now() + watchdog();
            let mut g = flags_a.m.lock().unwrap();
            while !g.0 {
                let now = std::time::Instant::now();
                if now >= deadline {
                    return false;
                }
                g = flags_a.cv.wait_timeout(g, deadline - now).unwrap().0;
            }
            true
        };
        let started = if accept_loop {
            let listener = WebSocketServer::listen(crate::util::lo0().as_str()).await.map_err(|e| Fail::new("harness-listen", e.to_string()))?;
            let addr = listener.local_addr().unwrap();
            crate::peers::net::defer_drop(crate::peers::net::AbortOnDrop(tokio::spawn(async move {
                let _ = server.serve_listener(listener, "/repe").await;
            })));
            let (ws, _) = repe::tokio_tungstenite::connect_async(format!("ws://{addr}/repe"))
                .await
                .map_err(|e| Fail::new("harness-connect", e.to_string()))?;
            drive(WsIo::new(ws), cause, wait_started).await?
        } else {
            let shared = server.into_shared();
            let (client_half, server_half) = tokio::io::duplex(1 << 16);
            let ws = shared.adopt_upgraded(server_half).await;
            tokio::spawn(async move { shared.serve_connection(ws).await });
            let cws = WebSocketStream::from_raw_socket(client_half, Role::Client, None).await;
            drive(WsIo::new(cws), cause, wait_started).await?
        };
        let cancelled = if started { tokio::task::spawn_blocking(move || wait(1)).await.unwrap() } else { false };
        Ok::<_, Fail>((started, cancelled))
    })?;
    ensure!(started, "handler-not-started", "the off-reader handler did not start");
    ensure!(
        cancelled,
        "handler-not-cancelled",
        "server without disconnect hooks or registry ({}): the parked off-reader handler did not observe cancellation within {:?} after the connection ended by {:?}",
        if c.accept_loop { "accept loop" } else { "serve_connection" },
        watchdog(),
        c.cause
    );
    Ok(CaseInfo::new(true).class(format!("bare:{:?}", c.cause)))
}

// ------------------------------------- the sending direction dies before the reader

/// The server's writes to a connection start failing while its reads still work (the
/// connection has not ended yet: no disconnect callback has run). A push to the peer
/// fails; the peer and its alias must nevertheless stay resolvable until the
/// disconnect callbacks run, and be gone afterwards.
pub fn check_half_dead(_unit: &bool) -> CheckResult {
    use std::sync::atomic::AtomicBool;
    let env = Arc::new(Env::default());
    let peers = PeerRegistry::new();
    let shared = build_server(env.clone(), peers.clone()).into_shared();
    let dead = Arc::new(AtomicBool::new(false));
    let (env2, peers2, dead2) = (env.clone(), peers.clone(), dead.clone());
    block_on(async move {
        let (client_half, server_half) = tokio::io::duplex(1 << 16);
        let ws = shared
            .adopt_upgraded(crate::peers::dws::HalfDead {
                inner: server_half,
                writes_fail: dead2.clone(),
            })
            .await;
        let sh = shared.clone();
        let server_done = tokio::spawn(async move { sh.serve_connection(ws).await });
        let cws = WebSocketStream::from_raw_socket(client_half, Role::Client, None).await;
        let mut io = WsIo::new(cws);
        io.send(&frame_with(1, 0, b"/ping", 1, b"null", 2, 0)).await.map_err(|e| Fail::new("harness-send", e.to_string()))?;
        let mut id = None;
        for _ in 0..3 {
            match tokio::time::timeout(watchdog(), io.recv()).await {
                Ok(Ok(Some(f))) => {
                    if f.path() == "/hello1" {
                        id = serde_json::from_slice::<Value>(&f.body).ok().and_then(|v| v.get("peer").and_then(Value::as_u64));
                    }
                }
                _ => return Err(Fail::new("connect-frames-missing", "the connect notifies and the first response did not arrive")),
            }
        }
        let id = id.ok_or_else(|| Fail::new("harness-peer-id", "no peer id in /hello1"))?;
        ensure!(present(&peers2, id), "peer-missing-while-connected", "peer {id} does not resolve on a healthy connection");
        // the sending direction dies; a push makes the server notice
        dead2.store(true, std::sync::atomic::Ordering::SeqCst);
        if let Some(p) = peers2.get(PeerId(id)) {
            let _ = p.send_notify("/after", NotifyBody::Raw(vec![1, 2, 3], BodyFormat::RawBinary));
        }
        tokio::time::sleep(Duration::from_millis(60)).await;
        let ended = env2.disconnects.lock().unwrap().get(&id).copied().unwrap_or(0) > 0;
        ensure!(
            ended || present(&peers2, id),
            "peer-missing-while-connected",
            "peer {id} (get: {}, alias: {}) stopped resolving after its sending direction failed although its disconnect callbacks have not run",
            peers2.get(PeerId(id)).is_some(),
            peers2.get_by(alias_of(id).as_str()).is_some()
        );
        // the client goes away: now the connection ends
        drop(io);
        let (e, i) = (env2.clone(), id);
        let n = tokio::task::spawn_blocking(move || e.wait_disconnect(i, watchdog())).await.unwrap();
        ensure!(n == 1, if n == 0 { "disconnect-hook-missing" } else { "disconnect-hook-repeated" }, "the disconnect callback ran {n} times for peer {id}");
        ensure!(
            peers2.get(PeerId(id)).is_none() && peers2.get_by(alias_of(id).as_str()).is_none(),
            "peer-present-after-disconnect",
            "peer {id} still resolves after its disconnect callbacks ran"
        );
        let _ = tokio::time::timeout(watchdog(), server_done).await;
        Ok(CaseInfo::new(true).class(if ended { "connection-ended-with-the-write-failure" } else { "half-dead-window-observed" }))
    })
}

// ----------------------------------------- two servers feeding one peer registry

/// One `PeerRegistry` attached to two servers: every connection's peer (and alias) is
/// present from its connect until its own disconnect, whatever happens on the other
/// server; ids never collide.
pub fn check_shared_registry(order: &bool) -> CheckResult {
    let close_a_first = *order;
    let peers = PeerRegistry::new();
    let ids: Arc<Mutex<Vec<(u8, u64)>>> = Arc::new(Mutex::new(Vec::new()));
    let gone: Arc<Mutex<Vec<u64>>> = Arc::new(Mutex::new(Vec::new()));
    let mk = |tag: u8| {
        let (ids, gone, reg) = (ids.clone(), gone.clone(), peers.clone());
        WebSocketServer::new(Router::new().with_json("/ping", |_v: Value| Ok(json!("pong"))))
            .with_peer_registry(peers.clone())
            .on_peer_connect(move |peer| {
                reg.alias(peer.peer_id(), format!("srv{tag}-{}", peer.peer_id().0));
                ids.lock().unwrap().push((tag, peer.peer_id().0));
            })
            .on_peer_disconnect(move |id| gone.lock().unwrap().push(id.0))
            .on_error(|_e| {})
            .into_shared()
    };
    let (s1, s2) = (mk(1), mk(2));
    let wait_for = |f: &dyn Fn() -> bool| {
        let deadline = std::time::Instant::now() + watchdog();
        while !f() && std::time::Instant::now() < deadline {
            std::thread::sleep(Duration::from_millis(1));
        }
        f()
    };
    block_on(async {
        let a = crate::peers::dws::connect(&s1, 1 << 16).await;
        let b = crate::peers::dws::connect(&s2, 1 << 16).await;
        let (mut io_a, mut io_b) = (a.io, b.io);
        // a round trip on each, so both connect hooks have certainly run
        for io in [&mut io_a, &mut io_b] {
            io.send(&frame_with(1, 0, b"/ping", 1, b"null", 2, 0)).await.map_err(|e| Fail::new("harness-send", e.to_string()))?;
            match tokio::time::timeout(watchdog(), io.recv()).await {
                Ok(Ok(Some(_))) => {}
                _ => return Err(Fail::new("no-reply", "ping on a fresh connection was not answered")),
            }
        }
        let seen = ids.lock().unwrap().clone();
        ensure!(seen.len() == 2, "connect-hook-count", "connect callbacks ran for {seen:?}");
        let id_a = seen.iter().find(|(t, _)| *t == 1).map(|(_, i)| *i).unwrap_or(u64::MAX);
        let id_b = seen.iter().find(|(t, _)| *t == 2).map(|(_, i)| *i).unwrap_or(u64::MAX);
        ensure!(id_a != id_b, "peer-id-collision", "two servers sharing one registry minted the same peer id {id_a} for different connections");
        let present = |id: u64, tag: u8| peers.get(PeerId(id)).is_some() && peers.get_by(format!("srv{tag}-{id}").as_str()).map(|p| p.peer_id().0) == Some(id);
        ensure!(
            present(id_a, 1) && present(id_b, 2),
            "peer-missing-while-connected",
            "with both connections up: peer {id_a} present: {}, peer {id_b} present: {}",
            present(id_a, 1),
            present(id_b, 2)
        );
        let (first, first_id, second, second_id, second_tag) = if close_a_first { (io_a, id_a, io_b, id_b, 2) } else { (io_b, id_b, io_a, id_a, 1) };
        drop(first);
        let g2 = gone.clone();
        let ok = tokio::task::spawn_blocking(move || {
            let deadline = std::time::Instant::now() + watchdog();
            while !g2.lock().unwrap().contains(&first_id) && std::time::Instant::now() < deadline {
                std::thread::sleep(Duration::from_millis(1));
            }
            g2.lock().unwrap().contains(&first_id)
        })
        .await
        .unwrap();
        ensure!(ok, "disconnect-hook-missing", "the disconnect callback for peer {first_id} did not run");
        ensure!(peers.get(PeerId(first_id)).is_none(), "peer-present-after-disconnect", "peer {first_id} still resolves after its disconnect");
        ensure!(
            present(second_id, second_tag),
            "peer-missing-while-connected",
            "peer {second_id} (other server, still connected) no longer resolves after peer {first_id} disconnected"
        );
        drop(second);
        Ok(())
    })?;
    ensure!(wait_for(&|| peers.is_empty()), "registry-not-empty", "{} peers remain registered after both connections ended", peers.len());
    let g = gone.lock().unwrap().clone();
    ensure!(g.len() == 2, "disconnect-hook-count", "disconnect callbacks ran for {g:?}");
    Ok(CaseInfo::new(true).class("shared-registry"))
}

// -------------------------------------- handshake failures and graceful drain

#[derive(Debug, Clone, Serialize, Deserialize, Hash, PartialEq, Eq)]
pub struct LoopCase {
    /// connections that fail the handshake: true = wrong path, false = non-HTTP bytes
    pub bad_handshakes: Vec<bool>,
    /// good connections; true = parks an uncooperative off-reader handler
    pub good: Vec<bool>,
    pub drain_ms: u16,
}

pub fn check_accept_loop(c: &LoopCase) -> CheckResult {
    let env = Arc::new(Env::default());
    let peers = PeerRegistry::new();
    let server = build_server(env.clone(), peers.clone());
    let (env2, peers2) = (env.clone(), peers.clone());
    let c2 = c.clone();
    let ids: Vec<u64> = block_on(async move {
        let listener = WebSocketServer::listen(crate::util::lo0().as_str()).await.map_err(|e| Fail::new("harness-listen", e.to_string()))?;
        let addr = listener.local_addr().unwrap();
        let shutdown = ShutdownToken::new();
        let sd = shutdown.clone();
        let srv = tokio::spawn(async move {
            server
                .serve_listener_with_graceful_drain(listener, "/repe", async move { sd.cancelled().await }, Duration::from_millis(c2.drain_ms as u64))
                .await
        });
        // failed handshakes first
        for wrong_path in &c2.bad_handshakes {
            if *wrong_path {
                let r = repe::tokio_tungstenite::connect_async(format!("ws://{addr}/wrong")).await;
                ensure!(r.is_err(), "handshake-accepted-wrong-path", "a handshake on the wrong path succeeded");
            } else {
                let mut s = tokio::net::TcpStream::connect(addr).await.map_err(|e| Fail::new("harness-connect", e.to_string()))?;
                let _ = s.write_all(b"\x00\x01garbage that is not http\r\n\r\n").await;
                let _ = s.shutdown().await;
            }
        }
        // good connections
        let mut ios = Vec::new();
        let mut ids = Vec::new();
        for parks in &c2.good {
            let (ws, _) = repe::tokio_tungstenite::connect_async(format!("ws://{addr}/repe")).await.map_err(|e| Fail::new("harness-connect", e.to_string()))?;
            let mut io = WsIo::new(ws);
            let f = match tokio::time::timeout(watchdog(), io.recv()).await {
                Ok(Ok(Some(f))) => f,
                _ => return Err(Fail::new("connect-frames-missing", "no /hello1 on a good connection")),
            };
            let id = serde_json::from_slice::<Value>(&f.body).ok().and_then(|v| v.get("peer").and_then(Value::as_u64)).unwrap_or(u64::MAX);
            ids.push(id);
            if *parks {
                io.send(&frame_with(3, 0, b"/off_gate", 1, b"null", 2, 0)).await.map_err(|e| Fail::new("harness-send", e.to_string()))?;
                let (e, i) = (env2.clone(), id);
                let ok = tokio::task::spawn_blocking(move || e.wait_set(&e.off_started, i, watchdog())).await.unwrap();
                ensure!(ok, "handler-not-started", "off-reader handler did not start");
            }
            ios.push(io);
        }
        for id in &ids {
            ensure!(present(&peers2, *id), "peer-missing-while-connected", "peer {id} does not resolve while connected");
        }
        // shut down: stop accepting, cancel, drain with a deadline, abort the stragglers
        shutdown.cancel();
        match tokio::time::timeout(watchdog(), srv).await {
            Ok(_) => {}
            Err(_) => return Err(Fail::new("drain-hangs", "serve_listener_with_graceful_drain did not return after shutdown")),
        }
        drop(ios);
        Ok::<_, Fail>(ids)
    })?;
    // failed handshakes: no connect callback, no disconnect callback
    let connects = env.connects.lock().unwrap().len();
    ensure!(
        connects == c.good.len(),
        "hook-for-failed-handshake",
        "{connects} connect callbacks ran for {} good connections and {} failed handshakes",
        c.good.len(),
        c.bad_handshakes.len()
    );
    for id in &ids {
        let n = env.wait_disconnect(*id, watchdog());
        ensure!(
            n == 1,
            if n == 0 { "disconnect-hook-missing" } else { "disconnect-hook-repeated" },
            "after the graceful drain (deadline {} ms) the disconnect callback ran {n} times for peer {id}",
            c.drain_ms
        );
        let (e, i) = (env.clone(), *id);
        if env.off_started.lock().unwrap().contains(id) {
            ensure!(
                e.wait_set(&e.off_cancel_seen, i, watchdog()),
                "handler-not-cancelled",
                "the parked off-reader handler of peer {id} did not observe cancellation after shutdown"
            );
        }
    }
    let total: usize = env.disconnects.lock().unwrap().values().sum();
    ensure!(total == ids.len(), "hook-for-failed-handshake", "{total} disconnect callbacks for {} accepted connections", ids.len());
    ensure!(peers.is_empty(), "registry-not-empty", "{} peers remain registered after the drain", peers.len());
    Ok(CaseInfo::new(true)
        .class("graceful-drain")
        .class(if c.bad_handshakes.is_empty() { "no-failed-handshake" } else { "failed-handshakes" })
        .class(if c.good.iter().any(|p| *p) { "parked-handler-at-shutdown" } else { "idle-at-shutdown" }))
}

// ------------------------------------------------------------------ generators

const CAUSES: [Cause; 8] = [
    Cause::CleanClose,
    Cause::AbruptLoss,
    Cause::TextFrame,
    Cause::UnmaskedFrame,
    Cause::BadMagic,
    Cause::TrailingBytes,
    Cause::InlinePanic,
    Cause::EmbedderCancel,
];
const PHASES: [Phase; 5] = [Phase::Idle, Phase::InlineRunning, Phase::OffReaderParked, Phase::OutboundBacklog, Phase::ReaderParked];

fn valid(entry: Entry, s: &Scenario) -> bool {
    // embedder cancellation needs the with_cancel entry point; an inline handler that
    // holds the reader cannot be interrupted by a cancel (the reader is inside it)
    if s.cause == Cause::EmbedderCancel && entry == Entry::AcceptLoop {
        return false;
    }
    // a panicking inline request cannot be read while another inline handler holds the reader... it is
    // simply handled after the gate opens: fine. An unread backlog with a clean Close relies on the
    // client reading afterwards: handled by the background reader.
    true
}

fn grid() -> Vec<Case> {
    let mut v = Vec::new();
    for entry in [Entry::AcceptLoop, Entry::ServeConnection, Entry::ServeConnectionWithCancel] {
        for cause in CAUSES {
            for phase in PHASES {
                let s = Scenario { cause, phase };
                if valid(entry, &s) {
                    v.push(Case { entry, conns: vec![s] });
                }
            }
        }
    }
    v
}

fn case() -> BoxedStrategy<Case> {
    (
        prop::sample::select(vec![Entry::AcceptLoop, Entry::ServeConnection, Entry::ServeConnectionWithCancel]),
        prop::collection::vec((prop::sample::select(CAUSES.to_vec()), prop::sample::select(PHASES.to_vec())), 1..=32),
    )
        .prop_map(|(entry, raw)| {
            // An inline handler occupies a runtime worker while it is parked; keep the number
            // of simultaneously parked inline handlers well below the runtime's worker count.
            let mut inline = 0;
            let conns: Vec<Scenario> = raw
                .into_iter()
                .map(|(cause, phase)| Scenario { cause, phase })
                .map(|s| if valid(entry, &s) { s } else { Scenario { cause: Cause::AbruptLoss, phase: s.phase } })
                .map(|s| {
                    if s.phase == Phase::InlineRunning {
                        inline += 1;
                        if inline > 12 {
                            return Scenario { cause: s.cause, phase: Phase::OffReaderParked };
                        }
                    }
                    s
                })
                .collect();
            Case { entry, conns }
        })
        .boxed()
}

pub fn run(ctx: &Ctx, rep: &Report) {
    run_enum(ctx, rep, "grid", &grid(), true, &check);
    let panics: Vec<PanicCase> = [Entry::AcceptLoop, Entry::ServeConnection]
        .into_iter()
        .flat_map(|entry| [false, true].into_iter().map(move |second| PanicCase { second, entry }))
        .collect();
    run_enum(ctx, rep, "connect-panic", &panics, true, &check_connect_panic);
    let bare: Vec<BareCase> = [Cause::CleanClose, Cause::AbruptLoss, Cause::TextFrame, Cause::BadMagic]
        .into_iter()
        .flat_map(|cause| [false, true].into_iter().map(move |accept_loop| BareCase { cause, accept_loop }))
        .collect();
    run_enum(ctx, rep, "bare-server", &bare, true, &check_bare_server);
    run_enum(ctx, rep, "shared-registry", &[true, false], true, &check_shared_registry);
    run_enum(ctx, rep, "half-dead", &[true], true, &check_half_dead);
    let early: Vec<EarlyCancel> = [0u16, 0, 1, 5, 20, 50, 100, 200, 400, 800, 1500, 3000].into_iter().map(|delay_us| EarlyCancel { delay_us }).collect();
    run_enum(ctx, rep, "cancel-early", &early, false, &check_cancel_early);
    run_prop(ctx, rep, "cancel-early", ctx.tier.pick(60, 5_000), &|| (0u16..2000).prop_map(|delay_us| EarlyCancel { delay_us }).boxed(), &check_cancel_early);
    // few check threads: parked inline handlers occupy runtime workers (see `case`)
    run_prop_threads(ctx, rep, "random", ctx.tier.pick(300, 15_000), ctx.threads.min(3), &|| case(), &check);
    run_prop(
        ctx,
        rep,
        "accept-loop",
        ctx.tier.pick(60, 3_000),
        &|| {
            (prop::collection::vec(any::<bool>(), 0..4), prop::collection::vec(any::<bool>(), 1..6), 20u16..150)
                .prop_map(|(bad_handshakes, good, drain_ms)| LoopCase { bad_handshakes, good, drain_ms })
                .boxed()
        },
        &check_accept_loop,
    );
}

pub fn replay(sub: &str, case: &serde_json::Value) -> Result<(), Fail> {
    match sub {
        "grid" | "random" => replay_case::<Case>(case, &check),
        "connect-panic" => replay_case::<PanicCase>(case, &check_connect_panic),
        "cancel-early" => replay_case::<EarlyCancel>(case, &check_cancel_early),
        "bare-server" => replay_case::<BareCase>(case, &check_bare_server),
        "shared-registry" => replay_case::<bool>(case, &check_shared_registry),
        "half-dead" => replay_case::<bool>(case, &check_half_dead),
        "accept-loop" => replay_case::<LoopCase>(case, &check_accept_loop),
        _ => Err(Fail::new("replay-unknown-sub", sub.to_string())),
    }
}
