//! C16 — off-reader handlers are capped, never block the reader or kill the connection.

use crate::engine::*;
use crate::ensure;
use crate::peers::dws;
use crate::peers::net::*;
use crate::util::block_on_mt as block_on;
use proptest::prelude::*;
use repe::message::Message;
use repe::server::Next;
use repe::{ErrorCode, Router, WebSocketServer};
use serde::{Deserialize, Serialize};
use serde_json::{Value, json};
use std::collections::{HashMap, HashSet};
use std::sync::atomic::{AtomicI64, Ordering};
use std::sync::{Arc, Condvar, Mutex};
use std::time::Duration;

pub const RULE: &str = "an in-process WebSocket connection (duplex) to a server with per-connection cap C in {1..16, unlimited}; C gate-controlled off-reader requests are sent and the harness waits until all C handlers signalled that they are running (saturation is observed, not timed); then E extra requests and notifies are sent at the cap, inline requests are interleaved, the parked handlers are released in a generated order (all permutations for C<=3 in the exhaustive sub-check) with generated exit kinds {return, error, panic}, and finally C fresh requests are sent; oracle: the in-handler gauge never exceeds C, each request at the cap is answered ResourceExhausted before any gate is released, a notify at the cap never runs, inline requests are answered during saturation, every released handler's caller gets its own response (a panic as InternalError with that request's id), all C fresh requests are admitted afterwards (no leaked slot), one more request is then refused again (the cap did not grow), and the connection still answers; outbound queue capacities default, 1..3 and C; with and without a forwarding middleware (attached before or after the routes); a second connection to the same server keeps its own slots while the first is saturated; non-trivial = saturation reached and at least one non-return exit; distinct = case hash";

#[derive(Debug, Clone, Copy, Serialize, Deserialize, Hash, PartialEq, Eq)]
pub enum Exit {
    Return,
    Error,
    Panic,
}

#[derive(Debug, Clone, Serialize, Deserialize, Hash, PartialEq, Eq)]
pub struct Case {
    /// 0 = unlimited
    pub cap: u8,
    /// exit kind of each of the first `cap` (or `n_unlimited`) parked handlers
    pub exits: Vec<Exit>,
    /// release order (indices into exits)
    pub release: Vec<u8>,
    pub extra_requests: u8,
    pub extra_notifies: u8,
    pub inline_during: u8,
    pub middleware: bool,
    /// outbound queue capacity of the connection (0 = the server's default)
    #[serde(default)]
    pub outbound_capacity: u8,
    /// the middleware (if any) is attached after the routes were registered
    #[serde(default)]
    pub middleware_after: bool,
    /// while the first connection is saturated, a second connection to the same server
    /// sends an off-reader request of its own (the cap is per connection)
    #[serde(default)]
    pub second_connection: bool,
}

#[derive(Default)]
struct Gates {
    released: Mutex<HashSet<u64>>,
    cv: Condvar,
    started: Mutex<Vec<u64>>,
    started_cv: Condvar,
    gauge: AtomicI64,
    max_gauge: AtomicI64,
}

struct GaugeGuard<'a>(&'a Gates);
impl Drop for GaugeGuard<'_> {
    fn drop(&mut self) {
        self.0.gauge.fetch_sub(1, Ordering::SeqCst);
    }
}

impl Gates {
    fn release(&self, i: u64) {
        self.released.lock().unwrap().insert(i);
        self.cv.notify_all();
    }
    fn wait_started(&self, want: &[u64], timeout: Duration) -> bool {
        let deadline = std::time::Instant::now() + timeout;
        let mut g = self.started.lock().unwrap();
        loop {
            if want.iter().all(|w| g.contains(w)) {
                return true;
            }
            let now = std::time::Instant::now();
            if now >= deadline {
                return false;
            }
            g = self.started_cv.wait_timeout(g, deadline - now).unwrap().0;
        }
    }
}

fn router(gates: Arc<Gates>, middleware: bool, middleware_after: bool) -> Router {
    let g = gates.clone();
    let mut r = Router::new();
    if middleware && !middleware_after {
        r = r.with_middleware(|req: &Message, next: Next<'_>| next.run(req));
    }
    let r = r.with_json_blocking("/gate", move |v: Value| {
        let i = v.get("i").and_then(Value::as_u64).unwrap_or(0);
        let exit = v.get("exit").and_then(Value::as_u64).unwrap_or(0);
        // (the gauge is the first connection's: requests of the second connection, i >= 5000, have their own cap)
        let _guard = (i < 5000).then(|| {
            let now = g.gauge.fetch_add(1, Ordering::SeqCst) + 1;
            g.max_gauge.fetch_max(now, Ordering::SeqCst);
            GaugeGuard(&g)
        });
        g.started.lock().unwrap().push(i);
        g.started_cv.notify_all();
        // park until released (30 s safety net so a broken harness cannot wedge a blocking thread forever)
        let deadline = std::time::Instant::now() + Duration::from_secs(30);
        let mut rel = g.released.lock().unwrap();
        while !rel.contains(&i) {
            let now = std::time::Instant::now();
            if now >= deadline {
                break;
            }
            rel = g.cv.wait_timeout(rel, deadline - now).unwrap().0;
        }
        drop(rel);
        match exit {
            0 => Ok(json!({"i": i})),
            1 => Err((ErrorCode::ApplicationErrorBase, format!("gate {i} says no"))),
            // (long messages with multi-byte characters at odd and even byte offsets: whatever
            // the server does with the panic payload, the caller still gets its InternalError)
            _ if i % 3 == 1 => panic!("gate {i} panics: x{}", "ø".repeat(400)),
            _ if i % 3 == 2 => panic!("gate {i} panics: {}", "ø".repeat(400)),
            _ => panic!("gate {i} panics"),
        }
    })
    .with_json("/inline", |v: Value| Ok(json!({"inline": v})));
    // a middleware attached after the routes wraps them just the same
    if middleware && middleware_after {
        r.with_middleware(|req: &Message, next: Next<'_>| next.run(req))
    } else {
        r
    }
}

fn watchdog() -> Duration {
    if failure_seen() {
        Duration::from_millis(800)
    } else {
        Duration::from_secs(10)
    }
}

fn gate_req(id: u64, i: u64, exit: Exit, notify: bool) -> Vec<u8> {
    let body = serde_json::to_vec(&json!({"i": i, "exit": exit as u8})).unwrap();
    frame_with(id, notify as u8, b"/gate", 1, &body, 2, 0)
}

async fn recv_by_id<IO: FrameIo>(io: &mut IO, stash: &mut HashMap<u64, Frame>, id: u64, what: &str) -> Result<Frame, Fail> {
    loop {
        if let Some(f) = stash.remove(&id) {
            return Ok(f);
        }
        match tokio::time::timeout(watchdog(), io.recv()).await {
            Ok(Ok(Some(f))) => {
                stash.insert(f.header.id, f);
            }
            Ok(Ok(None)) | Ok(Err(_)) => {
                return Err(Fail::new("connection-died", format!("the connection ended while waiting for {what}")));
            }
            Err(_) => {
                return Err(Fail::new(
                    "no-response",
                    format!("no response for {what} within {:?} (received so far: ids {:?})", watchdog(), stash.keys().collect::<Vec<_>>()),
                ));
            }
        }
    }
}

pub fn check(c: &Case) -> CheckResult {
    let gates = Arc::new(Gates::default());
    let unlimited = c.cap == 0;
    let n = c.exits.len();
    let cap = if unlimited { n } else { c.cap as usize };
    ensure!(n == cap || unlimited, "generator-bug", "exits must have cap entries");
    let mut server = WebSocketServer::new(router(gates.clone(), c.middleware, c.middleware_after)).with_offreader_limit(c.cap as usize);
    if c.outbound_capacity > 0 {
        // a parked handler must not hold on to any of the (few) outbound slots
        server = server.with_outbound_capacity(c.outbound_capacity as usize);
    }
    let shared = server.into_shared();
    let g = gates.clone();
    let shared2 = shared.clone();
    let res: Result<bool, Fail> = block_on(async move {
        let conn = dws::connect(&shared, 1 << 16).await;
        let mut io = conn.io;
        let mut stash: HashMap<u64, Frame> = HashMap::new();
        // 1. fill the cap
        for (i, e) in c.exits.iter().enumerate() {
            io.send(&gate_req(100 + i as u64, i as u64, *e, false)).await.map_err(|e| Fail::new("harness-send", e.to_string()))?;
        }
        let want: Vec<u64> = (0..n as u64).collect();
        let g2 = g.clone();
        let started = tokio::task::spawn_blocking(move || g2.wait_started(&want, watchdog())).await.unwrap();
        ensure!(
            started,
            "handlers-not-admitted",
            "only {:?} of the first {n} off-reader requests (cap {}) started within the watchdog",
            g.started.lock().unwrap(),
            c.cap
        );
        // 2. at the cap: extra requests are rejected at once, extra notifies dropped
        let mut rejected_ids = Vec::new();
        for k in 0..c.extra_requests as u64 {
            let id = 500 + k;
            io.send(&gate_req(id, 1000 + k, Exit::Return, false)).await.map_err(|e| Fail::new("harness-send", e.to_string()))?;
            rejected_ids.push((id, 1000 + k));
        }
        for k in 0..c.extra_notifies as u64 {
            io.send(&gate_req(600 + k, 2000 + k, Exit::Return, true)).await.map_err(|e| Fail::new("harness-send", e.to_string()))?;
        }
        // 3. inline traffic while saturated
        for k in 0..c.inline_during as u64 {
            let body = serde_json::to_vec(&json!(k)).unwrap();
            io.send(&frame_with(700 + k, 0, b"/inline", 1, &body, 2, 0)).await.map_err(|e| Fail::new("harness-send", e.to_string()))?;
        }
        if !unlimited {
            for (id, idx) in &rejected_ids {
                let f = recv_by_id(&mut io, &mut stash, *id, "the saturation reply (no gate released yet)").await.map_err(|mut f| {
                    if f.sig == "no-response" {
                        f.sig = "saturated-request-not-rejected".into();
                    }
                    f
                })?;
                ensure!(
                    f.header.ec == ErrorCode::ResourceExhausted as u32,
                    "saturated-request-not-rejected",
                    "request {id} arrived at the cap ({}) but was answered ec {} ({:?})",
                    c.cap,
                    f.header.ec,
                    String::from_utf8_lossy(&f.body)
                );
                ensure!(
                    !g.started.lock().unwrap().contains(idx),
                    "rejected-request-ran",
                    "request {id} was answered ResourceExhausted yet its handler ran"
                );
            }
        }
        for k in 0..c.inline_during as u64 {
            let f = recv_by_id(&mut io, &mut stash, 700 + k, "an inline response during saturation").await.map_err(|mut f| {
                if f.sig == "no-response" {
                    f.sig = "reader-blocked-while-saturated".into();
                }
                f
            })?;
            ensure!(f.header.ec == 0, "inline-failed-while-saturated", "inline request {k} answered ec {}", f.header.ec);
        }
        // Barrier: an inline round trip. The reader handles frames in order, so once this
        // response is back every frame above was handled while the cap was still full.
        io.send(&frame_with(790, 0, b"/inline", 1, b"0", 2, 0)).await.map_err(|e| Fail::new("harness-send", e.to_string()))?;
        recv_by_id(&mut io, &mut stash, 790, "the inline barrier response during saturation").await.map_err(|mut f| {
            if f.sig == "no-response" {
                f.sig = "reader-blocked-while-saturated".into();
            }
            f
        })?;
        // 3b. the cap is per connection: another connection to the same server gets its
        // own slots while this one is saturated
        if c.second_connection && !unlimited {
            let conn2 = dws::connect(&shared2, 1 << 16).await;
            let mut io2 = conn2.io;
            io2.send(&gate_req(5000, 5000, Exit::Return, false)).await.map_err(|e| Fail::new("harness-send", e.to_string()))?;
            let g3 = g.clone();
            let ran = tokio::task::spawn_blocking(move || g3.wait_started(&[5000], watchdog())).await.unwrap();
            if !ran {
                // was it refused?
                let refused = matches!(tokio::time::timeout(Duration::from_millis(300), io2.recv()).await, Ok(Ok(Some(f))) if f.header.ec == ErrorCode::ResourceExhausted as u32);
                return Err(Fail::new(
                    "cap-shared-across-connections",
                    format!(
                        "connection A holds its {} slots; an off-reader request on idle connection B did not run within {:?} (answered ResourceExhausted: {refused})",
                        c.cap,
                        watchdog()
                    ),
                ));
            }
            g.release(5000);
            let mut stash2: HashMap<u64, Frame> = HashMap::new();
            let f = recv_by_id(&mut io2, &mut stash2, 5000, "the second connection's response").await?;
            ensure!(f.header.ec == 0, "wrong-response", "second connection's request answered ec {}", f.header.ec);
            io2.close().await;
            let _ = tokio::time::timeout(watchdog(), conn2.server).await;
        }
        // 4. release in the generated order; each caller gets its own response
        if unlimited {
            // with no cap the "extra" requests were admitted as well: release them first
            for (_, idx) in &rejected_ids {
                g.release(*idx);
            }
            for k in 0..c.extra_notifies as u64 {
                g.release(2000 + k);
            }
            for (id, idx) in &rejected_ids {
                let f = recv_by_id(&mut io, &mut stash, *id, "an admitted extra request (unlimited cap)").await?;
                let v: Value = serde_json::from_slice(&f.body).unwrap_or(Value::Null);
                ensure!(f.header.ec == 0 && v.get("i").and_then(Value::as_u64) == Some(*idx), "wrong-response", "extra request {id}: ec {} body {v}", f.header.ec);
            }
        }
        for r in &c.release {
            let i = *r as usize % n.max(1);
            g.release(i as u64);
        }
        for i in 0..n {
            g.release(i as u64); // whatever the order left unreleased
        }
        for (i, e) in c.exits.iter().enumerate() {
            let id = 100 + i as u64;
            let f = recv_by_id(&mut io, &mut stash, id, "a released handler's response").await?;
            match e {
                Exit::Return => {
                    let v: Value = serde_json::from_slice(&f.body).unwrap_or(Value::Null);
                    ensure!(
                        f.header.ec == 0 && v.get("i").and_then(Value::as_u64) == Some(i as u64),
                        "wrong-response",
                        "request {id} (handler {i}, returns) got ec {} body {v}",
                        f.header.ec
                    );
                }
                Exit::Error => ensure!(
                    f.header.ec == ErrorCode::ApplicationErrorBase as u32,
                    "wrong-response",
                    "request {id} (handler {i}, errors) got ec {}",
                    f.header.ec
                ),
                Exit::Panic => ensure!(
                    f.header.ec == ErrorCode::InternalError as u32,
                    "panic-not-reported",
                    "request {id} (handler {i}, panics) got ec {} ({:?}) instead of InternalError",
                    f.header.ec,
                    String::from_utf8_lossy(&f.body)
                ),
            }
        }
        // 5. no leaked slot: `cap` fresh requests can all run at once again. The slot is
        // released just after the response is sent, so a fresh request that overtakes
        // that release may legitimately be told to retry (the error is documented as
        // retryable); a leak is a slot that never comes back.
        let mut fresh: Vec<(u64, u64)> = Vec::new(); // (id, idx) of admitted fresh requests
        let mut next_id = 800u64;
        let mut next_idx = 3000u64;
        let deadline = std::time::Instant::now() + watchdog();
        let mut retries = 0u32;
        while fresh.len() < cap {
            let (id, idx) = (next_id, next_idx);
            next_id += 1;
            next_idx += 1;
            io.send(&gate_req(id, idx, Exit::Return, false)).await.map_err(|e| Fail::new("harness-send", e.to_string()))?;
            // either it starts, or it is rejected
            loop {
                if g.started.lock().unwrap().contains(&idx) {
                    fresh.push((id, idx));
                    break;
                }
                if let Some(f) = stash.remove(&id) {
                    ensure!(
                        f.header.ec == ErrorCode::ResourceExhausted as u32,
                        "fresh-request-failed",
                        "fresh request {id} answered ec {} before running",
                        f.header.ec
                    );
                    retries += 1;
                    break;
                }
                if std::time::Instant::now() >= deadline {
                    return Err(Fail::new(
                        "slot-leaked",
                        format!(
                            "after every handler exited (exits {:?}), only {} of {cap} fresh off-reader requests could be admitted within {:?} ({retries} retries)",
                            c.exits,
                            fresh.len(),
                            watchdog()
                        ),
                    ));
                }
                if let Ok(Ok(Some(f))) = tokio::time::timeout(Duration::from_millis(2), io.recv()).await {
                    stash.insert(f.header.id, f);
                }
            }
            if std::time::Instant::now() >= deadline && fresh.len() < cap {
                return Err(Fail::new(
                    "slot-leaked",
                    format!(
                        "after every handler exited (exits {:?}), only {} of {cap} fresh off-reader requests could be admitted within {:?} ({retries} retries)",
                        c.exits,
                        fresh.len(),
                        watchdog()
                    ),
                ));
            }
        }
        // 5b. the cap is still the cap: with `cap` fresh handlers parked, one more request
        // is refused and never runs (a slot handed back twice would let it in)
        if !unlimited {
            io.send(&gate_req(950, 4000, Exit::Return, false)).await.map_err(|e| Fail::new("harness-send", e.to_string()))?;
            let f = recv_by_id(&mut io, &mut stash, 950, "the saturation reply after the first handlers exited").await.map_err(|mut f| {
                if f.sig == "no-response" {
                    f.sig = "cap-grew-after-exits".into();
                }
                f
            })?;
            ensure!(
                f.header.ec == ErrorCode::ResourceExhausted as u32 && !g.started.lock().unwrap().contains(&4000),
                "cap-grew-after-exits",
                "after the first {cap} handlers exited (exits {:?}) and {cap} fresh ones are parked, one more request was answered ec {} (ran: {})",
                c.exits,
                f.header.ec,
                g.started.lock().unwrap().contains(&4000)
            );
        }
        for (_, idx) in &fresh {
            g.release(*idx);
        }
        g.release(4000);
        for (id, _) in &fresh {
            let f = recv_by_id(&mut io, &mut stash, *id, "a fresh request's response").await?;
            ensure!(f.header.ec == 0, "fresh-request-failed", "fresh request {id} answered ec {}", f.header.ec);
        }
        // 6. the connection still answers inline traffic
        io.send(&frame_with(999, 0, b"/inline", 1, b"1", 2, 0)).await.map_err(|e| Fail::new("connection-died", e.to_string()))?;
        let f = recv_by_id(&mut io, &mut stash, 999, "the final inline response").await?;
        ensure!(f.header.ec == 0, "connection-unusable", "final inline request answered ec {}", f.header.ec);
        io.close().await;
        let _ = tokio::time::timeout(watchdog(), conn.server).await;
        // notifies at the cap must never have run (capped servers only)
        if !unlimited {
            let started = g.started.lock().unwrap().clone();
            for k in 0..c.extra_notifies as u64 {
                ensure!(
                    !started.contains(&(2000 + k)),
                    "saturated-notify-ran",
                    "a notify that arrived at the cap ran its handler later"
                );
            }
        }
        ensure!(stash.is_empty(), "unexpected-response", "unexpected extra responses: ids {:?}", stash.keys().collect::<Vec<_>>());
        Ok(true)
    });
    res?;
    let max = gates.max_gauge.load(Ordering::SeqCst);
    if !unlimited {
        ensure!(
            max <= c.cap as i64,
            "cap-exceeded",
            "{max} off-reader handlers ran simultaneously, cap {}",
            c.cap
        );
    }
    let non_return = c.exits.iter().any(|e| *e != Exit::Return);
    Ok(CaseInfo::new(non_return && !unlimited)
        .class(if unlimited { "unlimited".to_string() } else { format!("cap={}", c.cap.min(8)) })
        .class(if c.middleware { "middleware" } else { "plain" })
        .class(if non_return { "non-return-exit" } else { "all-return" }))
}

fn exit() -> BoxedStrategy<Exit> {
    prop_oneof![2 => Just(Exit::Return), 1 => Just(Exit::Error), 1 => Just(Exit::Panic)].boxed()
}

fn case() -> BoxedStrategy<Case> {
    (prop_oneof![6 => 1u8..5, 2 => 5u8..=16, 1 => Just(0u8)], any::<bool>())
        .prop_flat_map(|(cap, middleware)| {
            let n = if cap == 0 { 6 } else { cap as usize };
            (
                Just(cap),
                prop::collection::vec(exit(), n),
                Just((0..n as u8).collect::<Vec<u8>>()).prop_shuffle(),
                0u8..=(3 * n.min(8) as u8),
                0u8..4,
                0u8..4,
                Just(middleware),
                prop_oneof![2 => Just(0u8), 2 => 1u8..=3, 1 => Just(cap.max(1))],
                any::<bool>(),
                prop::bool::weighted(0.4),
            )
        })
        .prop_map(|(cap, exits, release, extra_requests, extra_notifies, inline_during, middleware, outbound_capacity, middleware_after, second_connection)| Case {
            cap,
            exits,
            release,
            extra_requests,
            extra_notifies,
            inline_during,
            middleware,
            outbound_capacity,
            middleware_after,
            second_connection,
        })
        .boxed()
}

/// All release orders and all exit-kind assignments for caps 1..=3.
fn exhaustive() -> Vec<Case> {
    fn perms(n: u8) -> Vec<Vec<u8>> {
        if n == 0 {
            return vec![vec![]];
        }
        let mut out = Vec::new();
        for p in perms(n - 1) {
            for pos in 0..=p.len() {
                let mut q = p.clone();
                q.insert(pos, n - 1);
                out.push(q);
            }
        }
        out
    }
    let kinds = [Exit::Return, Exit::Error, Exit::Panic];
    let mut v = Vec::new();
    for cap in 1..=3u8 {
        let n = cap as usize;
        for code in 0..3usize.pow(n as u32) {
            let exits: Vec<Exit> = (0..n).map(|i| kinds[(code / 3usize.pow(i as u32)) % 3]).collect();
            for p in perms(cap) {
                v.push(Case {
                    cap,
                    exits: exits.clone(),
                    release: p,
                    extra_requests: 2,
                    extra_notifies: 1,
                    inline_during: 1,
                    middleware: code % 2 == 0,
                    outbound_capacity: [0, 1, cap][(code / 2) % 3],
                    middleware_after: (code / 6) % 2 == 1,
                    second_connection: code % 3 == 0,
                });
            }
        }
    }
    v
}

pub fn run(ctx: &Ctx, rep: &Report) {
    run_enum(ctx, rep, "release-orders", &exhaustive(), true, &check);
    run_prop(ctx, rep, "random", ctx.tier.pick(500, 100_000), &|| case(), &check);
}

pub fn replay(sub: &str, case: &serde_json::Value) -> Result<(), Fail> {
    match sub {
        "release-orders" | "random" => replay_case::<Case>(case, &check),
        _ => Err(Fail::new("replay-unknown-sub", sub.to_string())),
    }
}
