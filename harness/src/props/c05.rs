//! C05 — bytes put on a connection are always whole frames, never torn or interleaved.

use crate::engine::*;
use crate::ensure;
use crate::oracle::codec::{self, OHeader};
use crate::util::block_on_mt as block_on;
use proptest::prelude::*;
use repe::message::Message;
use repe::server::HandlerErased;
use repe::{AsyncClient, AsyncServer, Client, RepeError, Router, Server, WebSocketClient};
use serde::{Deserialize, Serialize};
use std::io::{Read, Write as _};
use std::net::SocketAddr;
use std::sync::Arc;
use std::time::Duration;
use tokio::io::AsyncReadExt;

pub const RULE: &str = "the harness knows the exact wire image of every frame an endpoint may emit (self-identifying path, per-message fill byte; the id is read off the wire) and captures the raw byte stream a scripted peer receives until end of connection; oracle (byte-exact, timing-free): the stream must equal F1||...||Fk||P with each F the complete image of a distinct issued message, P empty or a proper prefix of one more image, and nothing after P; generated scenarios: (concurrent) 2..32 concurrent writers on clones of one client with payload sizes straddling 8191/8192/8193/65535/65536/1 MiB, (write-timeout) blocking Client with set_write_timeout against a peer with a 4 KiB receive buffer that stalls around the timeout while an 8 MiB frame is written, then drains, then more calls, (abandoned) AsyncClient / WebSocketClient calls dropped by tokio::time::timeout or abort at a generated instant while the peer is stalled, then more calls, (server-stall) Server / AsyncServer with write_timeout whose client stops reading around the timeout while an 8 MiB response is written, then drains and sends more requests; (ws-server-writers) the same on the WebSocket server: inline and off-reader responses, handler-pushed notifies and broadcasts from another thread through one connection with a stalled peer; every WebSocket message must be exactly one frame and the byte image of one issued message; non-trivial = a write was actually interrupted (a proper prefix was held or the caller got an error) or >=2 writers overlapped; distinct = case hash";

const BIG: usize = 8 << 20;

#[derive(Debug, Clone)]
pub struct Issued {
    pub path: String,
    pub body_len: usize,
    pub fill: u8,
    pub body_format: u16,
    pub notify: u8,
    /// For responses: the query format the handler set.
    pub query_format: u16,
    pub ec: u32,
}

impl Issued {
    fn image(&self, id: u64) -> Vec<u8> {
        let h = OHeader {
            spec: codec::MAGIC,
            version: 1,
            notify: self.notify,
            id,
            query_format: self.query_format,
            body_format: self.body_format,
            ec: self.ec,
            ..OHeader::default()
        };
        codec::encode_frame(&h, self.path.as_bytes(), &vec![self.fill; self.body_len])
    }
    /// Does `bytes` (shorter than a frame) agree with this message's image, the id
    /// being unknown until 24 bytes are available?
    fn prefix_matches(&self, bytes: &[u8]) -> bool {
        let id = if bytes.len() >= 24 {
            u64::from_le_bytes(bytes[16..24].try_into().unwrap())
        } else {
            0
        };
        let img = self.image(id);
        if bytes.len() > img.len() {
            return false;
        }
        bytes.iter().enumerate().all(|(i, b)| {
            // id bytes are unconstrained while not fully available
            (bytes.len() < 24 && (16..24).contains(&i)) || *b == img[i]
        })
    }
}

#[derive(Debug, Default)]
pub struct StreamStats {
    pub whole: usize,
    pub prefix_len: usize,
}

/// The stream grammar: whole images of distinct issued messages, then at most one
/// proper prefix, then nothing.
pub fn check_stream(captured: &[u8], issued: &[Issued]) -> Result<StreamStats, Fail> {
    let mut used = vec![false; issued.len()];
    let mut pos = 0usize;
    let mut stats = StreamStats::default();
    let mut ids = std::collections::HashSet::new();
    while pos < captured.len() {
        let rest = &captured[pos..];
        // try to match a whole frame
        let mut matched = false;
        if rest.len() >= 48 {
            let h = OHeader::raw(rest);
            if h.consistent() && (rest.len() as u128) >= h.declared_total() {
                let total = h.declared_total() as usize;
                let frame = &rest[..total];
                for (i, m) in issued.iter().enumerate() {
                    if !used[i] && m.body_len + m.path.len() + 48 == total && frame == &m.image(h.id)[..] {
                        used[i] = true;
                        matched = true;
                        break;
                    }
                }
                if matched {
                    ensure!(ids.insert(h.id), "duplicate-id", "id {} used by two frames", h.id);
                    stats.whole += 1;
                    pos += total;
                    continue;
                }
            }
        }
        // otherwise the remainder must be a proper prefix of an unused image — and the last thing on the stream
        let ok = issued
            .iter()
            .enumerate()
            .any(|(i, m)| !used[i] && rest.len() < m.body_len + m.path.len() + 48 && m.prefix_matches(rest));
        if ok {
            stats.prefix_len = rest.len();
            return Ok(stats);
        }
        // find where it deviates, for the report
        let (best, at) = issued
            .iter()
            .enumerate()
            .filter(|(i, _)| !used[*i])
            .map(|(i, m)| {
                let id = if rest.len() >= 24 {
                    u64::from_le_bytes(rest[16..24].try_into().unwrap())
                } else {
                    0
                };
                let img = m.image(id);
                (i, crate::util::first_diff(rest, &img))
            })
            .max_by_key(|(_, d)| *d)
            .unwrap_or((usize::MAX, 0));
        return Err(Fail::new(
            "torn-stream",
            format!(
                "after {} whole frames, at stream offset {pos} the remaining {} bytes are neither a whole issued frame nor a proper prefix of one: they follow message {best}'s image for {at} bytes and then continue with {}",
                stats.whole,
                rest.len(),
                crate::util::hex(&rest[at.min(rest.len())..rest.len().min(at + 24)])
            ),
        ));
    }
    Ok(stats)
}

pub(crate) fn small_rcvbuf_listener() -> std::io::Result<(std::net::TcpListener, SocketAddr)> {
    use socket2::{Domain, Socket, Type};
    let s = Socket::new(Domain::IPV4, Type::STREAM, None)?;
    s.set_recv_buffer_size(4096)?;
    s.set_reuse_address(true)?;
    let addr: SocketAddr = crate::util::lo0().as_str().parse().unwrap();
    s.bind(&addr.into())?;
    s.listen(16)?;
    let l: std::net::TcpListener = s.into();
    let a = l.local_addr()?;
    Ok((l, a))
}

/// Read everything until EOF / error / `idle` without data.
fn drain_std(s: &mut std::net::TcpStream, into: &mut Vec<u8>, idle: Duration) {
    let _ = s.set_read_timeout(Some(idle));
    let mut buf = vec![0u8; 1 << 16];
    loop {
        match s.read(&mut buf) {
            Ok(0) => return,
            Ok(n) => into.extend_from_slice(&buf[..n]),
            Err(_) => return,
        }
    }
}

// ------------------------------------------------------------ concurrent writers

const SIZES: [usize; 10] = [0, 1, 8191, 8192, 8193, 65535, 65536, 100_000, 1 << 20, 3 << 20];

#[derive(Debug, Clone, Copy, Serialize, Deserialize, Hash, PartialEq, Eq)]
pub enum CKind {
    Blocking,
    Async,
    Ws,
}

#[derive(Debug, Clone, Serialize, Deserialize, Hash, PartialEq, Eq)]
pub struct ConcCase {
    pub client: CKind,
    /// Per writer: the list of payload size selectors it sends (as notifies).
    pub writers: Vec<Vec<u8>>,
}

pub fn check_concurrent(c: &ConcCase) -> CheckResult {
    let mut issued = Vec::new();
    let mut plan: Vec<Vec<(String, usize, u8)>> = Vec::new();
    for (w, sizes) in c.writers.iter().enumerate() {
        let mut mine = Vec::new();
        for (j, sel) in sizes.iter().enumerate() {
            let len = SIZES[*sel as usize % SIZES.len()];
            let path = format!("/w/{w}/{j}");
            let fillb = (w * 16 + j + 1) as u8;
            issued.push(Issued {
                path: path.clone(),
                body_len: len,
                fill: fillb,
                body_format: 0,
                notify: 1,
                query_format: 1,
                ec: 0,
            });
            mine.push((path, len, fillb));
        }
        plan.push(mine);
    }
    let captured: Vec<u8> = block_on(async {
        let (listener, addr) = crate::peers::net::listen().await.map_err(|e| Fail::new("harness-listen", e.to_string()))?;
        match c.client {
            CKind::Blocking => {
                let a = addr.to_string();
                let client = tokio::task::spawn_blocking(move || Client::connect(a)).await.unwrap().map_err(|e| Fail::new("harness-connect", e.to_string()))?;
                let (mut s, _) = listener.accept().await.map_err(|e| Fail::new("harness-accept", e.to_string()))?;
                let reader = tokio::spawn(async move {
                    let mut all = Vec::new();
                    let _ = s.read_to_end(&mut all).await;
                    all
                });
                let mut hs = Vec::new();
                for mine in plan {
                    let cl = client.clone();
                    hs.push(tokio::task::spawn_blocking(move || {
                        for (p, len, f) in mine {
                            let _ = cl.notify_with_formats(&p, 1, Some(&vec![f; len]), 0);
                        }
                    }));
                }
                for h in hs {
                    let _ = h.await;
                }
                drop(client);
                Ok::<_, Fail>(reader.await.unwrap_or_default())
            }
            CKind::Async => {
                let client = AsyncClient::connect(addr).await.map_err(|e| Fail::new("harness-connect", e.to_string()))?;
                let (mut s, _) = listener.accept().await.map_err(|e| Fail::new("harness-accept", e.to_string()))?;
                let reader = tokio::spawn(async move {
                    let mut all = Vec::new();
                    let _ = s.read_to_end(&mut all).await;
                    all
                });
                let mut hs = Vec::new();
                for mine in plan {
                    let cl = client.clone();
                    hs.push(tokio::spawn(async move {
                        for (p, len, f) in mine {
                            let _ = cl.notify_with_formats(&p, 1, Some(&vec![f; len]), 0).await;
                        }
                    }));
                }
                for h in hs {
                    let _ = h.await;
                }
                drop(client);
                Ok(reader.await.unwrap_or_default())
            }
            CKind::Ws => {
                let url = format!("ws://{addr}");
                let (client, io) = tokio::join!(WebSocketClient::connect(&url), crate::peers::net::accept_ws(&listener));
                let client = client.map_err(|e| Fail::new("harness-connect", e.to_string()))?;
                let mut io = io.map_err(|e| Fail::new("harness-accept", e.to_string()))?;
                let reader = tokio::spawn(async move {
                    // each binary message must itself be exactly one frame; concatenate for the grammar check
                    let mut all = Vec::new();
                    while let Ok(Some(b)) = io.recv_raw().await {
                        all.push(b);
                    }
                    all
                });
                let mut hs = Vec::new();
                for mine in plan {
                    let cl = client.clone();
                    hs.push(tokio::spawn(async move {
                        for (p, len, f) in mine {
                            let _ = cl.notify_with_formats(&p, 1, Some(&vec![f; len]), 0).await;
                        }
                    }));
                }
                for h in hs {
                    let _ = h.await;
                }
                drop(client);
                let msgs = tokio::time::timeout(Duration::from_secs(20), reader)
                    .await
                    .map_err(|_| Fail::new("harness-timeout", "ws peer did not see the connection end"))?
                    .unwrap_or_default();
                let mut all = Vec::new();
                for m in msgs {
                    // one message = one whole frame
                    match codec::parse(&m) {
                        codec::Parse::Frame { trailing: 0, .. } => {}
                        other => {
                            return Err(Fail::new(
                                "ws-message-not-one-frame",
                                format!("a {}-byte WebSocket message is not exactly one frame: {:?}", m.len(), other),
                            ));
                        }
                    }
                    all.extend(m);
                }
                Ok(all)
            }
        }
    })?;
    let st = check_stream(&captured, &issued)?;
    ensure!(
        st.whole == issued.len() && st.prefix_len == 0,
        "frames-missing",
        "{} of {} issued frames arrived whole (trailing prefix {} bytes) although no write was interrupted",
        st.whole,
        issued.len(),
        st.prefix_len
    );
    Ok(CaseInfo::new(c.writers.len() >= 2)
        .class(format!("{:?}", c.client))
        .class(match c.writers.len() {
            0..=1 => "writers<=1",
            2..=8 => "writers=2-8",
            _ => "writers>8",
        }))
}

fn conc_case() -> BoxedStrategy<ConcCase> {
    (
        prop::sample::select(vec![CKind::Blocking, CKind::Async, CKind::Ws]),
        prop::collection::vec(prop::collection::vec(0u8..10, 1..5), 2..=32),
    )
        .prop_map(|(client, mut writers)| {
            // bound the total volume: at most 6 multi-MiB payloads per case
            let mut big = 0;
            for w in writers.iter_mut() {
                for s in w.iter_mut() {
                    if *s >= 8 {
                        big += 1;
                        if big > 6 {
                            *s %= 8;
                        }
                    }
                }
            }
            ConcCase { client, writers }
        })
        .boxed()
}

// ----------------------------------------------------- blocking client write timeout

#[derive(Debug, Clone, Serialize, Deserialize, Hash, PartialEq, Eq)]
pub struct WtCase {
    pub timeout_ms: u16,
    /// Peer stall relative to the timeout, ms (negative: drains before the timeout).
    pub stall_delta_ms: i16,
    pub big_first: bool,
    pub followups: u8,
    pub big_len_sel: u8,
    /// other threads that start a small send while the big write is in progress (they
    /// queue on the client's writer and race the connection teardown when it times out)
    #[serde(default)]
    pub queued: u8,
}

pub fn check_write_timeout(c: &WtCase) -> CheckResult {
    let (listener, addr) = small_rcvbuf_listener().map_err(|e| Fail::new("harness-listen", e.to_string()))?;
    let client = Client::connect(addr).map_err(|e| Fail::new("harness-connect", e.to_string()))?;
    client
        .set_write_timeout(Some(Duration::from_millis(c.timeout_ms as u64)))
        .map_err(|e| Fail::new("harness-config", e.to_string()))?;
    let (mut s, _) = listener.accept().map_err(|e| Fail::new("harness-accept", e.to_string()))?;
    let big_len = [BIG, BIG + 1, 6 << 20, 12 << 20][c.big_len_sel as usize % 4];
    let stall = Duration::from_millis((c.timeout_ms as i64 + c.stall_delta_ms as i64).max(0) as u64);

    let mut issued = Vec::new();
    let mut msgs: Vec<(String, usize, u8)> = Vec::new();
    if !c.big_first {
        msgs.push(("/pre".into(), 100, 0x11));
    }
    msgs.push(("/big".into(), big_len, 0x22));
    for i in 0..c.followups {
        msgs.push((format!("/after/{i}"), if i % 2 == 0 { 10 } else { 70_000 }, 0x30 + i));
    }
    for (p, l, f) in &msgs {
        issued.push(Issued {
            path: p.clone(),
            body_len: *l,
            fill: *f,
            body_format: 0,
            notify: 1,
            query_format: 1,
            ec: 0,
        });
    }
    // peer: stall, then drain to EOF
    let peer = std::thread::spawn(move || {
        std::thread::sleep(stall);
        let mut all = Vec::new();
        drain_std(&mut s, &mut all, Duration::from_secs(20));
        all
    });
    // callers queued behind the big write
    let mut queued_threads = Vec::new();
    for q in 0..c.queued {
        let m = Issued {
            path: format!("/queued/{q}"),
            body_len: 200 + q as usize,
            fill: 0x60 + q,
            body_format: 0,
            notify: 1,
            query_format: 1,
            ec: 0,
        };
        issued.push(m.clone());
        let cl = client.clone();
        let delay = Duration::from_millis((c.timeout_ms as u64 / 3).max(2) + q as u64);
        let big_first = c.big_first;
        queued_threads.push(std::thread::spawn(move || {
            // start while the big write holds the writer
            std::thread::sleep(delay + if big_first { Duration::ZERO } else { Duration::from_millis(2) });
            let _ = cl.notify_with_formats(&m.path, 1, Some(&vec![m.fill; m.body_len]), 0);
        }));
    }
    let mut any_err = c.queued > 0; // (queued sends are not tracked individually: no completeness claim)
    for (p, l, f) in &msgs {
        let r = client.notify_with_formats(p, 1, Some(&vec![*f; *l]), 0);
        if r.is_err() {
            any_err = true;
        }
        if p == "/big" {
            // let the peer start draining before the follow-ups, so they would reach the wire
            std::thread::sleep(stall.saturating_sub(Duration::from_millis(c.timeout_ms as u64)) + Duration::from_millis(30));
        }
    }
    for t in queued_threads {
        let _ = t.join();
    }
    drop(client);
    let captured = peer.join().map_err(|_| Fail::new("panic", "peer panicked"))?;
    let st = check_stream(&captured, &issued)?;
    if !any_err {
        ensure!(
            st.whole == issued.len(),
            "frames-missing",
            "no write reported an error but only {} of {} frames arrived",
            st.whole,
            issued.len()
        );
    }
    Ok(CaseInfo::new(any_err || st.prefix_len > 0)
        .class(if any_err { "write-interrupted" } else { "write-completed" })
        .class(if st.prefix_len > 0 { "peer-holds-prefix" } else { "stream-ends-on-boundary" }))
}

fn wt_case() -> BoxedStrategy<WtCase> {
    (15u16..80, prop_oneof![3 => 20i16..200, 1 => -15i16..20], any::<bool>(), 1u8..4, 0u8..4, prop_oneof![1 => Just(0u8), 2 => 1u8..4])
        .prop_map(|(timeout_ms, stall_delta_ms, big_first, followups, big_len_sel, queued)| WtCase {
            timeout_ms,
            stall_delta_ms,
            big_first,
            followups,
            big_len_sel,
            queued,
        })
        .boxed()
}

// ----------------------------------------------------------- abandoned async sends

#[derive(Debug, Clone, Serialize, Deserialize, Hash, PartialEq, Eq)]
pub struct AbCase {
    pub ws: bool,
    /// Abandon the big call after this many ms (tokio timeout or abort).
    pub abandon_ms: u16,
    pub abort: bool,
    pub stall_ms: u16,
    pub followups: u8,
}

pub fn check_abandoned(c: &AbCase) -> CheckResult {
    let mut issued = vec![Issued {
        path: "/big".into(),
        body_len: BIG,
        fill: 0x22,
        body_format: 0,
        notify: 0,
        query_format: 1,
        ec: 0,
    }];
    for i in 0..c.followups {
        issued.push(Issued {
            path: format!("/after/{i}"),
            body_len: if i % 2 == 0 { 10 } else { 70_000 },
            fill: 0x30 + i,
            body_format: 0,
            notify: 1,
            query_format: 1,
            ec: 0,
        });
    }
    let issued2 = issued.clone();
    let (captured, interrupted): (Vec<u8>, bool) = block_on(async {
        let (std_l, addr) = small_rcvbuf_listener().map_err(|e| Fail::new("harness-listen", e.to_string()))?;
        std_l.set_nonblocking(true).ok();
        let listener = tokio::net::TcpListener::from_std(std_l).map_err(|e| Fail::new("harness-listen", e.to_string()))?;
        let stall = Duration::from_millis(c.stall_ms as u64);
        let abandon = Duration::from_millis(c.abandon_ms as u64);
        if c.ws {
            let url = format!("ws://{addr}");
            let (client, io) = tokio::join!(WebSocketClient::connect(&url), crate::peers::net::accept_ws(&listener));
            let client = client.map_err(|e| Fail::new("harness-connect", e.to_string()))?;
            let mut io = io.map_err(|e| Fail::new("harness-accept", e.to_string()))?;
            let reader = tokio::spawn(async move {
                tokio::time::sleep(stall).await;
                let mut all = Vec::new();
                while let Ok(Ok(Some(b))) = tokio::time::timeout(Duration::from_secs(20), io.recv_raw()).await {
                    all.push(b);
                }
                all
            });
            let cl = client.clone();
            let big = tokio::spawn(async move {
                let body = vec![0x22u8; BIG];
                tokio::time::timeout(abandon, cl.call_with_formats("/big", 1, Some(&body), 0)).await
            });
            if c.abort {
                tokio::time::sleep(abandon).await;
                big.abort();
            }
            let interrupted = !matches!(big.await, Ok(Ok(Ok(_))));
            tokio::time::sleep(stall.saturating_sub(abandon) + Duration::from_millis(20)).await;
            for m in &issued2[1..] {
                let _ = client.notify_with_formats(&m.path, 1, Some(&vec![m.fill; m.body_len]), 0).await;
            }
            drop(client);
            let msgs = reader.await.unwrap_or_default();
            let mut all = Vec::new();
            for m in msgs {
                match codec::parse(&m) {
                    codec::Parse::Frame { trailing: 0, .. } => {}
                    other => {
                        return Err(Fail::new(
                            "ws-message-not-one-frame",
                            format!("a {}-byte WebSocket message is not exactly one frame: {other:?}", m.len()),
                        ));
                    }
                }
                all.extend(m);
            }
            Ok::<_, Fail>((all, interrupted))
        } else {
            let client = AsyncClient::connect(addr).await.map_err(|e| Fail::new("harness-connect", e.to_string()))?;
            let (mut s, _) = listener.accept().await.map_err(|e| Fail::new("harness-accept", e.to_string()))?;
            let reader = tokio::spawn(async move {
                tokio::time::sleep(stall).await;
                let mut all = Vec::new();
                let _ = tokio::time::timeout(Duration::from_secs(20), s.read_to_end(&mut all)).await;
                all
            });
            let cl = client.clone();
            let big = tokio::spawn(async move {
                let body = vec![0x22u8; BIG];
                tokio::time::timeout(abandon, cl.call_with_formats("/big", 1, Some(&body), 0)).await
            });
            // The first follow-up starts while the big write is still in progress, so it
            // queues on the writer lock and runs right after the abandonment.
            tokio::time::sleep(Duration::from_millis(3)).await;
            let queued = {
                let cl = client.clone();
                let m = issued2[1].clone();
                tokio::spawn(async move {
                    let _ = cl.notify_with_formats(&m.path, 1, Some(&vec![m.fill; m.body_len]), 0).await;
                })
            };
            tokio::time::sleep(Duration::from_millis(3)).await;
            if c.abort {
                tokio::time::sleep(abandon.saturating_sub(Duration::from_millis(6))).await;
                big.abort();
            }
            let interrupted = !matches!(big.await, Ok(Ok(Ok(_))));
            let _ = queued.await;
            tokio::time::sleep(stall.saturating_sub(abandon) + Duration::from_millis(20)).await;
            for m in &issued2[2..] {
                let _ = client.notify_with_formats(&m.path, 1, Some(&vec![m.fill; m.body_len]), 0).await;
            }
            drop(client);
            Ok((reader.await.unwrap_or_default(), interrupted))
        }
    })?;
    let st = check_stream(&captured, &issued)?;
    Ok(CaseInfo::new(interrupted)
        .class(if c.ws { "WebSocketClient" } else { "AsyncClient" })
        .class(if c.abort { "abort" } else { "tokio-timeout" })
        .class(if st.prefix_len > 0 { "peer-holds-prefix" } else { "stream-ends-on-boundary" }))
}

// ------------------------------------- small requests abandoned on a full socket

/// AsyncClient against a peer that does not read: small notifies (each below the
/// client's write buffer size) are sent until one cannot be flushed any more and is
/// abandoned by its caller; `more` further small requests are started and abandoned
/// the same way; then the peer drains and `followups` more requests are sent.
#[derive(Debug, Clone, Serialize, Deserialize, Hash, PartialEq, Eq)]
pub struct SmallAbCase {
    pub fill_len: u16,
    pub abandon_ms: u8,
    /// sizes of the further requests abandoned while the peer is still stalled
    pub more: Vec<u16>,
    pub followups: u8,
}

pub fn check_abandoned_small(c: &SmallAbCase) -> CheckResult {
    let abandon = Duration::from_millis(30 + c.abandon_ms as u64);
    let (captured, issued, stalled): (Vec<u8>, Vec<Issued>, bool) = block_on(async {
        let (std_l, addr) = small_rcvbuf_listener().map_err(|e| Fail::new("harness-listen", e.to_string()))?;
        std_l.set_nonblocking(true).ok();
        let listener = tokio::net::TcpListener::from_std(std_l).map_err(|e| Fail::new("harness-listen", e.to_string()))?;
        let client = AsyncClient::connect(addr).await.map_err(|e| Fail::new("harness-connect", e.to_string()))?;
        let (mut s, _) = listener.accept().await.map_err(|e| Fail::new("harness-accept", e.to_string()))?;
        let (go_tx, go_rx) = tokio::sync::oneshot::channel::<()>();
        let reader = tokio::spawn(async move {
            let _ = go_rx.await;
            let mut all = Vec::new();
            let _ = tokio::time::timeout(Duration::from_secs(20), s.read_to_end(&mut all)).await;
            all
        });
        let mut issued: Vec<Issued> = Vec::new();
        let send = |issued: &mut Vec<Issued>, len: usize| {
            let i = issued.len();
            let m = Issued {
                path: format!("/m/{i}"),
                body_len: len,
                fill: 0x21 + (i % 90) as u8,
                body_format: 0,
                notify: 1,
                query_format: 1,
                ec: 0,
            };
            issued.push(m.clone());
            m
        };
        // 1. whole small frames until one stalls in its flush; that one is abandoned
        let mut stalled = false;
        for _ in 0..4000 {
            let m = send(&mut issued, c.fill_len as usize);
            let body = vec![m.fill; m.body_len];
            match tokio::time::timeout(abandon, client.notify_with_formats(&m.path, 1, Some(&body), 0)).await {
                Ok(Ok(())) => {}
                Ok(Err(_)) => break,
                Err(_) => {
                    stalled = true;
                    break;
                }
            }
        }
        // 2. further small requests, each abandoned while the peer is still stalled
        for len in &c.more {
            let m = send(&mut issued, *len as usize);
            let body = vec![m.fill; m.body_len];
            let _ = tokio::time::timeout(abandon, client.notify_with_formats(&m.path, 1, Some(&body), 0)).await;
        }
        // 3. the peer drains; the caller carries on
        let _ = go_tx.send(());
        for _ in 0..c.followups {
            let m = send(&mut issued, 64);
            let body = vec![m.fill; m.body_len];
            let _ = tokio::time::timeout(Duration::from_secs(5), client.notify_with_formats(&m.path, 1, Some(&body), 0)).await;
        }
        drop(client);
        Ok::<_, Fail>((reader.await.unwrap_or_default(), issued, stalled))
    })?;
    let st = check_stream(&captured, &issued)?;
    Ok(CaseInfo::new(stalled && !c.more.is_empty())
        .class(if stalled { "socket-filled" } else { "socket-never-filled" })
        .class(format!("abandoned-after-fill={}", c.more.len()))
        .class(if st.prefix_len > 0 { "peer-holds-prefix" } else { "stream-ends-on-boundary" }))
}

fn small_ab_case() -> BoxedStrategy<SmallAbCase> {
    (
        prop::sample::select(vec![1000u16, 4000, 7000, 8000, 8100, 8192]),
        0u8..60,
        prop::collection::vec(prop_oneof![Just(64u16), Just(500), Just(3000), Just(8000), 1u16..9000], 0..4),
        0u8..4,
    )
        .prop_map(|(fill_len, abandon_ms, more, followups)| SmallAbCase {
            fill_len,
            abandon_ms,
            more,
            followups,
        })
        .boxed()
}

fn ab_case() -> BoxedStrategy<AbCase> {
    (any::<bool>(), 8u16..60, any::<bool>(), 40u16..200, 2u8..4)
        .prop_map(|(ws, abandon_ms, abort, stall_ms, followups)| AbCase {
            ws,
            abandon_ms,
            abort,
            stall_ms: stall_ms.max(abandon_ms + 20),
            followups,
        })
        .boxed()
}

// --------------------------------------------------------------- server stall

/// Erased handler: the request body's first 4 bytes (LE) give the response size,
/// byte 4 the fill byte.
struct Sized {
    /// the handler sets its own response query instead of having the request's echoed
    own_query: bool,
}

const OWN_QUERY: &str = "/own/response/query";

impl HandlerErased for Sized {
    fn handle(&self, req: &Message) -> Result<Message, RepeError> {
        let len = u32::from_le_bytes(req.body[..4].try_into().unwrap()) as usize;
        let f = req.body[4];
        let b = Message::builder().id(req.header.id);
        let b = if self.own_query { b.query_str(OWN_QUERY) } else { b };
        Ok(b
            .query_format(repe::QueryFormat::JsonPointer)
            .body_bytes(vec![f; len])
            .body_format_code(0x7005)
            .build())
    }
}

#[derive(Debug, Clone, Serialize, Deserialize, Hash, PartialEq, Eq)]
pub struct SrvCase {
    pub asynchronous: bool,
    pub timeout_ms: u16,
    pub stall_delta_ms: i16,
    pub followups: u8,
    pub small_first: bool,
    #[serde(default)]
    pub own_query: bool,
}

pub fn check_server_stall(c: &SrvCase) -> CheckResult {
    let router = Router::new().with_erased_handler("/sized", Arc::new(Sized { own_query: c.own_query }));
    let wt = Duration::from_millis(c.timeout_ms as u64);
    let addr: SocketAddr = if c.asynchronous {
        block_on(async {
            let l = AsyncServer::listen(crate::util::lo0().as_str()).await.map_err(|e| Fail::new("harness-listen", e.to_string()))?;
            let a = l.local_addr().unwrap();
            crate::peers::net::defer_drop(crate::peers::net::AbortOnDrop(tokio::spawn(async move {
                let _ = AsyncServer::new(router).write_timeout(Some(wt)).serve(l).await;
            })));
            Ok::<_, Fail>(a)
        })?
    } else {
        let server = Server::new(router).write_timeout(Some(wt));
        let l = server.listen(crate::util::lo0().as_str()).map_err(|e| Fail::new("harness-listen", e.to_string()))?;
        let a = l.local_addr().unwrap();
        crate::peers::net::stop_at_end_of_case(&l);
        std::thread::spawn(move || {
            let _ = server.serve(l);
        });
        a
    };
    // harness client: raw socket with a tiny receive buffer
    let sock = socket2::Socket::new(socket2::Domain::IPV4, socket2::Type::STREAM, None).map_err(|e| Fail::new("harness-socket", e.to_string()))?;
    sock.set_recv_buffer_size(4096).ok();
    sock.connect(&addr.into()).map_err(|e| Fail::new("harness-connect", e.to_string()))?;
    let mut s: std::net::TcpStream = sock.into();
    s.set_nodelay(true).ok();
    let mut issued = Vec::new();
    let mut reqs: Vec<(u64, usize, u8)> = Vec::new();
    let mut id = 1u64;
    if c.small_first {
        reqs.push((id, 300, 0x41));
        id += 1;
    }
    reqs.push((id, BIG, 0x42));
    let big_idx = reqs.len() - 1;
    for i in 0..c.followups {
        id += 1;
        reqs.push((id, if i % 2 == 0 { 20 } else { 50_000 }, 0x50 + i));
    }
    for (_, len, f) in &reqs {
        issued.push(Issued {
            path: if c.own_query { OWN_QUERY.into() } else { "/sized".into() },
            body_len: *len,
            fill: *f,
            body_format: 0x7005,
            notify: 0,
            query_format: 1,
            ec: 0,
        });
    }
    let stall = Duration::from_millis((c.timeout_ms as i64 + c.stall_delta_ms as i64).max(0) as u64);
    let mut captured = Vec::new();
    for (i, (rid, len, f)) in reqs.iter().enumerate() {
        let mut body = (*len as u32).to_le_bytes().to_vec();
        body.push(*f);
        let frame = crate::peers::net::frame_with(*rid, 0, b"/sized", 1, &body, 0, 0);
        if s.write_all(&frame).is_err() {
            break;
        }
        if i == big_idx {
            // stop reading around the server's write timeout, then drain what is there
            std::thread::sleep(stall);
            drain_std(&mut s, &mut captured, Duration::from_millis(150));
        }
    }
    let _ = s.shutdown(std::net::Shutdown::Write);
    drain_std(&mut s, &mut captured, Duration::from_secs(5));
    let st = check_stream(&captured, &issued)?;
    let interrupted = st.whole < issued.len();
    Ok(CaseInfo::new(interrupted)
        .class(if c.asynchronous { "AsyncServer" } else { "Server" })
        .class(if interrupted { "response-interrupted" } else { "all-responses-whole" })
        .class(if st.prefix_len > 0 { "client-holds-prefix" } else { "stream-ends-on-boundary" }))
}

fn srv_case() -> BoxedStrategy<SrvCase> {
    (any::<bool>(), 15u16..60, prop_oneof![3 => 20i16..150, 1 => -15i16..20], 1u8..4, any::<bool>(), any::<bool>())
        .prop_map(|(asynchronous, timeout_ms, stall_delta_ms, followups, small_first, own_query)| SrvCase {
            asynchronous,
            timeout_ms,
            stall_delta_ms,
            followups,
            small_first,
            own_query,
        })
        .boxed()
}

fn corpus<C: serde::de::DeserializeOwned>(name: &str) -> Vec<C> {
    let path = verif_root().join("corpus/C05").join(format!("{name}.json"));
    std::fs::read_to_string(path)
        .ok()
        .and_then(|t| serde_json::from_str(&t).ok())
        .unwrap_or_default()
}

pub fn run(ctx: &Ctx, rep: &Report) {
    // Regression inputs of the fixed findings F3/F4/F5 first.
    run_enum(ctx, rep, "write-timeout", &corpus::<WtCase>("write-timeout"), false, &check_write_timeout);
    run_enum(ctx, rep, "abandoned", &corpus::<AbCase>("abandoned"), false, &check_abandoned);
    run_enum(ctx, rep, "server-stall", &corpus::<SrvCase>("server-stall"), false, &check_server_stall);
    // each case moves megabytes; keep the thread count moderate
    let t = ctx.threads.min(8);
    run_prop_threads(ctx, rep, "concurrent", ctx.tier.pick(120, 3_000), t, &|| conc_case(), &check_concurrent);
    run_prop_threads(ctx, rep, "write-timeout", ctx.tier.pick(96, 2_000), t, &|| wt_case(), &check_write_timeout);
    run_prop_threads(ctx, rep, "abandoned", ctx.tier.pick(64, 1_500), t, &|| ab_case(), &check_abandoned);
    run_prop_threads(ctx, rep, "abandoned-small", ctx.tier.pick(48, 1_000), t, &|| small_ab_case(), &check_abandoned_small);
    run_prop_threads(ctx, rep, "server-stall", ctx.tier.pick(64, 1_500), t, &|| srv_case(), &check_server_stall);
    super::c05_ws::run(ctx, rep);
}

pub fn replay(sub: &str, case: &serde_json::Value) -> Result<(), Fail> {
    match sub {
        "concurrent" => replay_case::<ConcCase>(case, &check_concurrent),
        "write-timeout" => replay_case::<WtCase>(case, &check_write_timeout),
        "abandoned" => replay_case::<AbCase>(case, &check_abandoned),
        "abandoned-small" => replay_case::<SmallAbCase>(case, &check_abandoned_small),
        "server-stall" => replay_case::<SrvCase>(case, &check_server_stall),
        s if s.starts_with("ws-") => super::c05_ws::replay(s, case),
        _ => Err(Fail::new("replay-unknown-sub", sub.to_string())),
    }
}

